//! Coverage-guided stage of the thorough tiers: libFuzzer mutates the *choice stream* (src.rs) that every generator of the
//! harness reads, so the input is always a well-formed case of the check named by BEFFV_FUZZ_ID and the oracle is the
//! check's own `exec`.  The compiler / engine run inside this process (BEFFV_INPROC), which is what gives libFuzzer its
//! coverage feedback over beff's Rust code.  A violation is written to $BEFFV_FUZZ_DIR/violations/ (first per signature)
//! and fuzzing goes on; the driver (runner::fuzz_stage) judges every saved stream again through the ordinary path.
#![no_main]
use beffv::runner::{Ctx, Tier};
use beffv::src::Src;
use libfuzzer_sys::fuzz_target;
use std::collections::{BTreeMap, BTreeSet};
use std::sync::mpsc::{channel, Receiver, Sender};
use std::sync::{Mutex, OnceLock};

struct Worker {
    tx: Sender<Vec<u32>>,
    rx: Receiver<()>,
}
static WORKER: OnceLock<Mutex<Worker>> = OnceLock::new();

#[derive(Default)]
struct FuzzStats {
    cases: u64,
    evals: u64,
    nontrivial: BTreeSet<u64>,
    labels: BTreeMap<String, u64>,
    known: BTreeMap<String, u64>,
    excluded: BTreeMap<String, u64>,
    infra: u64,
    violations: BTreeMap<String, u64>,
    samples: Vec<serde_json::Value>,
}
static STATS: OnceLock<Mutex<FuzzStats>> = OnceLock::new();

fn dir() -> String {
    std::env::var("BEFFV_FUZZ_DIR").unwrap_or_else(|_| ".".to_string())
}

fn dump_stats() {
    if let Some(st) = STATS.get() {
        if let Ok(st) = st.lock() {
            let v = serde_json::json!({
                "cases": st.cases, "evals": st.evals, "nontrivial": st.nontrivial.iter().collect::<Vec<_>>(), "labels": st.labels,
                "known": st.known, "excluded": st.excluded, "infra": st.infra, "violations": st.violations, "samples": st.samples,
            });
            let _ = std::fs::write(format!("{}/stats-{}.json", dir(), std::process::id()), v.to_string());
        }
    }
}

extern "C" fn at_exit() {
    dump_stats();
}
extern "C" {
    fn atexit(cb: extern "C" fn()) -> i32;
}

fn start() -> Mutex<Worker> {
    let id = std::env::var("BEFFV_FUZZ_ID").expect("BEFFV_FUZZ_ID");
    let check = beffv::check_by_id(&id).expect("unknown check");
    beffv::compile::install_panic_hook();
    let node = beffv::proc::find_node().unwrap_or_default();
    let open: BTreeSet<String> = beffv::runner::load_known_findings().into_iter().filter(|k| k.property == id && k.status == "open").map(|k| k.matcher).collect();
    let _ = std::fs::create_dir_all(format!("{}/violations", dir()));
    let _ = STATS.set(Mutex::new(FuzzStats::default()));
    unsafe {
        atexit(at_exit);
    }
    let (tx, rx_in) = channel::<Vec<u32>>();
    let (tx_out, rx) = channel::<()>();
    std::thread::Builder::new()
        .stack_size(1024 * 1024 * 1024)
        .spawn(move || {
            let mut ctx = Ctx::new(&node, Tier::Thorough, open);
            ctx.compiler.inproc = true;
            while let Ok(data) = rx_in.recv() {
                let mut s = Src::new(&data);
                let case = check.generate(&mut s, Tier::Thorough);
                let out = check.exec(&case, &mut ctx);
                {
                    let mut st = STATS.get().unwrap().lock().unwrap();
                    st.cases += 1;
                    st.evals += out.evals;
                    if out.infra.is_some() {
                        st.infra += 1;
                    }
                    if let Some(f) = out.nontrivial {
                        if st.nontrivial.insert(f) && st.samples.len() < 3 {
                            if let Some(smp) = &out.sample {
                                st.samples.push(smp.clone());
                            }
                        }
                    }
                    for l in &out.labels {
                        *st.labels.entry(l.clone()).or_insert(0) += 1;
                    }
                    for k in &out.known {
                        *st.known.entry(k.clone()).or_insert(0) += 1;
                    }
                    for (k, n) in &out.excluded {
                        *st.excluded.entry(k.clone()).or_insert(0) += *n as u64;
                    }
                    if out.infra.is_none() {
                        if let Some(v) = &out.violation {
                            let n = st.violations.entry(v.signature.clone()).or_insert(0);
                            *n += 1;
                            if *n == 1 {
                                let body = serde_json::json!({"signature": v.signature, "what": v.what, "choices": data, "case": case});
                                let _ = std::fs::write(format!("{}/violations/{}-{:016x}.json", dir(), std::process::id(), beffv::runner::fp(&v.signature)), body.to_string());
                            }
                        }
                    }
                }
                let cases = STATS.get().unwrap().lock().unwrap().cases;
                if cases % 2000 == 0 {
                    dump_stats();
                }
                let _ = tx_out.send(());
            }
        })
        .expect("spawn");
    Mutex::new(Worker { tx, rx })
}

fuzz_target!(|data: &[u8]| {
    let w = WORKER.get_or_init(start).lock().unwrap();
    let stream: Vec<u32> = data.chunks_exact(4).map(|c| u32::from_le_bytes([c[0], c[1], c[2], c[3]])).collect();
    w.tx.send(stream).expect("worker gone");
    w.rx.recv().expect("worker died");
});
