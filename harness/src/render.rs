//! Spellings: print a TypeScript program whose TypeScript meaning is the given denotation *by construction*.
//! The renderer consumes choices from the stream; it never computes a meaning from a spelling.
use crate::den::{D, Env, Prop, TplPart, TYPED_ARRAYS};
use crate::member::{Mode, Ref, Tri};
use crate::jsval::JsVal;
use crate::src::Src;
use std::collections::BTreeMap;

#[derive(Debug, Clone, Copy, PartialEq, Eq, PartialOrd, Ord)]
pub enum Feat {
    Order,      // reorder members / properties / declarations
    Alias,      // introduce aliases for sub-terms
    InlineRef,  // inline a non-recursive named type
    Rename,     // rename the named types
    Syntax,     // parentheses, readonly, Array<T>, quotes, separators
    Interface,  // interface instead of object type (also with extends)
    Generic,    // Id<T>, Box<T>["v"], generic named types
    Jsdoc,      // comments and JSDoc
    JsdocHeavy, // ... on every second declaration and member
    DuMerge,    // discriminated union written with a literal-union tag / split by tag
    Enum,       // enums for literal unions and literals
    Typeof,     // typeof of `as const` constants
    Utility,    // Partial, Required, Pick, Omit, Record, mapped types
    Keyof,      // keyof for literal unions
    Indexed,    // indexed access types
    Exclude,    // Exclude<U | X, X>
    Cond,       // conditional types with a decided check
    SplitInter, // object type written as an intersection of two object types
    ParamNamed, // a named type called `T`, like the type parameters of the generic helpers and definitions
}

#[derive(Debug, Clone)]
pub struct RenderCfg {
    pub feats: Vec<Feat>,
    /// probability (x/8) that an applicable alternative spelling is taken at a node
    pub eagerness: u32,
}

impl RenderCfg {
    pub fn plain() -> Self {
        RenderCfg { feats: vec![], eagerness: 0 }
    }
    pub fn all() -> Self {
        use Feat::*;
        RenderCfg {
            feats: vec![
                Order, Alias, InlineRef, Rename, Syntax, Interface, Generic, Jsdoc, DuMerge, Enum, Typeof, Utility, Keyof,
                Indexed, Exclude, Cond, SplitInter, ParamNamed,
            ],
            eagerness: 3,
        }
    }
    /// exactly the rewrites C08's statement lists
    pub fn c08() -> Self {
        use Feat::*;
        RenderCfg {
            feats: vec![Order, Alias, InlineRef, Rename, Syntax, Interface, Generic, Jsdoc, DuMerge, ParamNamed],
            eagerness: 3,
        }
    }
    pub fn without(mut self, f: &[Feat]) -> Self {
        self.feats.retain(|x| !f.contains(x));
        self
    }
    fn has(&self, f: Feat) -> bool {
        self.feats.contains(&f)
    }
}

#[derive(Debug, Clone, Copy, PartialEq, Eq, PartialOrd, Ord)]
enum Prec {
    Cond = 0,
    Union = 1,
    Inter = 2,
    Prefix = 3, // keyof / readonly / typeof
    Atom = 4,
}

#[derive(Debug, Clone)]
struct Txt {
    s: String,
    p: Prec,
}
/// is the whole text one `{ ... }` (the opening brace closes at the very end)?  `{ a: 1 } extends X ? Y : { b: 2 }` and
/// `{ a: 1 } & { b: 2 }` are not.
fn is_one_object_literal(text: &str) -> bool {
    let t = text.trim();
    if !t.starts_with('{') || !t.ends_with('}') {
        return false;
    }
    let cs: Vec<char> = t.chars().collect();
    let mut depth = 0i32;
    let mut i = 0;
    while i < cs.len() {
        let c = cs[i];
        match c {
            '"' | '\'' | '`' => {
                // skip the string / template text (nested `${}` holes of templates hold types without braces at depth 0
                // only in spellings this renderer does not put inside intersections)
                let q = c;
                i += 1;
                while i < cs.len() && cs[i] != q {
                    if cs[i] == '\\' {
                        i += 1;
                    }
                    i += 1;
                }
            }
            '{' => depth += 1,
            '}' => {
                depth -= 1;
                if depth == 0 && i + 1 < cs.len() {
                    return false;
                }
            }
            _ => {}
        }
        i += 1;
    }
    depth == 0
}

fn atom(s: impl Into<String>) -> Txt {
    Txt { s: s.into(), p: Prec::Atom }
}
fn need(t: Txt, p: Prec) -> String {
    if t.p < p { format!("({})", t.s) } else { t.s }
}

pub fn ts_string(s: &str) -> String {
    serde_json::to_string(s).unwrap()
}
fn is_ident(s: &str) -> bool {
    let mut cs = s.chars();
    match cs.next() {
        Some(c) if c.is_ascii_alphabetic() || c == '_' || c == '$' => {}
        _ => return false,
    }
    cs.all(|c| c.is_ascii_alphanumeric() || c == '_' || c == '$')
}
fn escape_tpl(s: &str) -> String {
    s.replace('\\', "\\\\").replace('`', "\\`").replace("${", "\\${")
}

#[derive(Debug, Clone, Default)]
pub struct Rendered {
    pub decls: Vec<String>,
    /// type expression per root
    pub roots: Vec<String>,
    /// which features were actually used (for labels / non-triviality rules)
    pub used: BTreeMap<String, u32>,
    /// constructs skipped because of a known finding (id -> count)
    pub excluded: BTreeMap<String, u32>,
}

pub struct Renderer<'a, 'b> {
    pub env: &'a Env,
    pub cfg: RenderCfg,
    s: &'a mut Src<'b>,
    decls: Vec<String>,
    counter: usize,
    /// per env def: (name, generic param info)
    def_names: Vec<String>,
    def_generic: Vec<Option<(Vec<usize>, String)>>, // path of the abstracted leaf, argument text
    def_emitted: Vec<bool>,
    recursive: Vec<bool>,
    helpers: BTreeMap<&'static str, ()>,
    used: BTreeMap<String, u32>,
    excluded: BTreeMap<String, u32>,
    /// inside a generic definition: (def index, path->param) so that the abstracted leaf prints as `T`
    in_generic_def: Option<usize>,
    inline_budget: usize,
    prefix: String,
    /// constructs that must not be drawn because a known finding would swamp the search
    pub avoid: Vec<&'static str>,
    /// true while the type being printed is a direct member of an intersection (an object there is not split again:
    /// splitting a member changes how many members the intersection has, which is not the rewrite being tested)
    inter_member: bool,
    direct_inter_member: bool,
    /// (key, optional, printed type) of the object literal printed last (outermost call wins)
    last_members: Vec<(String, bool, String)>,
    /// a named type is called `T` (like the type parameters) / the alias through which generic bodies mention it
    t_taken: bool,
    t_alias: Option<String>,
    /// > 0 while the operand of an Exclude is being written in place (0 again inside a named definition emitted on the way)
    engine_operand: u32,
}

fn reaches(env: &Env, from: usize, target: usize, seen: &mut Vec<bool>) -> bool {
    if seen[from] {
        return false;
    }
    seen[from] = true;
    let mut found = false;
    env.get(from).any_node(&mut |n| {
        if let D::Ref(j) = n {
            if *j == target {
                found = true;
                return true;
            }
        }
        false
    });
    if found {
        return true;
    }
    let mut next = vec![];
    env.get(from).any_node(&mut |n| {
        if let D::Ref(j) = n {
            next.push(*j);
        }
        false
    });
    for j in next {
        if reaches(env, j, target, seen) {
            return true;
        }
    }
    false
}

impl<'a, 'b> Renderer<'a, 'b> {
    pub fn new(env: &'a Env, cfg: RenderCfg, s: &'a mut Src<'b>, prefix: &str) -> Self {
        let n = env.defs.len();
        let recursive = (0..n).map(|i| reaches(env, i, i, &mut vec![false; n])).collect();
        // spelling density varies per case: some programs are plain, some heavily rewritten
        let mut cfg = cfg;
        if cfg.eagerness > 0 {
            cfg.eagerness = [0u32, 1, 1, 2, 3][s.below(5)].min(cfg.eagerness);
        }
        Renderer {
            env,
            cfg,
            s,
            decls: vec![],
            counter: 0,
            def_names: vec![String::new(); n],
            def_generic: vec![None; n],
            def_emitted: vec![false; n],
            recursive,
            helpers: BTreeMap::new(),
            used: BTreeMap::new(),
            excluded: BTreeMap::new(),
            in_generic_def: None,
            inline_budget: 6,
            prefix: prefix.to_string(),
            avoid: vec![],
            inter_member: false,
            direct_inter_member: false,
            last_members: vec![],
            t_taken: false,
            t_alias: None,
            engine_operand: 0,
        }
    }

    fn mark(&mut self, what: &str) {
        *self.used.entry(what.to_string()).or_insert(0) += 1;
    }
    fn fresh(&mut self, stem: &str) -> String {
        self.counter += 1;
        format!("{}{}{}", self.prefix, stem, self.counter)
    }
    fn take(&mut self, f: Feat) -> bool {
        if !self.cfg.has(f) {
            return false;
        }
        let e = self.cfg.eagerness;
        self.s.chance(e, 8)
    }
    fn doc(&mut self) -> String {
        let heavy = self.cfg.has(Feat::JsdocHeavy);
        if (self.cfg.has(Feat::Jsdoc) || heavy) && self.s.chance(1, if heavy { 2 } else { 6 }) {
            self.mark("jsdoc");
            match self.s.below(3) {
                0 => "/** documented */ ".to_string(),
                1 => "/**\n * multi\n * line\n */\n".to_string(),
                _ => "/* plain comment */ ".to_string(),
            }
        } else {
            String::new()
        }
    }

    pub fn finish(mut self, roots: Vec<String>) -> Rendered {
        let mut decls = std::mem::take(&mut self.decls);
        if self.cfg.has(Feat::Order) && decls.len() > 1 {
            // rotate + swap: declaration order is irrelevant in TypeScript
            let r = self.s.below(decls.len());
            decls.rotate_left(r);
            if self.s.chance(1, 2) {
                let i = self.s.below(decls.len());
                decls.swap(0, i);
            }
        }
        Rendered { decls, roots, used: self.used, excluded: self.excluded }
    }

    pub fn render_root(&mut self, d: &D) -> String {
        let t = self.ty(d);
        t.s
    }

    // ---------------------------------------------------------------- named definitions

    fn ensure_def(&mut self, i: usize) {
        if self.def_emitted[i] {
            return;
        }
        self.def_emitted[i] = true;
        let base = self.env.defs[i].0.clone();
        // now and then a named type is called like the type parameter of the generic helpers and definitions (`T`):
        // parameters are scoped to their declaration, so a global `T` mentioned by a non-generic alias that is reached
        // from inside a generic type is still the global one
        let name = if self.prefix.is_empty() && self.in_generic_def.is_none() && !self.t_taken && self.cfg.has(Feat::ParamNamed) && self.s.chance(1, 6) {
            self.mark("named_like_type_parameter");
            self.t_taken = true;
            "T".to_string()
        } else if self.cfg.has(Feat::Rename) && self.s.chance(1, 2) {
            self.mark("rename");
            format!("{}{}_r{}", self.prefix, base, self.s.below(3))
        } else {
            format!("{}{}", self.prefix, base)
        };
        self.def_names[i] = name.clone();
        let body = self.env.get(i).clone();
        // generic definition: abstract one non-reference leaf
        if name != "T" && self.take(Feat::Generic) {
            let mut leaves: Vec<Vec<usize>> = vec![];
            collect_leaf_paths(&body, &mut vec![], &mut leaves);
            if !leaves.is_empty() {
                let path = leaves[self.s.below(leaves.len())].clone();
                let leaf = at_path(&body, &path).clone();
                let saved = std::mem::replace(&mut self.cfg, RenderCfg::plain());
                let arg = self.ty(&leaf).s;
                self.cfg = saved;
                self.def_generic[i] = Some((path, arg));
                self.mark("generic_def");
            }
        }
        let prev = self.in_generic_def;
        let prev_operand = std::mem::replace(&mut self.engine_operand, 0);
        self.in_generic_def = if self.def_generic[i].is_some() { Some(i) } else { None };
        let params = if self.def_generic[i].is_some() { "<T>" } else { "" };
        let doc = self.doc();
        // another named object type whose properties are all among this one's: `interface J extends I { the rest }`
        let mut extends_named: Option<(usize, Vec<Prop>)> = None;
        if let D::Object { props, index: None } = &body {
            if self.def_generic[i].is_none() && self.cfg.has(Feat::Interface) {
                for (j, (_, other)) in self.env.defs.iter().enumerate() {
                    if j == i {
                        continue;
                    }
                    if let D::Object { props: op, index: None } = other {
                        if !op.is_empty() && op.len() < props.len() && op.iter().all(|q| props.contains(q)) && self.s.chance(2, 3) {
                            let rest: Vec<Prop> = props.iter().filter(|p| !op.contains(p)).cloned().collect();
                            extends_named = Some((j, rest));
                            break;
                        }
                    }
                }
            }
        }
        if let Some((j, rest)) = extends_named {
            self.ensure_def(j);
            if self.def_generic[j].is_none() {
                self.mark("interface_extends_named_type");
                // (which definition extends which: when the base is still being resolved, the compiler keeps the
                // declaration as the intersection `Base & { rest }` instead of one flattened object, see extends_as_intersections)
                self.mark(&format!("extends_named:{}:{}", i, j));
                let base = self.def_names[j].clone();
                let members = self.members_at(&rest, &[]);
                self.in_generic_def = prev;
                self.engine_operand = prev_operand;
                self.decls.push(format!("{}interface {} extends {} {{ {} }}", doc, name, base, members));
                return;
            }
        }
        let decl = match &body {
            D::Object { props, index: None } if self.cfg.has(Feat::Interface) && self.s.chance(1, 2) => {
                self.mark("interface");
                let members = self.members_at(props, &[]);
                format!("{}interface {}{} {{ {} }}", doc, name, params, members)
            }
            _ => {
                let t = self.ty_at(&body, &mut vec![]);
                format!("{}type {}{} = {};", doc, name, params, t.s)
            }
        };
        self.in_generic_def = prev;
        self.engine_operand = prev_operand;
        self.decls.push(decl);
    }

    fn ref_text(&mut self, i: usize) -> String {
        self.ensure_def(i);
        let name = self.def_names[i].clone();
        match &self.def_generic[i] {
            Some((_, arg)) => {
                if self.in_generic_def == Some(i) {
                    format!("{}<T>", name)
                } else {
                    format!("{}<{}>", name, arg)
                }
            }
            None => {
                if name == "T" && self.in_generic_def.is_some() {
                    // inside `type G<T> = ...` the parameter shadows the global: go through an alias declared outside
                    if self.t_alias.is_none() {
                        let a = self.fresh("TGlobal");
                        self.decls.push(format!("type {} = T;", a));
                        self.t_alias = Some(a);
                    }
                    return self.t_alias.clone().unwrap();
                }
                name
            }
        }
    }

    // ---------------------------------------------------------------- types

    fn ty(&mut self, d: &D) -> Txt {
        // outside a generic definition paths are irrelevant
        let saved = self.in_generic_def.take();
        let r = self.ty_at(d, &mut vec![]);
        self.in_generic_def = saved;
        r
    }

    /// `path` = position inside the definition currently being printed (for generic abstraction)
    fn ty_at(&mut self, d: &D, path: &mut Vec<usize>) -> Txt {
        if let Some(i) = self.in_generic_def {
            if let Some((p, _)) = &self.def_generic[i] {
                if p == path {
                    return atom("T");
                }
            }
        }
        let direct = std::mem::replace(&mut self.inter_member, false);
        self.direct_inter_member = direct;
        let (inter_before, decls_before) = (self.mark_count("inter_unmerged_no_key_conflict"), self.decls.len());
        let base = self.ty_inner(d, path);
        let (inter_after, decls_after) = (self.mark_count("inter_unmerged_no_key_conflict"), self.decls.len());
        let engine_before = self.mark_count("indexed_tuple");
        let t = self.wrap(base, d);
        if self.mark_count("indexed_tuple") > engine_before && decls_after == decls_before {
            // the whole expression became the operand of an indexed access the semantic engine computes: intersections
            // written in place inside it are re-materialised (and merged) by the engine, they do not reach the validator
            // as written
            self.move_marks("inter_unmerged_or_named", "inter_under_engine_operand", inter_after - inter_before);
            self.move_marks("inter_unmerged_no_key_conflict", "inter_under_engine_operand_counted", inter_after - inter_before);
        }
        t
    }

    /// do two members of this intersection declare the same key differently (or is a member not an object type, so that
    /// the question cannot be answered)?  Judged on the denotations, through names.
    fn key_conflict(&self, ms: &[D]) -> bool {
        let r = Ref::new(self.env, Mode::Open);
        let mut seen: Vec<(String, bool, D)> = vec![];
        for m in ms {
            match r.head(m) {
                D::Object { props, index: None } => {
                    for p in props {
                        if let Some(q) = seen.iter().find(|q| q.0 == p.key) {
                            if q.1 != p.optional || q.2 != p.ty {
                                return true;
                            }
                        } else {
                            seen.push((p.key.clone(), p.optional, p.ty.clone()));
                        }
                    }
                }
                _ => return true,
            }
        }
        false
    }

    fn mark_count(&self, k: &str) -> u32 {
        self.used.get(k).copied().unwrap_or(0)
    }
    fn move_marks(&mut self, from: &str, to: &str, n: u32) {
        if n == 0 {
            return;
        }
        let left = self.mark_count(from).saturating_sub(n);
        if left == 0 {
            self.used.remove(from);
        } else {
            self.used.insert(from.to_string(), left);
        }
        *self.used.entry(to.to_string()).or_insert(0) += n;
    }

    /// generic wrappers applicable to any type expression
    fn wrap(&mut self, t: Txt, d: &D) -> Txt {
        if self.in_generic_def.is_some() {
            return t; // keep `T` occurrences simple
        }
        let mut t = t;
        if self.take(Feat::Syntax) && self.s.chance(1, 3) {
            self.mark("parens");
            t = atom(format!("({})", t.s));
        }
        if self.take(Feat::Alias) && self.s.chance(1, 2) {
            self.mark("alias");
            let n = self.fresh("A");
            let doc = self.doc();
            self.decls.push(format!("{}type {} = {};", doc, n, t.s));
            t = atom(n);
        }
        if self.take(Feat::Generic) && self.s.chance(1, 2) {
            match self.s.below(3) {
                0 => {
                    self.helper("Id", "type Id<T> = T;");
                    self.mark("generic_id");
                    t = atom(format!("{}Id<{}>", self.prefix, t.s));
                }
                1 => {
                    self.helper("Box", "type Box<T> = { v: T };");
                    self.mark("generic_box");
                    t = atom(format!("{}Box<{}>[\"v\"]", self.prefix, t.s));
                }
                _ => {
                    self.helper("Fst", "type Fst<A, B> = A;");
                    self.mark("generic_fst");
                    t = atom(format!("{}Fst<{}, number>", self.prefix, t.s));
                }
            }
        }
        if self.take(Feat::Indexed) && self.s.chance(1, 3) {
            match self.s.below(3) {
                0 | 1 => {
                    self.mark("indexed_object");
                    t = atom(format!("{{ k: {}; z: number }}[\"k\"]", t.s));
                }
                _ if !self.sem_safe(d) => {
                    *self.excluded.entry("indexed_tuple_over_recursive_or_template_type".to_string()).or_insert(0) += 1;
                }
                _ => {
                    // element of a tuple with a rest element, picked by a literal index (the last fixed position is the
                    // boundary case): directly and through an alias (the alias takes the semantic path)
                    self.mark("indexed_tuple");
                    // (the element type goes through the semantic engine, like an Exclude operand: it inherits the engine's
                    // listed findings, which the checks key on this mark)
                    self.mark("exclude");
                    let before = self.s.below(3);
                    let pads = ["string", "number", "null"];
                    if self.s.chance(1, 3) {
                        // the type is the rest element, picked by the first index behind the fixed positions (or the next)
                        self.mark("indexed_tuple_rest");
                        let fixed: Vec<String> = (0..before).map(|i| pads[i % 3].to_string()).collect();
                        let tuple = if fixed.is_empty() { format!("[...({})[]]", t.s) } else { format!("[{}, ...({})[]]", fixed.join(", "), t.s) };
                        let idx = before + self.s.below(2);
                        if self.s.chance(1, 2) {
                            let n = self.fresh("Row");
                            self.decls.push(format!("type {} = {};", n, tuple));
                            return atom(format!("{}[{}]", n, idx));
                        }
                        return atom(format!("{}[{}]", tuple, idx));
                    }
                    let mut elems: Vec<String> = (0..before).map(|i| pads[i % 3].to_string()).collect();
                    elems.push(t.s.clone());
                    let last = self.s.chance(1, 2);
                    if !last {
                        elems.push("boolean".to_string());
                    }
                    let tuple = format!("[{}, ...bigint[]]", elems.join(", "));
                    if self.s.chance(1, 2) {
                        let n = self.fresh("Row");
                        self.decls.push(format!("type {} = {};", n, tuple));
                        t = atom(format!("{}[{}]", n, before));
                    } else {
                        t = atom(format!("{}[{}]", tuple, before));
                    }
                }
            }
        }
        if self.take(Feat::Cond) && self.s.chance(1, 3) {
            t = self.conditional(t);
        }
        let _ = d;
        t
    }

    fn helper(&mut self, key: &'static str, decl: &str) {
        if self.helpers.insert(key, ()).is_none() {
            // helper names carry the prefix so that two spellings in one file do not clash
            let decl = decl.replacen(&format!("type {}", key), &format!("type {}{}", self.prefix, key), 1);
            self.decls.push(decl);
        }
    }

    fn conditional(&mut self, t: Txt) -> Txt {
        // (check, extends, verdict) pairs whose relation TypeScript's assignability decides without doubt
        const TABLE: [(&str, &str, bool); 12] = [
            ("\"a\"", "string", true),
            ("string", "\"a\"", false),
            ("number", "string", false),
            ("1", "number", true),
            ("{ a: string; b: number }", "{ a: string }", true),
            ("{ a: string }", "{ a: string; b: number }", false),
            ("[string, number]", "(string | number)[]", true),
            ("string | number", "string", false),
            ("string[]", "number[]", false),
            ("true", "boolean", true),
            ("{ a: \"x\" }", "{ a: string }", true),
            ("[string]", "[string, number]", false),
        ];
        let (c, e, verdict) = TABLE[self.s.below(TABLE.len())];
        let other = *self.s.pick(&["never", "boolean", "{ zz: 1 }", "\"other\""]);
        self.mark("conditional");
        let inner = need(t, Prec::Union);
        let s = if verdict {
            format!("{} extends {} ? {} : {}", c, e, inner, other)
        } else {
            format!("{} extends {} ? {} : {}", c, e, other, inner)
        };
        Txt { s, p: Prec::Cond }
    }

    fn ty_inner(&mut self, d: &D, path: &mut Vec<usize>) -> Txt {
        match d {
            D::Never => atom("never"),
            D::Any => atom(if self.cfg.has(Feat::Syntax) && self.s.chance(1, 2) { "unknown" } else { "any" }),
            D::Null => atom("null"),
            D::Undefined => atom("undefined"),
            D::Void => atom("void"),
            D::Bool => atom("boolean"),
            D::Num | D::Str if self.in_generic_def.is_none() && self.cfg.has(Feat::Typeof) && self.s.chance(1, 12) => {
                // typeof of a constant whose initialiser is an arithmetic / concatenation expression
                self.mark("typeof_const_binary_expr");
                let c = self.fresh("c");
                let init = if matches!(d, D::Num) { ["1 + 2", "2 * 3 - 1", "4 / 2 + 1"][self.s.below(3)] } else { ["\"a\" + \"b\"", "\"a\" + \"\" + \"c\""][self.s.below(2)] };
                self.decls.push(format!("const {} = {};", c, init));
                Txt { s: format!("typeof {}", c), p: Prec::Prefix }
            }
            D::Num => atom("number"),
            D::Str => atom("string"),
            D::BoolLit(b) => self.literal(&D::BoolLit(*b), &b.to_string()),
            D::NumLit(n) => self.literal(d, n),
            D::StrLit(l) => {
                let txt = if self.cfg.has(Feat::Syntax) && !l.contains('\'') && !l.contains('\\') && self.s.chance(1, 4) {
                    format!("'{}'", l)
                } else if self.cfg.has(Feat::Syntax) && self.s.chance(1, 6) {
                    format!("`{}`", escape_tpl(l))
                } else {
                    ts_string(l)
                };
                self.literal(d, &txt)
            }
            D::Tpl(parts) => {
                let mut out = String::from("`");
                for p in parts {
                    match p {
                        TplPart::Lit(l) => out.push_str(&escape_tpl(l)),
                        TplPart::Str => out.push_str("${string}"),
                        TplPart::Num => out.push_str("${number}"),
                        TplPart::Bool => out.push_str("${boolean}"),
                        TplPart::OneOf(o) => {
                            out.push_str("${");
                            out.push_str(&o.iter().map(|x| ts_string(x)).collect::<Vec<_>>().join(" | "));
                            out.push('}');
                        }
                    }
                }
                out.push('`');
                atom(out)
            }
            D::StrFmt(chain) => {
                let mut acc = format!("StringFormat<{}>", ts_string(&chain[0]));
                for f in &chain[1..] {
                    // the base of an extension may be a named format
                    if self.in_generic_def.is_none() && self.cfg.has(Feat::Alias) && self.s.chance(1, 2) {
                        self.mark("format_base_behind_alias");
                        let n = self.fresh("F");
                        self.decls.push(format!("type {} = {};", n, acc));
                        acc = n;
                    }
                    acc = format!("StringFormatExtends<{}, {}>", acc, ts_string(f));
                }
                atom(acc)
            }
            D::NumFmt(chain) => {
                let mut acc = format!("NumberFormat<{}>", ts_string(&chain[0]));
                for f in &chain[1..] {
                    if self.in_generic_def.is_none() && self.cfg.has(Feat::Alias) && self.s.chance(1, 2) {
                        self.mark("format_base_behind_alias");
                        let n = self.fresh("F");
                        self.decls.push(format!("type {} = {};", n, acc));
                        acc = n;
                    }
                    acc = format!("NumberFormatExtends<{}, {}>", acc, ts_string(f));
                }
                atom(acc)
            }
            D::BigInt => atom("bigint"),
            D::Date => atom("Date"),
            D::TypedArray(k) => atom(TYPED_ARRAYS[*k]),
            D::Array(item) => {
                path.push(0);
                let it = self.ty_at(item, path);
                path.pop();
                let v = if self.cfg.has(Feat::Syntax) { self.s.below(4) } else { 0 };
                match v {
                    0 => Txt { s: format!("{}[]", need(it, Prec::Atom)), p: Prec::Atom },
                    1 => atom(format!("Array<{}>", it.s)),
                    2 => atom(format!("ReadonlyArray<{}>", it.s)),
                    _ => Txt { s: format!("readonly {}[]", need(it, Prec::Atom)), p: Prec::Prefix },
                }
            }
            D::Tuple(prefix, None) if !prefix.is_empty() && self.in_generic_def.is_none() && prefix.iter().all(is_const_expressible) && self.take(Feat::Typeof) => {
                self.mark("typeof_const_tuple");
                let c = self.fresh("c");
                let elems: Vec<String> = prefix.iter().map(const_expr).collect();
                match self.s.below(4) {
                    0 if elems.len() >= 2 => {
                        // [...head, tail...]: the elements of a spread tuple constant are spliced in
                        self.mark("typeof_const_tuple_spread");
                        let cut = self.s.range(1, elems.len() - 1);
                        let c0 = self.fresh("c");
                        self.decls.push(format!("const {} = [{}] as const;", c0, elems[..cut].join(", ")));
                        self.decls.push(format!("const {} = [...{}, {}] as const;", c, c0, elems[cut..].join(", ")));
                    }
                    1 if elems.len() >= 2 => {
                        // [head..., ...tail] and a spread in the middle
                        self.mark("typeof_const_tuple_spread");
                        let cut = self.s.range(1, elems.len() - 1);
                        let c0 = self.fresh("c");
                        self.decls.push(format!("const {} = [{}] as const;", c0, elems[cut..].join(", ")));
                        if self.s.chance(1, 2) {
                            self.decls.push(format!("const {} = [{}, ...{}] as const;", c, elems[..cut].join(", "), c0));
                        } else {
                            let c1 = self.fresh("c");
                            self.decls.push(format!("const {} = [] as const;", c1));
                            self.decls.push(format!("const {} = [{}, ...{}, ...{}] as const;", c, elems[..cut].join(", "), c1, c0));
                        }
                    }
                    2 => {
                        self.mark("typeof_const_satisfies");
                        self.decls.push(format!("const {} = [{}] as const satisfies readonly unknown[];", c, elems.join(", ")));
                    }
                    _ => {
                        self.decls.push(format!("const {} = [{}] as const;", c, elems.join(", ")));
                    }
                }
                Txt { s: format!("typeof {}", c), p: Prec::Prefix }
            }
            D::Tuple(prefix, rest) => {
                let mut parts = vec![];
                // named members: `[x0: T, x1: U, ...more: V[]]` is the same tuple type (all members named, or none)
                let labelled = self.cfg.has(Feat::Syntax) && self.s.chance(1, 5);
                if labelled {
                    self.mark("tuple_named_members");
                }
                for (i, p) in prefix.iter().enumerate() {
                    path.push(i);
                    let t = self.ty_at(p, path);
                    path.pop();
                    parts.push(if labelled { format!("x{}: {}", i, t.s) } else { t.s });
                }
                if let Some(r) = rest {
                    path.push(prefix.len());
                    let t = self.ty_at(r, path);
                    path.pop();
                    if labelled {
                        parts.push(format!("...more: {}[]", need(t, Prec::Atom)));
                    } else if self.cfg.has(Feat::Syntax) && self.s.chance(1, 3) {
                        parts.push(format!("...Array<{}>", t.s));
                    } else {
                        parts.push(format!("...{}[]", need(t, Prec::Atom)));
                    }
                }
                let body = format!("[{}]", parts.join(", "));
                if self.cfg.has(Feat::Syntax) && self.s.chance(1, 5) {
                    Txt { s: format!("readonly {}", body), p: Prec::Prefix }
                } else {
                    atom(body)
                }
            }
            D::Object { props, index } => self.object(props, index.as_deref(), path),
            D::Map(k, v) => {
                path.push(0);
                let kt = self.ty_at(k, path);
                path.pop();
                path.push(1);
                let vt = self.ty_at(v, path);
                path.pop();
                atom(format!("Map<{}, {}>", kt.s, vt.s))
            }
            D::Set(t) => {
                path.push(0);
                let it = self.ty_at(t, path);
                path.pop();
                atom(format!("Set<{}>", it.s))
            }
            D::Union(ms) => self.union(ms, path),
            D::Inter(ms) => {
                // now and then the whole intersection is handed to the semantic engine: Exclude<X | (A & B), X> with a record X
                // that no member is assignable to
                let through_engine = self.in_generic_def.is_none()
                    && self.cfg.has(Feat::Exclude)
                    && self.sem_safe(d)
                    && self.s.chance(1, 6)
                    // (plain object members only - named or in place -: with records or nullable members the engine's
                    // listed findings about intersections of records come into play)
                    && ms.iter().all(|m| matches!(Ref::new(self.env, Mode::Open).head(m), D::Object { index: None, .. }))
                    && crate::csem::pair_features(self.env, d, d).is_empty();
                if through_engine {
                    self.engine_operand += 1;
                }
                let mut parts = vec![];
                let mut part_members: Vec<Option<Vec<(String, bool, String)>>> = vec![];
                for (i, m) in ms.iter().enumerate() {
                    path.push(i);
                    self.inter_member = true;
                    self.last_members = vec![];
                    let t = self.ty_at(m, path);
                    self.inter_member = false;
                    // (a mapped type `{ [K in ...]: T }` is not an object literal to the compiler's syntactic merge)
                    part_members.push(if is_one_object_literal(&t.s) && !t.s.trim_start().starts_with("{ [K in ") { Some(self.last_members.clone()) } else { None });
                    path.pop();
                    parts.push(need(t, Prec::Inter));
                }
                // does the compiler get to merge this intersection into one object type?  Only when every member is
                // written as an object literal and no key is declared twice with different types or optionality;
                // otherwise it stays an intersection of separately validated members
                // (a key declared by two members merges only if both declarations are spelled identically: `b: number`
                // and `b: Id<number>` are different types to the compiler's syntactic merge)
                let all_inline = part_members.iter().all(|p| p.is_some()) && ms.iter().all(|m| matches!(m, D::Object { index: None, .. }));
                let mut mergeable = true;
                let mut seen: Vec<&(String, bool, String)> = vec![];
                for pm in part_members.iter().flatten() {
                    for p in pm {
                        if let Some(q) = seen.iter().find(|q| q.0 == p.0) {
                            if **q != *p {
                                mergeable = false;
                            }
                        } else {
                            seen.push(p);
                        }
                    }
                }
                let conflict = self.key_conflict(ms);
                if !(all_inline && mergeable) && !conflict && self.engine_operand > 0 {
                    // written in place inside an Exclude operand and unmerged only because a member is named or spelled
                    // indirectly: the semantic engine re-materialises the members as plain objects, which do merge
                    self.mark("inter_under_engine_operand");
                } else {
                    self.mark(if all_inline && mergeable { "inter_inline_mergeable" } else { "inter_unmerged_or_named" });
                }
                if !(all_inline && mergeable) && !conflict && self.engine_operand == 0 {
                    // unmerged only because a member is named or spelled indirectly: once the semantic engine re-materialises
                    // the members (inside an Exclude / indexed-access operand) they are plain objects and do merge
                    self.mark("inter_unmerged_no_key_conflict");
                }
                if self.cfg.has(Feat::Order) && parts.len() > 1 && self.in_generic_def.is_none() {
                    let r = self.s.below(parts.len());
                    parts.rotate_left(r);
                }
                if through_engine {
                    self.engine_operand -= 1;
                    self.mark("exclude");
                    self.mark("exclude_record_operand");
                    return atom(format!("Exclude<{{ zz_excl: \"x\" }} | ({}), {{ zz_excl: \"x\" }}>", parts.join(" & ")));
                }
                Txt { s: parts.join(" & "), p: Prec::Inter }
            }
            D::Ref(i) => {
                if !self.recursive[*i]
                    && self.in_generic_def.is_none()
                    && self.inline_budget > 0
                    && self.take(Feat::InlineRef)
                    && self.s.chance(1, 2)
                {
                    self.inline_budget -= 1;
                    self.mark("inline_ref");
                    let body = self.env.get(*i).clone();
                    let t = self.ty_at(&body, &mut vec![usize::MAX]);
                    return atom(format!("({})", t.s));
                }
                atom(self.ref_text(*i))
            }
        }
    }

    fn literal(&mut self, d: &D, plain: &str) -> Txt {
        if self.in_generic_def.is_some() {
            return atom(plain.to_string());
        }
        let enum_ok = matches!(d, D::StrLit(_) | D::NumLit(_)) && !matches!(d, D::NumLit(n) if n.starts_with('-'));
        if enum_ok && self.take(Feat::Enum) && self.s.chance(1, 2) {
            self.mark("enum_member");
            let e = self.fresh("E");
            self.decls.push(format!("enum {} {{ Other = \"__other__\", M = {} }}", e, plain_enum_init(d)));
            return atom(format!("{}.M", e));
        }
        if is_const_expressible(d) && self.take(Feat::Typeof) && self.s.chance(1, 2) {
            self.mark("typeof_const");
            let c = self.fresh("c");
            match self.s.below(4) {
                3 => {
                    // a constant with a type annotation: typeof reads the annotation
                    self.mark("typeof_const_annotated");
                    self.decls.push(format!("const {}: {} = {};", c, plain, const_expr(d)));
                    return Txt { s: format!("typeof {}", c), p: Prec::Prefix };
                }
                0 => {
                    self.decls.push(format!("const {} = {} as const;", c, const_expr(d)));
                    return Txt { s: format!("typeof {}", c), p: Prec::Prefix };
                }
                1 => {
                    self.decls.push(format!("const {} = {{ k: {}, other: 1 }} as const;", c, const_expr(d)));
                    return Txt { s: format!("typeof {}.k", c), p: Prec::Prefix };
                }
                _ => {
                    self.decls.push(format!("const {} = {{ k: {}, other: 1 }} as const;", c, const_expr(d)));
                    return atom(format!("(typeof {})[\"k\"]", c));
                }
            }
        }
        atom(plain.to_string())
    }

    fn prop_key(&mut self, k: &str) -> String {
        if is_ident(k) && !(self.cfg.has(Feat::Syntax) && self.s.chance(1, 5)) {
            k.to_string()
        } else {
            ts_string(k)
        }
    }

    /// `a: T; b?: U` members; `path_base` = positions of the props inside the current object
    fn members_at(&mut self, props: &[Prop], _unused: &[usize]) -> String {
        let mut path = vec![];
        self.members(props, &(0..props.len()).collect::<Vec<_>>(), &mut path)
    }

    fn members(&mut self, props: &[Prop], idxs: &[usize], path: &mut Vec<usize>) -> String {
        let mut items: Vec<String> = vec![];
        let mut printed: Vec<(String, bool, String)> = vec![];
        for &i in idxs {
            let p = &props[i];
            path.push(i);
            let t = self.ty_at(&p.ty, path);
            path.pop();
            printed.push((p.key.clone(), p.optional, t.s.clone()));
            let ro = if self.cfg.has(Feat::Syntax) && self.s.chance(1, 6) { "readonly " } else { "" };
            let doc = self.doc();
            let key = self.prop_key(&p.key);
            items.push(format!("{}{}{}{}: {}", doc, ro, key, if p.optional { "?" } else { "" }, t.s));
        }
        if self.cfg.has(Feat::Order) && items.len() > 1 && self.in_generic_def.is_none() {
            let r = self.s.below(items.len());
            items.rotate_left(r);
            if self.s.chance(1, 2) {
                items.reverse();
            }
        }
        let sep = if self.cfg.has(Feat::Syntax) && self.s.chance(1, 3) { ", " } else { "; " };
        self.last_members = printed;
        items.join(sep)
    }

    fn object(&mut self, props: &[Prop], index: Option<&D>, path: &mut Vec<usize>) -> Txt {
        // read once: nested types printed below must not see it
        let direct_member = std::mem::replace(&mut self.direct_inter_member, false);
        let all: Vec<usize> = (0..props.len()).collect();
        if let Some(ix) = index {
            // an index value that admits undefined can be written as an optional index signature
            // (Partial<Record<string, T>>, {[K in string]?: T}): the compiler keeps that as an optional-field wrapper
            if props.is_empty() && self.cfg.has(Feat::Utility) && self.in_generic_def.is_none() {
                if let D::Union(ms) = ix {
                    if ms.len() == 2 && ms.iter().filter(|m| matches!(m, D::Undefined)).count() == 1 && self.s.chance(1, 2) {
                        let inner = ms.iter().find(|m| !matches!(m, D::Undefined)).unwrap().clone();
                        let vt = self.ty(&inner);
                        self.mark("optional_index_value");
                        return if self.s.chance(1, 2) { atom(format!("Partial<Record<string, {}>>", vt.s)) } else { atom(format!("{{ [K in string]?: {} }}", vt.s)) };
                    }
                }
            }
            path.push(props.len());
            let vt = self.ty_at(ix, path);
            path.pop();
            if props.is_empty() {
                let v = if self.cfg.has(Feat::Utility) && self.in_generic_def.is_none() { self.s.below(3) } else { 0 };
                return match v {
                    0 => atom(format!("{{ [key: string]: {} }}", vt.s)),
                    1 => {
                        self.mark("record_string");
                        atom(format!("Record<string, {}>", vt.s))
                    }
                    _ => {
                        self.mark("mapped_string");
                        atom(format!("{{ [K in string]: {} }}", vt.s))
                    }
                };
            }
            let m = self.members(props, &all, path);
            return atom(format!("{{ {}; [key: string]: {} }}", m, vt.s));
        }
        let generic = self.in_generic_def.is_some();
        let refm = Ref::new(self.env, Mode::Open);
        let all_optional = !props.is_empty() && props.iter().all(|p| p.optional);
        let all_required = !props.is_empty() && props.iter().all(|p| !p.optional);
        let none_nullish = props.iter().all(|p| refm.member(&p.ty, &JsVal::Undef) == Tri::No);
        let same_type = !props.is_empty() && props.iter().all(|p| p.ty == props[0].ty);

        // every property is its own key as a literal: `{ [K in "a" | "b"]: K }` - and the same text inside a generic alias whose
        // type parameter is called K too (the key parameter of the mapped type shadows it, whatever it is instantiated with)
        let key_identity = all_required && props.iter().all(|p| p.ty == D::StrLit(p.key.clone()));
        if !generic && key_identity && self.cfg.has(Feat::Utility) && self.s.chance(1, 2) {
            let keys = props.iter().map(|p| ts_string(&p.key)).collect::<Vec<_>>().join(" | ");
            if self.s.chance(1, 2) {
                self.mark("mapped_key_identity");
                return atom(format!("{{ [K in {}]: K }}", keys));
            }
            self.mark("mapped_key_shadows_type_parameter");
            let name = self.fresh("Sh");
            self.decls.push(format!("type {}<K> = {{ [K in {}]: K }};", name, keys));
            return atom(format!("{}<{}>", name, if self.s.chance(1, 2) { "number" } else { "\"zz\"" }));
        }
        if !generic && self.take(Feat::Utility) {
            let choice = self.s.below(7);
            match choice {
                0 if all_optional => {
                    self.mark("partial");
                    let req: Vec<Prop> = props.iter().map(|p| Prop { optional: false, ..p.clone() }).collect();
                    let arg = self.utility_arg(&req);
                    return atom(format!("Partial<{}>", arg));
                }
                1 if all_required && none_nullish => {
                    self.mark("required");
                    let opt: Vec<Prop> = props
                        .iter()
                        .enumerate()
                        .map(|(i, p)| Prop { optional: i % 2 == 0, ..p.clone() })
                        .collect();
                    let arg = self.utility_arg(&opt);
                    return atom(format!("Required<{}>", arg));
                }
                2 if !props.is_empty() => {
                    self.mark("pick");
                    let mut bigger = props.to_vec();
                    bigger.push(Prop { key: "zz".into(), ty: D::Num, optional: false });
                    if self.s.chance(1, 2) {
                        bigger.push(Prop { key: "yy".into(), ty: D::Str, optional: true });
                    }
                    let arg = self.utility_arg(&bigger);
                    let keys = self.key_union(props.iter().map(|p| p.key.clone()).collect());
                    return atom(format!("Pick<{}, {}>", arg, keys));
                }
                3 => {
                    self.mark("omit");
                    let mut bigger = props.to_vec();
                    bigger.push(Prop { key: "zz".into(), ty: D::Num, optional: false });
                    let two = self.s.chance(1, 2);
                    if two {
                        bigger.push(Prop { key: "yy".into(), ty: D::Str, optional: true });
                    }
                    let arg = self.utility_arg(&bigger);
                    let keys = self.key_union(if two { vec!["zz".to_string(), "yy".to_string()] } else { vec!["zz".to_string()] });
                    return atom(format!("Omit<{}, {}>", arg, keys));
                }
                4 if all_required && same_type => {
                    self.mark("record_literal_keys");
                    let vt = self.ty(&props[0].ty.clone());
                    let keys = props.iter().map(|p| ts_string(&p.key)).collect::<Vec<_>>().join(" | ");
                    return atom(format!("Record<{}, {}>", keys, vt.s));
                }
                5 if (all_required || all_optional) && same_type => {
                    self.mark("mapped_literal_keys");
                    let vt = self.ty(&props[0].ty.clone());
                    let keys = props.iter().map(|p| ts_string(&p.key)).collect::<Vec<_>>().join(" | ");
                    return atom(format!("{{ [K in {}]{}: {} }}", keys, if all_optional { "?" } else { "" }, vt.s));
                }
                _ => {}
            }
        }
        if !generic && props.len() >= 2 && !direct_member && self.take(Feat::SplitInter) {
            self.mark("object_as_intersection");
            let cut = self.s.range(1, props.len() - 1);
            let a = self.members_detached(&props[..cut]);
            let b = self.members_detached(&props[cut..]);
            return Txt { s: format!("{{ {} }} & {{ {} }}", a, b), p: Prec::Inter };
        }
        if !generic && self.take(Feat::Interface) {
            let name = self.fresh("I");
            if props.len() >= 2 && self.s.chance(1, 4) {
                // nothing of its own: the interface is just its two parents (still one closed object type)
                self.mark("interface_extends_many_empty_body");
                let cut = self.s.range(1, props.len() - 1);
                let (b1, b2) = (self.fresh("B"), self.fresh("B"));
                let a = self.members_detached(&props[..cut]);
                let b = self.members_detached(&props[cut..]);
                let doc = self.doc();
                self.decls.push(format!("{}interface {} {{ {} }}", doc, b1, a));
                self.decls.push(format!("interface {} {{ {} }}", b2, b));
                self.decls.push(format!("interface {} extends {}, {} {{}}", name, b1, b2));
            } else if props.len() >= 2 && self.s.chance(1, 2) {
                self.mark("interface_extends");
                let cut = self.s.range(1, props.len() - 1);
                let base = self.fresh("B");
                let a = self.members_detached(&props[..cut]);
                let b = self.members_detached(&props[cut..]);
                let doc = self.doc();
                self.decls.push(format!("{}interface {} {{ {} }}", doc, base, a));
                self.decls.push(format!("interface {} extends {} {{ {} }}", name, base, b));
            } else {
                self.mark("interface");
                let m = self.members_detached(props);
                let doc = self.doc();
                self.decls.push(format!("{}interface {} {{ {} }}", doc, name, m));
            }
            return atom(name);
        }
        if !generic && all_required && !props.is_empty() && props.iter().all(|p| is_const_expressible(&p.ty)) && self.take(Feat::Typeof) {
            self.mark("typeof_const_object");
            let c = self.fresh("c");
            if self.s.chance(1, 3) {
                self.mark("typeof_const_annotated");
                let m = self.members_detached(props);
                self.decls.push(format!("const {}: {{ {} }} = {};", c, m, const_expr(&D::Object { props: props.to_vec(), index: None })));
                return Txt { s: format!("typeof {}", c), p: Prec::Prefix };
            }
            if self.s.chance(1, 3) {
                // object spread with one key written twice: the later entry wins, whether it is the spread or the
                // explicit key
                self.mark("typeof_const_spread");
                let i = self.s.below(props.len());
                let wrong = match &props[i].ty {
                    D::StrLit(_) => "\"zz-other\"".to_string(),
                    D::NumLit(_) => "99".to_string(),
                    D::BoolLit(b) => (!b).to_string(),
                    _ => "\"zz-other\"".to_string(),
                };
                let entry = |p: &Prop| format!("{}: {}", ts_string(&p.key), const_expr(&p.ty));
                let c2 = self.fresh("c");
                if self.s.chance(1, 2) {
                    // { ...base, key: right }   (base holds the wrong value for that key)
                    let base: Vec<String> = props.iter().enumerate().map(|(j, p)| if j == i { format!("{}: {}", ts_string(&p.key), wrong) } else { entry(p) }).collect();
                    self.decls.push(format!("const {} = {{ {} }} as const;", c2, base.join(", ")));
                    self.decls.push(format!("const {} = {{ ...{}, {} }} as const;", c, c2, entry(&props[i])));
                } else {
                    // { key: wrong, others..., ...over }   (over holds the right value)
                    self.decls.push(format!("const {} = {{ {} }} as const;", c2, entry(&props[i])));
                    let own: Vec<String> = props.iter().enumerate().map(|(j, p)| if j == i { format!("{}: {}", ts_string(&p.key), wrong) } else { entry(p) }).collect();
                    self.decls.push(format!("const {} = {{ {}, ...{} }} as const;", c, own.join(", "), c2));
                }
                return Txt { s: format!("typeof {}", c), p: Prec::Prefix };
            }
            self.decls.push(format!("const {} = {} as const;", c, const_expr(&D::Object { props: props.to_vec(), index: None })));
            return Txt { s: format!("typeof {}", c), p: Prec::Prefix };
        }
        let m = self.members(props, &all, path);
        atom(format!("{{ {} }}", m))
    }

    /// the object-type argument of Partial / Required / Pick / Omit: written in place, as a named interface, or as the
    /// intersection of two named interfaces with disjoint keys (which the compiler has to flatten first)
    fn utility_arg(&mut self, props: &[Prop]) -> String {
        match self.s.below(4) {
            0 | 1 => {
                let m = self.members_detached(props);
                format!("{{ {} }}", m)
            }
            2 => {
                self.mark("utility_over_interface");
                let n = self.fresh("U");
                let m = self.members_detached(props);
                let doc = self.doc();
                if self.s.chance(1, 2) {
                    self.decls.push(format!("{}interface {} {{ {} }}", doc, n, m));
                } else {
                    self.decls.push(format!("{}type {} = {{ {} }};", doc, n, m));
                }
                n
            }
            _ if props.len() >= 2 => {
                self.mark("utility_over_intersection");
                let cut = self.s.range(1, props.len() - 1);
                let (na, nb) = (self.fresh("U"), self.fresh("U"));
                let a = self.members_detached(&props[..cut]);
                let b = self.members_detached(&props[cut..]);
                self.decls.push(format!("interface {} {{ {} }}", na, a));
                self.decls.push(format!("type {} = {{ {} }};", nb, b));
                format!("{} & {}", na, nb)
            }
            _ => {
                let m = self.members_detached(props);
                format!("{{ {} }}", m)
            }
        }
    }

    /// a union of property-name literals (the key argument of Pick / Omit): written in place, with one key behind an
    /// alias, wholly behind an alias, or as `keyof` of a helper object
    fn key_union(&mut self, keys: Vec<String>) -> String {
        let plain = |ks: &[String]| ks.iter().map(|k| ts_string(k)).collect::<Vec<_>>().join(" | ");
        match self.s.below(6) {
            0 if keys.len() >= 2 => {
                self.mark("keys_one_behind_alias");
                let i = self.s.below(keys.len());
                let n = self.fresh("K");
                self.decls.push(format!("type {} = {};", n, ts_string(&keys[i])));
                keys.iter().enumerate().map(|(j, k)| if j == i { n.clone() } else { ts_string(k) }).collect::<Vec<_>>().join(" | ")
            }
            1 => {
                self.mark("keys_behind_alias");
                let n = self.fresh("K");
                self.decls.push(format!("type {} = {};", n, plain(&keys)));
                n
            }
            2 => {
                self.mark("keys_keyof_helper");
                let body = keys.iter().map(|k| format!("{}: 0", ts_string(k))).collect::<Vec<_>>().join("; ");
                format!("keyof {{ {} }}", body)
            }
            _ => plain(&keys),
        }
    }

    /// members printed outside of any generic-definition path tracking
    fn members_detached(&mut self, props: &[Prop]) -> String {
        let saved = self.in_generic_def.take();
        let r = self.members(props, &(0..props.len()).collect::<Vec<_>>(), &mut vec![]);
        self.in_generic_def = saved;
        r
    }

    fn union(&mut self, ms: &[D], path: &mut Vec<usize>) -> Txt {
        let generic = self.in_generic_def.is_some();
        // literal unions in other shapes
        let all_str_lits = ms.len() >= 2 && ms.iter().all(|m| matches!(m, D::StrLit(_)));
        let all_enumable = ms.len() >= 2
            && ms.iter().all(|m| matches!(m, D::StrLit(_)) || matches!(m, D::NumLit(n) if !n.starts_with('-')));
        if !generic {
            if all_str_lits && self.take(Feat::Keyof) {
                self.mark("keyof");
                let members = ms
                    .iter()
                    .map(|m| match m {
                        D::StrLit(l) => format!("{}: number", ts_string(l)),
                        _ => unreachable!(),
                    })
                    .collect::<Vec<_>>()
                    .join("; ");
                return Txt { s: format!("keyof {{ {} }}", members), p: Prec::Prefix };
            }
            if all_enumable && self.take(Feat::Enum) {
                self.mark("enum");
                let e = self.fresh("E");
                let members = ms
                    .iter()
                    .enumerate()
                    .map(|(i, m)| format!("M{} = {}", i, plain_enum_init(m)))
                    .collect::<Vec<_>>()
                    .join(", ");
                self.decls.push(format!("enum {} {{ {} }}", e, members));
                return atom(e);
            }
            if ms.iter().all(is_const_expressible) && ms.len() >= 2 && self.take(Feat::Typeof) {
                self.mark("typeof_const_array_number");
                let c = self.fresh("c");
                let elems: Vec<String> = ms.iter().map(const_expr).collect();
                if self.s.chance(1, 3) {
                    self.mark("typeof_const_tuple_spread");
                    let cut = self.s.range(1, elems.len() - 1);
                    let c0 = self.fresh("c");
                    self.decls.push(format!("const {} = [{}] as const;", c0, elems[..cut].join(", ")));
                    self.decls.push(format!("const {} = [...{}, {}] as const;", c, c0, elems[cut..].join(", ")));
                } else {
                    self.decls.push(format!("const {} = [{}] as const;", c, elems.join(", ")));
                }
                return atom(format!("(typeof {})[number]", c));
            }
            // Exclude<U | X, X> with X of a basic kind no member touches
            if self.take(Feat::Exclude) {
                let safe = ms.iter().all(|m| self.sem_safe(m));
                if !safe {
                    *self.excluded.entry("semantic_op_on_recursive_or_template".into()).or_insert(0) += 1;
                }
                if let (true, Some(x)) = (safe, self.disjoint_extra(ms)) {
                    self.mark("exclude");
                    let mut parts = vec![];
                    self.engine_operand += 1;
                    for m in ms {
                        let t = self.ty(m);
                        parts.push(need(t, Prec::Inter));
                    }
                    self.engine_operand -= 1;
                    parts.insert(self.s.below(parts.len() + 1), x.to_string());
                    return atom(format!("Exclude<{}, {}>", parts.join(" | "), x));
                }
            }
            // discriminated union in another shape: merge two branches that differ only in a literal tag
            if self.take(Feat::DuMerge) {
                if let Some(merged) = du_merge(ms) {
                    self.mark("du_merged");
                    return self.union_plain(&merged, &mut vec![usize::MAX]);
                }
            }
        }
        self.union_plain(ms, path)
    }

    fn union_plain(&mut self, ms: &[D], path: &mut Vec<usize>) -> Txt {
        let mut parts = vec![];
        for (i, m) in ms.iter().enumerate() {
            path.push(i);
            let t = self.ty_at(m, path);
            path.pop();
            parts.push(need(t, Prec::Inter));
        }
        if self.cfg.has(Feat::Order) && parts.len() > 1 && self.in_generic_def.is_none() {
            let r = self.s.below(parts.len());
            parts.rotate_left(r);
            if self.s.chance(1, 2) {
                parts.reverse();
            }
        }
        // nested grouping: (A | B) | C through an alias
        if self.in_generic_def.is_none() && parts.len() >= 3 && self.take(Feat::Alias) {
            self.mark("union_nested_alias");
            let n = self.fresh("U");
            let head = parts[..2].join(" | ");
            self.decls.push(format!("type {} = {};", n, head));
            let mut rest = vec![n];
            rest.extend_from_slice(&parts[2..]);
            parts = rest;
        }
        let lead = if self.cfg.has(Feat::Syntax) && self.s.chance(1, 8) { "| " } else { "" };
        Txt { s: format!("{}{}", lead, parts.join(" | ")), p: Prec::Union }
    }

    /// Operands the semantic engine is known not to take (recorded as known findings, replayed from their
    /// witnesses): anything reaching a recursive named type, and multi-part template literals.
    fn sem_safe(&self, d: &D) -> bool {
        !d.any_node(&mut |n| match n {
            D::Ref(i) => self.recursive[*i] || !self.sem_safe(self.env.get(*i)),
            D::Tpl(_) => true,
            _ => false,
        })
    }

    /// a type text of a basic kind that no member of the union can overlap (judged on denotations)
    fn disjoint_extra(&mut self, ms: &[D]) -> Option<&'static str> {
        let refm = Ref::new(self.env, Mode::Open);
        let cands: [(&'static str, JsVal); 3] = [
            ("bigint", JsVal::BigInt("1".into())),
            ("Date", JsVal::Date(Some(0))),
            ("boolean", JsVal::Bool(true)),
        ];
        // an object type with a required key no generated type declares: no member is assignable to it (so TypeScript's
        // Exclude keeps every member whole), but the engine has to subtract a record from records, which leaves
        // `member & Not<{ zz_excl: "x" }>` for the clean-up to deal with
        // (only where none of the engine's listed findings has its trigger in the union: with a record among the operands
        // they would all come into play and say nothing new)
        if self.s.chance(1, 3) && ms.iter().all(|m| refm.member(m, &JsVal::Sym) == Tri::No) {
            let u = D::Union(ms.to_vec());
            // (and with one record-like member at most: the engine splits a union of records into clauses per atom, and
            // once the negations are dropped a clause `Gamma & Alpha` remains next to `Gamma`, which widens the keys strict
            // mode takes as declared - the dropped-negation finding seen through C11, not looked for here)
            fn record_like(r: &Ref, d: &D, depth: usize) -> usize {
                match r.head(d) {
                    D::Object { .. } | D::Inter(_) => 1,
                    D::Union(inner) if depth < 6 => inner.iter().map(|m| record_like(r, m, depth + 1)).sum(),
                    _ => 0,
                }
            }
            let records: usize = ms.iter().map(|m| record_like(&refm, m, 0)).sum();
            if records <= 1 && crate::csem::pair_features(self.env, &u, &u).is_empty() {
                self.mark("exclude_record_operand");
                return Some("{ zz_excl: \"x\" }");
            }
        }
        let start = self.s.below(cands.len());
        for k in 0..cands.len() {
            let (txt, probe) = &cands[(start + k) % cands.len()];
            let mut ok = true;
            for m in ms {
                // any overlap with the kind (or an `any`, or an object type that structurally admits builtins)
                if refm.member(m, probe) != Tri::No {
                    ok = false;
                }
                if *txt == "boolean" && refm.member(m, &JsVal::Bool(false)) != Tri::No {
                    ok = false;
                }
            }
            if ok {
                return Some(txt);
            }
        }
        None
    }
}

fn plain_enum_init(d: &D) -> String {
    match d {
        D::StrLit(l) => ts_string(l),
        D::NumLit(n) => n.clone(),
        _ => unreachable!(),
    }
}

pub fn is_const_expressible(d: &D) -> bool {
    match d {
        D::NumLit(n) => !n.starts_with('-'),
        D::StrLit(_) | D::BoolLit(_) => true,
        D::Tuple(p, None) => p.iter().all(is_const_expressible),
        D::Object { props, index: None } => props.iter().all(|p| !p.optional && is_const_expressible(&p.ty)),
        _ => false,
    }
}
pub fn const_expr(d: &D) -> String {
    match d {
        D::StrLit(l) => ts_string(l),
        D::NumLit(n) => n.clone(),
        D::BoolLit(b) => b.to_string(),
        D::Tuple(p, None) => format!("[{}]", p.iter().map(const_expr).collect::<Vec<_>>().join(", ")),
        D::Object { props, .. } => format!(
            "{{ {} }}",
            props.iter().map(|p| format!("{}: {}", ts_string(&p.key), const_expr(&p.ty))).collect::<Vec<_>>().join(", ")
        ),
        _ => unreachable!(),
    }
}

/// `{k:"a",..rest} | {k:"b",..rest}`  ==  `{k:"a"|"b",..rest}` (and the other way round)
fn du_merge(ms: &[D]) -> Option<Vec<D>> {
    for i in 0..ms.len() {
        for j in (i + 1)..ms.len() {
            if let (D::Object { props: a, index: None }, D::Object { props: b, index: None }) = (&ms[i], &ms[j]) {
                if a.len() != b.len() {
                    continue;
                }
                // find exactly one differing required literal-typed prop
                let mut diff = None;
                let mut ok = true;
                for pa in a {
                    match b.iter().find(|pb| pb.key == pa.key) {
                        Some(pb) if pb == pa => {}
                        Some(pb) => {
                            if diff.is_some() || pa.optional || pb.optional || !lit_like(&pa.ty) || !lit_like(&pb.ty) {
                                ok = false;
                            }
                            diff = Some((pa.key.clone(), pa.ty.clone(), pb.ty.clone()));
                        }
                        None => ok = false,
                    }
                }
                if let (true, Some((key, ta, tb))) = (ok, diff) {
                    let mut lits = vec![];
                    for t in [ta, tb] {
                        match t {
                            D::Union(v) => lits.extend(v),
                            x => lits.push(x),
                        }
                    }
                    lits.dedup();
                    let mut merged_props = a.clone();
                    for p in merged_props.iter_mut() {
                        if p.key == key {
                            p.ty = D::Union(lits.clone());
                        }
                    }
                    let mut out: Vec<D> = vec![];
                    for (k, m) in ms.iter().enumerate() {
                        if k == i {
                            out.push(D::Object { props: merged_props.clone(), index: None });
                        } else if k != j {
                            out.push(m.clone());
                        }
                    }
                    return Some(out);
                }
            }
        }
    }
    // the other direction: split a branch whose tag is a union of literals
    for (i, m) in ms.iter().enumerate() {
        if let D::Object { props, index: None } = m {
            for (pi, p) in props.iter().enumerate() {
                if let (false, D::Union(lits)) = (p.optional, &p.ty) {
                    if lits.len() >= 2 && lits.iter().all(|l| matches!(l, D::StrLit(_))) {
                        let mut out: Vec<D> = vec![];
                        for (k, x) in ms.iter().enumerate() {
                            if k != i {
                                out.push(x.clone());
                            } else {
                                for l in lits {
                                    let mut ps = props.clone();
                                    ps[pi].ty = l.clone();
                                    out.push(D::Object { props: ps, index: None });
                                }
                            }
                        }
                        return Some(out);
                    }
                }
            }
        }
    }
    None
}
fn lit_like(d: &D) -> bool {
    match d {
        D::StrLit(_) => true,
        D::Union(v) => v.iter().all(|x| matches!(x, D::StrLit(_))),
        _ => false,
    }
}

fn collect_leaf_paths(d: &D, path: &mut Vec<usize>, out: &mut Vec<Vec<usize>>) {
    // positions mirror the indices pushed by ty_at: Array/Set -> 0, Map -> 0/1, Tuple -> i (rest = len),
    // Object -> prop index (index signature = len), Union/Inter -> i
    match d {
        D::Str | D::Num | D::Bool | D::StrLit(_) | D::NumLit(_) | D::BoolLit(_) | D::Null | D::Date | D::BigInt => {
            if !path.is_empty() {
                out.push(path.clone());
            }
        }
        D::Array(x) | D::Set(x) => {
            path.push(0);
            collect_leaf_paths(x, path, out);
            path.pop();
        }
        D::Map(_, v) => {
            path.push(1);
            collect_leaf_paths(v, path, out);
            path.pop();
        }
        D::Tuple(p, r) => {
            for (i, x) in p.iter().enumerate() {
                path.push(i);
                collect_leaf_paths(x, path, out);
                path.pop();
            }
            if let Some(r) = r {
                path.push(p.len());
                collect_leaf_paths(r, path, out);
                path.pop();
            }
        }
        D::Object { props, index } => {
            // only plain objects printed member-wise keep their paths; utility spellings are disabled inside
            // generic definitions so this is exact
            for (i, p) in props.iter().enumerate() {
                path.push(i);
                collect_leaf_paths(&p.ty, path, out);
                path.pop();
            }
            if let Some(ix) = index {
                path.push(props.len());
                collect_leaf_paths(ix, path, out);
                path.pop();
            }
        }
        D::Union(v) | D::Inter(v) => {
            for (i, x) in v.iter().enumerate() {
                path.push(i);
                collect_leaf_paths(x, path, out);
                path.pop();
            }
        }
        _ => {}
    }
}
fn at_path<'x>(d: &'x D, path: &[usize]) -> &'x D {
    if path.is_empty() {
        return d;
    }
    let i = path[0];
    match d {
        D::Array(x) | D::Set(x) => at_path(x, &path[1..]),
        D::Map(k, v) => at_path(if i == 0 { k } else { v }, &path[1..]),
        D::Tuple(p, r) => {
            if i < p.len() {
                at_path(&p[i], &path[1..])
            } else {
                at_path(r.as_ref().unwrap(), &path[1..])
            }
        }
        D::Object { props, index } => {
            if i < props.len() {
                at_path(&props[i].ty, &path[1..])
            } else {
                at_path(index.as_ref().unwrap(), &path[1..])
            }
        }
        D::Union(v) | D::Inter(v) => at_path(&v[i], &path[1..]),
        _ => d,
    }
}

/// Render a whole program: declarations + `buildParsers<{...}>()`.
pub fn render_program(env: &Env, roots: &[(String, D)], cfg: RenderCfg, s: &mut Src, prefix: &str) -> (String, Rendered) {
    let mut r = Renderer::new(env, cfg, s, prefix);
    let mut texts = vec![];
    for (_, d) in roots {
        texts.push(r.render_root(d));
    }
    let rendered = r.finish(texts);
    let mut out = String::new();
    for d in &rendered.decls {
        out.push_str(d);
        out.push('\n');
    }
    out.push_str("export const Parsers = parse.buildParsers<{\n");
    for ((name, _), t) in roots.iter().zip(rendered.roots.iter()) {
        out.push_str(&format!("  {}: {};\n", name, t));
    }
    out.push_str("}>();\n");
    (out, rendered)
}

/// The environment in which every definition that was written `interface J extends I { rest }` (recorded by the renderer
/// as `extends_named:<J>:<I>`) is the intersection `I & { rest }`: what the compiler makes of such a declaration when it
/// cannot flatten it (the base is still being resolved).  Only used to decide whether the listed strict-mode finding about
/// unmerged intersections explains a mismatch; the oracle is always the plain environment.
pub fn extends_as_intersections(env: &Env, used: &BTreeMap<String, u32>) -> Option<Env> {
    let mut out = env.clone();
    let mut any = false;
    for k in used.keys() {
        if let Some(rest) = k.strip_prefix("extends_named:") {
            let mut it = rest.split(':');
            let (j, i) = (it.next().and_then(|x| x.parse::<usize>().ok()), it.next().and_then(|x| x.parse::<usize>().ok()));
            if let (Some(j), Some(i)) = (j, i) {
                if let (Some((_, D::Object { props: pj, index: None })), Some((_, D::Object { props: pi, index: None }))) = (env.defs.get(j), env.defs.get(i)) {
                    let own: Vec<Prop> = pj.iter().filter(|p| !pi.contains(p)).cloned().collect();
                    out.defs[j].1 = D::Inter(vec![D::Ref(i), D::Object { props: own, index: None }]);
                    any = true;
                }
            }
        }
    }
    if any { Some(out) } else { None }
}
