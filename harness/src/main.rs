use beffv::{c01, check_by_id, compile, proc, runner, src};
#[cfg(feature = "engine")]
use beffv::sem;
use runner::Tier;

fn main() {
    compile::install_panic_hook();
    let args: Vec<String> = std::env::args().collect();
    if args.len() < 2 {
        eprintln!("usage: beffv check <ID> [--tier quick|thorough] [--seed N] | replay <ID> <file> | gen <ID> [N] | compile <file.ts>");
        std::process::exit(2);
    }
    let seed = std::env::var("VERIF_SEED").ok().and_then(|s| s.parse::<u64>().ok()).unwrap_or(runner::DEFAULT_SEED);
    let mut tier = match std::env::var("VERIF_TIER").ok().as_deref() {
        Some("thorough") => Tier::Thorough,
        _ => Tier::Quick,
    };
    let mut seed = seed;
    let mut i = 3;
    while i < args.len() {
        match args[i].as_str() {
            "--tier" => {
                tier = if args.get(i + 1).map(|s| s.as_str()) == Some("thorough") { Tier::Thorough } else { Tier::Quick };
                i += 1;
            }
            "--seed" => {
                seed = args.get(i + 1).and_then(|s| s.parse().ok()).unwrap_or(seed);
                i += 1;
            }
            _ => {}
        }
        i += 1;
    }
    match args[1].as_str() {
        "check" => {
            let id = args.get(2).cloned().unwrap_or_default();
            match check_by_id(&id) {
                Some(c) => std::process::exit(runner::run_check(c, tier, seed)),
                None => {
                    eprintln!("INFRASTRUCTURE: unknown check {}", id);
                    std::process::exit(2)
                }
            }
        }
        "replay" => {
            let id = args.get(2).cloned().unwrap_or_default();
            let file = args.get(3).cloned().unwrap_or_default();
            match check_by_id(&id) {
                Some(c) => std::process::exit(runner::replay(c, &file)),
                None => std::process::exit(2),
            }
        }
        "gen" => {
            // print sample cases of a check (debugging aid)
            let id = args.get(2).cloned().unwrap_or_default();
            let n: usize = args.get(3).and_then(|s| s.parse().ok()).unwrap_or(3);
            let c = check_by_id(&id).expect("check");
            use proptest::prelude::*;
            use proptest::strategy::ValueTree;
            use proptest::test_runner::{Config, RngSeed, TestRunner};
            let mut runner = TestRunner::new(Config { rng_seed: RngSeed::Fixed(seed), ..Config::default() });
            let strat = proptest::collection::vec(any::<u32>(), 0..=c.stream_len());
            for _ in 0..n {
                let data = strat.new_tree(&mut runner).unwrap().current();
                let mut s = src::Src::new(&data);
                let case = c.generate(&mut s, tier);
                println!("{}", serde_json::to_string_pretty(&case).unwrap());
            }
        }
        "probe" => {
            // debugging aid: {"program": "...", "queries": [<node worker queries>]} -> the worker's answer
            let text = std::fs::read_to_string(&args[2]).expect("read");
            let v: serde_json::Value = serde_json::from_str(&text).expect("json");
            let node = proc::find_node().expect("node");
            let mut ctx = runner::Ctx::new(&node, Tier::Quick, Default::default());
            let mut out = runner::Outcome::default();
            let code = c01::compile_case(v["program"].as_str().unwrap_or(""), &mut out, &mut ctx, "probe");
            match code {
                None => println!("compile failed: {:?}", out.violation.map(|x| x.what)),
                Some(code) => {
                    let r = c01::node_case(&mut ctx, Some(&code), v["queries"].as_array().cloned().unwrap_or_default());
                    println!("{}", serde_json::to_string_pretty(&r.unwrap_or_else(|e| serde_json::json!({"error": e}))).unwrap());
                }
            }
        }
        "worker-compile" => compile::worker_main(),
        #[cfg(feature = "engine")]
        "sem" => {
            let text = std::fs::read_to_string(&args[2]).expect("read");
            let v: serde_json::Value = serde_json::from_str(&text).expect("json");
            println!("{}", serde_json::to_string_pretty(&sem::handle_sem(&v)).unwrap());
        }
        "compile" => {
            let text = std::fs::read_to_string(&args[2]).expect("read");
            let out = compile::compile(&compile::Project::single(&text));
            println!("{}", serde_json::to_string_pretty(&out).unwrap());
        }
        _ => {
            eprintln!("unknown command");
            std::process::exit(2);
        }
    }
}
