fn main(){ println!("hi"); }
