//! C09 — splitting declarations across modules does not change the result.
use crate::c01::{formats_json, gen_values, node_case};
use crate::compile::{CompileFail, Project};
use crate::den::{gen_env_and_roots, Env, GenCfg, D};
use crate::jsval::JsVal;
use crate::member::Mode;
use crate::render::{Feat, RenderCfg, Renderer};
use crate::runner::{fp, Check, Ctx, Outcome, Tier};
use crate::src::Src;
use serde::{Deserialize, Serialize};
use serde_json::{json, Value};
use std::collections::BTreeMap;

#[derive(Debug, Clone, Serialize, Deserialize)]
pub struct C09Case {
    pub env: Env,
    pub roots: Vec<(String, D)>,
    pub single: String,
    pub files: Vec<(String, String)>,
    pub styles: Vec<String>,
    /// negative variant: the project with one export or file removed (must produce a diagnostic)
    pub negative: Option<(Vec<(String, String)>, String)>,
    pub values: Vec<Vec<(JsVal, String)>>,
}

#[derive(Debug, Clone)]
struct Decl {
    text: String,
    name: String,
    kind: &'static str, // type | interface | enum | const
    refs: Vec<String>,
}

pub fn strip_comments(s: &str) -> String {
    let mut out = String::new();
    let mut rest = s;
    while let Some(i) = rest.find("/*") {
        out.push_str(&rest[..i]);
        match rest[i..].find("*/") {
            Some(j) => rest = &rest[i + j + 2..],
            None => {
                rest = "";
                break;
            }
        }
    }
    out.push_str(rest);
    out
}

fn ident_tokens(s: &str) -> Vec<(usize, usize)> {
    // byte ranges of identifier tokens outside string literals
    let b = s.as_bytes();
    let mut out = vec![];
    let mut i = 0;
    while i < b.len() {
        let c = b[i] as char;
        if c == '"' || c == '\'' || c == '`' {
            let q = b[i];
            i += 1;
            while i < b.len() && b[i] != q {
                if b[i] == b'\\' {
                    // an escaped character (\`, \$, \\) is plain text
                    i += 2;
                    continue;
                }
                if q == b'`' && b[i] == b'$' && i + 1 < b.len() && b[i + 1] == b'{' {
                    // template substitution: scan identifiers inside
                    let st = i + 2;
                    let mut depth = 1;
                    let mut j = st;
                    while j < b.len() && depth > 0 {
                        if b[j] == b'{' {
                            depth += 1;
                        } else if b[j] == b'}' {
                            depth -= 1;
                        }
                        j += 1;
                    }
                    let inner_end = j.saturating_sub(1);
                    for (a, e) in ident_tokens(&s[st..inner_end]) {
                        out.push((st + a, st + e));
                    }
                    i = j;
                    continue;
                }
                i += 1;
            }
            i += 1;
        } else if c.is_ascii_alphabetic() || c == '_' || c == '$' || b[i] >= 0x80 {
            // (bytes of non-ASCII letters count as identifier characters: Bêta is one identifier)
            let st = i;
            while i < b.len() && ((b[i] as char).is_ascii_alphanumeric() || b[i] == b'_' || b[i] == b'$' || b[i] >= 0x80) {
                i += 1;
            }
            out.push((st, i));
        } else {
            i += 1;
        }
    }
    out
}

fn parse_decl(text: &str) -> Option<(String, &'static str)> {
    let clean = strip_comments(text);
    let t = clean.trim_start();
    for (kw, kind) in [("type ", "type"), ("interface ", "interface"), ("enum ", "enum"), ("const ", "const")] {
        if let Some(rest) = t.strip_prefix(kw) {
            let name: String = rest.chars().take_while(|c| c.is_alphanumeric() || *c == '_' || *c == '$').collect();
            if !name.is_empty() {
                return Some((name, kind));
            }
        }
    }
    None
}

/// replace identifier `name` (not after a dot, not a property key position `name:` / `name?:`) by `with`
fn replace_ident(text: &str, name: &str, with: &str) -> String {
    let toks = ident_tokens(text);
    let mut out = String::new();
    let mut last = 0;
    let b = text.as_bytes();
    for (a, e) in toks {
        if &text[a..e] != name {
            continue;
        }
        // previous non-space char
        let before = text[..a].trim_end();
        let prev = before.chars().last();
        // member access `x.name` (but not the spread `...name`)
        if prev == Some('.') && !before.ends_with("...") {
            continue;
        }
        // next non-space chars: property key `name:` or `name?:`
        let next = text[e..].trim_start();
        let is_key = (next.starts_with(':') || next.starts_with("?:")) && (matches!(prev, Some('{') | Some(';') | Some(',') | Some('y') /* readonly */) || before.ends_with("*/") /* a documented member */);
        if is_key {
            continue;
        }
        let _ = b;
        out.push_str(&text[last..a]);
        out.push_str(with);
        last = e;
    }
    out.push_str(&text[last..]);
    out
}

pub struct C09;

impl C09 {
    /// the same type name exported by three to five files of a directory tree of uneven depth (models/admin/base.ts,
    /// models/admin/user.ts, models/user.ts, user.ts, ...), every one with its own content and its own parser: whatever the
    /// paths share, the types stay apart
    fn same_name_tree_case(&self, s: &mut Src) -> C09Case {
        use crate::den::Prop;
        let tree = ["models/admin/base", "models/admin/user", "models/user", "user", "models/base", "admin/user", "lib/models/user", "models/admin/deep/user"];
        let n = s.range(3, 5);
        let mut picked: Vec<&str> = vec![];
        let start = s.below(tree.len());
        for k in 0..tree.len() {
            let t = tree[(start + k) % tree.len()];
            if picked.len() < n && s.chance(2, 3) {
                picked.push(t);
            }
        }
        let mut k = 0;
        while picked.len() < 3 {
            if !picked.contains(&tree[k]) {
                picked.push(tree[k]);
            }
            k += 1;
        }
        let name = *s.pick(&["Options", "User", "Item"]);
        let generic = s.chance(1, 3);
        let mut files: Vec<(String, String)> = vec![];
        let mut entry = String::new();
        let mut single = String::new();
        let mut roots: Vec<(String, D)> = vec![];
        let mut ps = vec![];
        for (i, path) in picked.iter().enumerate() {
            let lit = format!("at-{}", path);
            let extra_key = ["n", "label", "flag"][i % 3];
            let extra_ty = [D::Num, D::Str, D::Bool][i % 3].clone();
            let extra_txt = ["number", "string", "boolean"][i % 3];
            let d = D::Object {
                props: vec![Prop { key: "kind".into(), ty: D::StrLit(lit.clone()), optional: false }, Prop { key: extra_key.into(), ty: extra_ty, optional: false }],
                index: None,
            };
            if generic {
                files.push((format!("{}.ts", path), format!("export type {}<T> = {{ kind: \"{}\"; {}: T }};\n", name, lit, extra_key)));
                single.push_str(&format!("type {}{}<T> = {{ kind: \"{}\"; {}: T }};\n", name, i, lit, extra_key));
                entry.push_str(&format!("import {{ {} as {}{} }} from \"./{}\";\n", name, name, i, path));
                ps.push(format!("  P{}: {}{}<{}>;\n", i, name, i, extra_txt));
            } else {
                files.push((format!("{}.ts", path), format!("export type {} = {{ kind: \"{}\"; {}: {} }};\n", name, lit, extra_key, extra_txt)));
                single.push_str(&format!("type {}{} = {{ kind: \"{}\"; {}: {} }};\n", name, i, lit, extra_key, extra_txt));
                entry.push_str(&format!("import {{ {} as {}{} }} from \"./{}\";\n", name, name, i, path));
                ps.push(format!("  P{}: {}{};\n", i, name, i));
            }
            roots.push((format!("P{}", i), d));
        }
        let build = format!("export const Parsers = parse.buildParsers<{{\n{}}}>();\n", ps.join(""));
        entry.push_str(&build);
        single.push_str(&build);
        files.insert(0, ("entry.ts".to_string(), entry));
        let env = Env { defs: vec![] };
        let mut values = vec![];
        for (_, d) in &roots {
            values.push(gen_values(&env, d, s, Mode::Open, 3, 3, 1));
        }
        // every type's members are near misses of the others
        let members: Vec<Vec<(JsVal, String)>> = values.iter().map(|vs| vs.iter().filter(|v| v.1 == "member").take(2).map(|v| (v.0.clone(), "near".to_string())).collect()).collect();
        for (i, vs) in values.iter_mut().enumerate() {
            for (j, m) in members.iter().enumerate() {
                if i != j {
                    vs.extend(m.clone());
                }
            }
        }
        C09Case { env, roots, single, files, styles: vec!["same_name_in_directory_tree".into(), "renamed".into()], negative: None, values }
    }

    /// a barrel that re-exports one module as a namespace (`export * as v1 from "./v1"`) next to a plain `export *` of
    /// another module declaring the same names: the unqualified names are those of the plain re-export only, the
    /// namespace's contents are reachable through `v1.` only (negative variant: a name only the namespace has, imported
    /// unqualified, must be reported)
    fn namespace_barrel_case(&self, s: &mut Src) -> C09Case {
        use crate::den::Prop;
        let name = *s.pick(&["User", "Item", "Options"]);
        let dir = *s.pick(&["api/", "", "lib/api/"]);
        let d1 = D::Object { props: vec![Prop { key: "kind".into(), ty: D::StrLit("v1".into()), optional: false }, Prop { key: "id".into(), ty: D::Num, optional: false }], index: None };
        let d2 = D::Object { props: vec![Prop { key: "kind".into(), ty: D::StrLit("v2".into()), optional: false }, Prop { key: "id".into(), ty: D::Str, optional: false }], index: None };
        let v1 = format!("export type {} = {{ kind: \"v1\"; id: number }};\nexport type OnlyInV1 = {{ legacy: true }};\nexport const DEFAULT = \"one\" as const;\n", name);
        let v2 = format!("export type {} = {{ kind: \"v2\"; id: string }};\nexport const DEFAULT = \"two\" as const;\n", name);
        let mut lines = vec!["export * as v1 from \"./v1\";".to_string(), "export * from \"./v2\";".to_string()];
        if s.chance(1, 2) {
            lines.reverse();
        }
        if s.chance(1, 3) {
            lines.push("export type Unrelated = boolean;".to_string());
        }
        let index = lines.join("\n") + "\n";
        let with_value = s.chance(1, 2);
        let mut entry = format!("import {{ {}, v1{} }} from \"./{}index\";\n", name, if with_value { ", DEFAULT" } else { "" }, dir);
        let mut ps = format!("  P0: {};\n  P1: v1.{};\n", name, name);
        let mut single = format!("type {}V1 = {{ kind: \"v1\"; id: number }};\ntype {}V2 = {{ kind: \"v2\"; id: string }};\n", name, name);
        let mut sps = format!("  P0: {}V2;\n  P1: {}V1;\n", name, name);
        let mut roots = vec![("P0".to_string(), d2), ("P1".to_string(), d1)];
        if with_value {
            ps.push_str("  P2: typeof DEFAULT;\n  P3: typeof v1.DEFAULT;\n");
            single.push_str("const DEFAULT_2 = \"two\" as const;\nconst DEFAULT_1 = \"one\" as const;\n");
            sps.push_str("  P2: typeof DEFAULT_2;\n  P3: typeof DEFAULT_1;\n");
            roots.push(("P2".to_string(), D::StrLit("two".into())));
            roots.push(("P3".to_string(), D::StrLit("one".into())));
        }
        entry.push_str(&format!("export const Parsers = parse.buildParsers<{{\n{}}}>();\n", ps));
        single.push_str(&format!("export const Parsers = parse.buildParsers<{{\n{}}}>();\n", sps));
        let files = vec![
            ("entry.ts".to_string(), entry),
            (format!("{}index.ts", dir), index.clone()),
            (format!("{}v1.ts", dir), v1.clone()),
            (format!("{}v2.ts", dir), v2.clone()),
        ];
        // negative: a name that only the namespace-exported module declares, imported without the namespace
        let neg_entry = format!("import {{ OnlyInV1 }} from \"./{}index\";\nexport const Parsers = parse.buildParsers<{{\n  P0: OnlyInV1;\n}}>();\n", dir);
        let negative = Some((
            vec![("entry.ts".to_string(), neg_entry), (format!("{}index.ts", dir), index), (format!("{}v1.ts", dir), v1), (format!("{}v2.ts", dir), v2)],
            "OnlyInV1 is exported by ./v1 only, which the barrel re-exports as the namespace v1".to_string(),
        ));
        let env = Env { defs: vec![] };
        let mut values = vec![];
        for (_, d) in &roots {
            values.push(gen_values(&env, d, s, Mode::Open, 3, 3, 1));
        }
        let members: Vec<Vec<(JsVal, String)>> = values.iter().map(|vs| vs.iter().filter(|v| v.1 == "member").take(2).map(|v| (v.0.clone(), "near".to_string())).collect()).collect();
        for (i, vs) in values.iter_mut().enumerate() {
            for (j, m) in members.iter().enumerate() {
                if i != j {
                    vs.extend(m.clone());
                }
            }
        }
        C09Case { env, roots, single, files, styles: vec!["namespace_barrel".into(), "export_star".into()], negative, values }
    }

    pub fn gen_case(&self, s: &mut Src) -> C09Case {
        if s.chance(1, 12) {
            return self.same_name_tree_case(s);
        }
        if s.chance(1, 14) {
            return self.namespace_barrel_case(s);
        }
        let cfg = GenCfg { max_defs: 3, ..GenCfg::default() };
        let n_roots = s.range(1, 2);
        let (env, roots) = gen_env_and_roots(s, &cfg, n_roots);
        let roots: Vec<(String, D)> = roots.into_iter().enumerate().map(|(i, d)| (format!("P{}", i), d)).collect();
        // spellings that introduce many declarations (aliases, interfaces, enums, constants, generics)
        let rc = RenderCfg {
            feats: vec![Feat::Alias, Feat::Interface, Feat::Generic, Feat::Enum, Feat::Typeof, Feat::Syntax, Feat::Utility, Feat::Jsdoc, Feat::Keyof, Feat::Indexed],
            eagerness: 3,
        };
        let mut r = Renderer::new(&env, rc, s, "");
        let mut root_texts = vec![];
        for (_, d) in &roots {
            root_texts.push(r.render_root(d));
        }
        let mut rendered = r.finish(root_texts);
        let mut roots = roots;
        // twins: two enums (or two object types) with the same shape and member names but different contents, each used
        // by its own parser -- the layout below gives them the *same* name in different files
        let twins = match s.below(6) {
            0 | 1 => {
                rendered.decls.push("enum TwinEa { Red = \"red-a\", Blue = \"blue-a\" }".into());
                rendered.decls.push("enum TwinEb { Red = \"red-b\", Blue = \"blue-b\" }".into());
                rendered.roots.push("TwinEa.Red".into());
                rendered.roots.push("{ c: TwinEb.Red; d?: TwinEb.Blue }".into());
                roots.push(("PTa".into(), D::StrLit("red-a".into())));
                roots.push(("PTb".into(), D::obj(vec![("c", D::StrLit("red-b".into()), false), ("d", D::StrLit("blue-b".into()), true)])));
                Some(("TwinEa", "TwinEb"))
            }
            2 => {
                rendered.decls.push("type TwinTa = { x: string };".into());
                rendered.decls.push("type TwinTb = { x: number };".into());
                rendered.roots.push("TwinTa".into());
                rendered.roots.push("TwinTb[]".into());
                roots.push(("PTa".into(), D::obj(vec![("x", D::Str, false)])));
                roots.push(("PTb".into(), D::Array(Box::new(D::obj(vec![("x", D::Num, false)])))));
                Some(("TwinTa", "TwinTb"))
            }
            _ => None,
        };
        // constants that mention other constants (read through typeof): when such a constant becomes a module's
        // `export default <expression>`, the identifiers inside the expression belong to the exporting module
        let mut raw_entry_extra = String::new();
        if s.chance(1, 3) {
            let unit = *s.pick(&["ms", "s", "a-b"]);
            rendered.decls.push(format!("const CUnitQ = \"{}\" as const;", unit));
            match s.below(3) {
                0 => {
                    rendered.decls.push("const CObjQ = { max: 10, unit: CUnitQ } as const;".into());
                    roots.push(("PCq".into(), D::obj(vec![("max", D::NumLit("10".into()), false), ("unit", D::StrLit(unit.into()), false)])));
                }
                1 => {
                    rendered.decls.push("const CObjQ = [CUnitQ, 1] as const;".into());
                    roots.push(("PCq".into(), D::Tuple(vec![D::StrLit(unit.into()), D::NumLit("1".into())], None)));
                }
                _ => {
                    rendered.decls.push("const CObjQ = { inner: { u: CUnitQ }, n: 1 } as const;".into());
                    roots.push(("PCq".into(), D::obj(vec![("inner", D::obj(vec![("u", D::StrLit(unit.into()), false)]), false), ("n", D::NumLit("1".into()), false)])));
                }
            }
            rendered.roots.push("typeof CObjQ".into());
            // ... and the entry file declares a *type* named like the constant (values and types live in separate
            // name spaces): in type position the name is the local type, whether or not the constant is imported
            if s.chance(1, 2) {
                raw_entry_extra = "type CUnitQ = \"zz-local\" | 1;\ntype LocalQ = CUnitQ;\n".to_string();
                roots.push(("PUq".into(), D::StrLit(unit.into())));
                rendered.roots.push("typeof CUnitQ".into());
                roots.push(("PLq".into(), D::Union(vec![D::StrLit("zz-local".into()), D::NumLit("1".into())])));
                rendered.roots.push("LocalQ".into());
            }
        }
        let build = {
            let mut out = String::from("export const Parsers = parse.buildParsers<{\n");
            for ((name, _), t) in roots.iter().zip(rendered.roots.iter()) {
                out.push_str(&format!("  {}: {};\n", name, t));
            }
            out.push_str("}>();\n");
            out
        };
        let single = format!("{}\n{}{}", rendered.decls.join("\n"), raw_entry_extra, build);
        let mut values = vec![];
        for (_, d) in &roots {
            values.push(gen_values(&env, d, s, Mode::Open, 7, 6, 4));
        }

        // ---- declarations and their references
        let mut decls: Vec<Decl> = vec![];
        for t in &rendered.decls {
            if let Some((name, kind)) = parse_decl(t) {
                decls.push(Decl { text: t.clone(), name, kind, refs: vec![] });
            }
        }
        let names: Vec<String> = decls.iter().map(|d| d.name.clone()).collect();
        for d in decls.iter_mut() {
            let clean = strip_comments(&d.text);
            for (a, e) in ident_tokens(&clean) {
                let id = &clean[a..e];
                if id != d.name && names.iter().any(|n| n == id) && !d.refs.iter().any(|r| r == id) {
                    d.refs.push(id.to_string());
                }
            }
        }
        let mut build_refs: Vec<String> = vec![];
        for (a, e) in ident_tokens(&build) {
            let id = &build[a..e];
            if names.iter().any(|n| n == id) && !build_refs.iter().any(|r| r == id) {
                build_refs.push(id.to_string());
            }
        }

        // ---- partition: file index per declaration (0 = entry)
        let nfiles = s.range(2, 5);
        let file_names: Vec<String> = (0..nfiles)
            .map(|i| if i == 0 { "entry.ts".to_string() } else { format!("m{}.ts", i) })
            .collect();
        let mut file_of: Vec<usize> = vec![];
        for _ in &decls {
            file_of.push(s.below(nfiles));
        }
        let mut files: Vec<Vec<String>> = vec![vec![]; nfiles]; // decl texts per file
        let mut imports: Vec<Vec<String>> = vec![vec![]; nfiles];
        let mut extra_files: Vec<(String, String)> = vec![];
        let mut styles: Vec<String> = vec![];
        // export forms per declaration: how the declaring file exports it
        let mut exported_as: BTreeMap<String, (String, bool)> = BTreeMap::new(); // name -> (exported name, is_default)
        let mut default_taken: Vec<bool> = vec![false; nfiles];
        let mut export_lines: Vec<Vec<String>> = vec![vec![]; nfiles];
        let mut decl_texts: Vec<String> = decls.iter().map(|d| d.text.clone()).collect();

        // which declarations are referenced from another file?
        let mut needed: Vec<bool> = vec![false; decls.len()];
        for (i, d) in decls.iter().enumerate() {
            for r in &d.refs {
                let j = decls.iter().position(|x| x.name == *r).unwrap();
                if file_of[j] != file_of[i] {
                    needed[j] = true;
                }
            }
        }
        for r in &build_refs {
            let j = decls.iter().position(|x| x.name == *r).unwrap();
            if file_of[j] != 0 {
                needed[j] = true;
            }
        }
        // name collision: one declaration takes, inside its own file, the name of a declaration of the same kind that
        // lives in another file (two different `enum Color`, `type T`, `interface I` in one project); importers keep
        // their local names (`import { Color as Color2 }`, `ns.Color`, ...)
        let mut local_name: Vec<String> = decls.iter().map(|d| d.name.clone()).collect();
        let mut collide_renames: Vec<Vec<(String, String)>> = vec![vec![]; nfiles];
        if decls.len() >= 2 && (twins.is_some() || s.chance(1, 3)) {
            // prefer enums (their members get emitted names of their own), else any kind
            let enums: Vec<usize> = (0..decls.len()).filter(|&i| decls[i].kind == "enum").collect();
            let mut i = if enums.len() >= 2 && s.chance(2, 3) { enums[s.below(enums.len())] } else { s.below(decls.len()) };
            if let Some((_, tb)) = twins {
                if let Some(k) = decls.iter().position(|d| d.name == tb) {
                    i = k;
                }
            }
            let f = file_of[i];
            let cands: Vec<usize> = (0..decls.len())
                .filter(|&e| {
                    let en = &decls[e].name;
                    e != i
                        && file_of[e] != f
                        && decls[e].kind == decls[i].kind
                        && !decls.iter().enumerate().any(|(k, x)| file_of[k] == f && (x.name == *en || x.refs.contains(en)))
                        && !(f == 0 && build_refs.contains(en))
                })
                .collect();
            if !cands.is_empty() {
                let mut e = cands[s.below(cands.len())];
                if let Some((ta, _)) = twins {
                    if let Some(k) = cands.iter().find(|&&c| decls[c].name == ta) {
                        e = *k;
                    }
                }
                local_name[i] = decls[e].name.clone();
                collide_renames[f].push((decls[i].name.clone(), local_name[i].clone()));
                styles.push(format!("name_collision_{}", decls[i].kind));
            }
        }
        for (j, d) in decls.iter().enumerate() {
            if !needed[j] {
                continue;
            }
            let f = file_of[j];
            let form = if d.name == "CObjQ" && s.chance(1, 2) { 4 } else { s.below(5) };
            let ln = local_name[j].clone();
            match form {
                0 | 1 => {
                    // inline export
                    decl_texts[j] = export_inline(&decl_texts[j], d.kind);
                    exported_as.insert(d.name.clone(), (ln.clone(), false));
                    styles.push("export_inline".into());
                }
                2 => {
                    export_lines[f].push(format!("export {{ {} }};", ln));
                    exported_as.insert(d.name.clone(), (ln.clone(), false));
                    styles.push("export_list".into());
                }
                3 => {
                    let ext = format!("{}_x", d.name);
                    export_lines[f].push(format!("export {{ {} as {} }};", ln, ext));
                    exported_as.insert(d.name.clone(), (ext, false));
                    styles.push("export_renamed".into());
                }
                _ if d.kind == "const" && !default_taken[f] && d.name == "CObjQ" && !(f == 0) && !decls.iter().enumerate().any(|(i, o)| i != j && file_of[i] == f && o.refs.contains(&d.name)) => {
                    // the constant's initialiser becomes the module's default export (no local binding is left, so
                    // nothing else in this file may refer to it)
                    let clean = decl_texts[j].clone();
                    match clean.find('=') {
                        Some(eq) => {
                            let init = clean[eq + 1..].trim().trim_end_matches(';').trim().to_string();
                            default_taken[f] = true;
                            // (kept in the declaration's place, so that renamed imports are rewritten inside it too)
                            decl_texts[j] = format!("export default {};", init);
                            exported_as.insert(d.name.clone(), ("default".into(), true));
                            styles.push("export_default_expression".into());
                        }
                        None => {
                            decl_texts[j] = export_inline(&decl_texts[j], d.kind);
                            exported_as.insert(d.name.clone(), (ln.clone(), false));
                            styles.push("export_inline".into());
                        }
                    }
                }
                _ => {
                    if !default_taken[f] && d.kind != "enum" && d.kind != "const" {
                        default_taken[f] = true;
                        export_lines[f].push(format!("export default {};", ln));
                        exported_as.insert(d.name.clone(), ("default".into(), true));
                        styles.push("export_default".into());
                    } else {
                        decl_texts[j] = export_inline(&decl_texts[j], d.kind);
                        exported_as.insert(d.name.clone(), (ln.clone(), false));
                        styles.push("export_inline".into());
                    }
                }
            }
        }

        // ---- imports per (file, referenced name)
        let mut hop = 0;
        let mut file_texts: Vec<Vec<String>> = vec![vec![]; nfiles];
        let mut build_text = build.clone();
        for f in 0..nfiles {
            let mut wanted: Vec<String> = vec![];
            for (i, d) in decls.iter().enumerate() {
                if file_of[i] == f {
                    for r in &d.refs {
                        if !wanted.contains(r) {
                            wanted.push(r.clone());
                        }
                    }
                }
            }
            if f == 0 {
                for r in &build_refs {
                    if !wanted.contains(r) {
                        wanted.push(r.clone());
                    }
                }
            }
            // beff (and, for import types, TypeScript itself) only takes plain identifiers in `extends` clauses
            let mut in_extends: Vec<String> = vec![];
            for (i, d) in decls.iter().enumerate() {
                if file_of[i] == f && d.kind == "interface" {
                    let clean = strip_comments(&d.text);
                    if let Some(pos) = clean.find(" extends ") {
                        let clause = &clean[pos + 9..clean.find('{').unwrap_or(clean.len())];
                        for (a, e) in ident_tokens(clause) {
                            in_extends.push(clause[a..e].to_string());
                        }
                    }
                }
            }
            let mut replacements: Vec<(String, String)> = vec![];
            for name in wanted {
                let j = decls.iter().position(|x| x.name == name).unwrap();
                let g = file_of[j];
                if g == f {
                    continue;
                }
                let (ext, is_default) = exported_as.get(&name).cloned().unwrap();
                let gspec = format!("./{}", file_names[g].trim_end_matches(".ts"));
                let kind = decls[j].kind;
                let mut style = s.below(8);
                if in_extends.contains(&name) && matches!(style, 4 | 6 | 7) {
                    style = 0;
                }
                match style {
                    0 | 1 if !is_default => {
                        if ext == name {
                            imports[f].push(format!("import {{ {} }} from \"{}\";", name, gspec));
                        } else {
                            imports[f].push(format!("import {{ {} as {} }} from \"{}\";", ext, name, gspec));
                        }
                        styles.push("import_named".into());
                    }
                    2 if !is_default && kind != "enum" && kind != "const" => {
                        if ext == name {
                            imports[f].push(format!("import type {{ {} }} from \"{}\";", name, gspec));
                        } else {
                            imports[f].push(format!("import type {{ {} as {} }} from \"{}\";", ext, name, gspec));
                        }
                        styles.push("import_type".into());
                    }
                    3 if !is_default => {
                        // renamed local binding
                        let local = format!("{}_l{}", name, f);
                        imports[f].push(format!("import {{ {} as {} }} from \"{}\";", ext, local, gspec));
                        replacements.push((name.clone(), local));
                        styles.push("import_renamed".into());
                    }
                    4 if !is_default => {
                        let ns = format!("ns{}_{}", f, g);
                        let line = format!("import * as {} from \"{}\";", ns, gspec);
                        if !imports[f].contains(&line) {
                            imports[f].push(line);
                        }
                        replacements.push((name.clone(), format!("{}.{}", ns, ext)));
                        styles.push("import_namespace".into());
                    }
                    5 if !is_default => {
                        // re-export chain through a hop file
                        hop += 1;
                        let hop_name = format!("hop{}", hop);
                        let (line, imported) = match s.below(4) {
                            3 => {
                                // diamond: the barrel and the module it forwards to both re-export a common module
                                // first; the wanted name is only reachable through the *later* export-star line
                                let common = format!("common{}", hop);
                                let inner = format!("inner{}", hop);
                                extra_files.push((format!("{}.ts", common), format!("export type Unrelated{} = string;\n", hop)));
                                extra_files.push((format!("{}.ts", inner), format!("export * from \"./{}\";\nexport * from \"{}\";\n", common, gspec)));
                                styles.push("export_star_diamond".into());
                                (format!("export * from \"./{}\";\nexport * from \"./{}\";", common, inner), ext.clone())
                            }
                            0 => (format!("export * from \"{}\";", gspec), ext.clone()),
                            1 => (format!("export {{ {} }} from \"{}\";", ext, gspec), ext.clone()),
                            _ => (format!("export {{ {} as {}_h }} from \"{}\";", ext, ext, gspec), format!("{}_h", ext)),
                        };
                        extra_files.push((format!("{}.ts", hop_name), format!("{}\n", line)));
                        // now and then the hop file is itself reached through an outer barrel (`export *` leading to a named,
                        // renamed or starred re-export: two tables of the module graph have to cooperate)
                        let hop_name = if s.chance(1, 3) {
                            let outer = format!("outer{}", hop);
                            extra_files.push((format!("{}.ts", outer), format!("export * from \"./{}\";\n", hop_name)));
                            styles.push("export_star_over_reexport".into());
                            outer
                        } else {
                            hop_name
                        };
                        if imported == name {
                            imports[f].push(format!("import {{ {} }} from \"./{}\";", name, hop_name));
                        } else {
                            imports[f].push(format!("import {{ {} as {} }} from \"./{}\";", imported, name, hop_name));
                        }
                        styles.push("reexport_chain".into());
                    }
                    6 if !is_default => {
                        // export * as ns through a hop file
                        hop += 1;
                        let hop_name = format!("hop{}", hop);
                        let ns = format!("star{}", hop);
                        extra_files.push((format!("{}.ts", hop_name), format!("export * as {} from \"{}\";\n", ns, gspec)));
                        let hop_name = if s.chance(1, 3) {
                            let outer = format!("outer{}", hop);
                            extra_files.push((format!("{}.ts", outer), format!("export * from \"./{}\";\n", hop_name)));
                            styles.push("export_star_over_reexport".into());
                            outer
                        } else {
                            hop_name
                        };
                        imports[f].push(format!("import {{ {} }} from \"./{}\";", ns, hop_name));
                        replacements.push((name.clone(), format!("{}.{}", ns, ext)));
                        styles.push("export_star_as".into());
                    }
                    7 if !is_default && kind != "enum" && kind != "const" => {
                        replacements.push((name.clone(), format!("import(\"{}\").{}", gspec, ext)));
                        styles.push("import_type_expression".into());
                    }
                    _ => {
                        if is_default {
                            imports[f].push(format!("import {} from \"{}\";", name, gspec));
                            styles.push("import_default".into());
                        } else if ext == name {
                            imports[f].push(format!("import {{ {} }} from \"{}\";", name, gspec));
                            styles.push("import_named".into());
                        } else {
                            imports[f].push(format!("import {{ {} as {} }} from \"{}\";", ext, name, gspec));
                            styles.push("import_named".into());
                        }
                    }
                }
            }
            for (i, _) in decls.iter().enumerate() {
                if file_of[i] == f {
                    let mut t = decl_texts[i].clone();
                    for (from, to) in &replacements {
                        t = replace_ident(&t, from, to);
                    }
                    for (from, to) in &collide_renames[f] {
                        t = replace_ident(&t, from, to);
                    }
                    file_texts[f].push(t);
                }
            }
            if f == 0 {
                for (from, to) in &replacements {
                    build_text = replace_ident(&build_text, from, to);
                }
                for (from, to) in &collide_renames[0] {
                    build_text = replace_ident(&build_text, from, to);
                }
            }
        }
        // decoys: same-named declarations that must never be picked up
        let mut decoy_count = 0;
        for (i, d) in decls.iter().enumerate() {
            if d.kind == "type" && s.chance(1, 5) {
                let f = (file_of[i] + 1 + s.below(nfiles - 1)) % nfiles;
                // only where the name is not in use in that file
                let used_there = decls.iter().enumerate().any(|(k, x)| file_of[k] == f && (x.name == d.name || local_name[k] == d.name || x.refs.contains(&d.name))) || (f == 0 && build_refs.contains(&d.name));
                if !used_there {
                    file_texts[f].push(format!("{}type {} = {{ decoy: true }};", if s.chance(1, 2) { "export " } else { "" }, d.name));
                    decoy_count += 1;
                }
            }
        }
        if decoy_count > 0 {
            styles.push("decoy".into());
        }
        for f in 0..nfiles {
            let _ = &mut files[f];
        }
        let mut out_files: Vec<(String, String)> = vec![];
        for f in 0..nfiles {
            let mut text = String::new();
            for l in &imports[f] {
                text.push_str(l);
                text.push('\n');
            }
            for t in &file_texts[f] {
                text.push_str(t);
                text.push('\n');
            }
            for l in &export_lines[f] {
                text.push_str(l);
                text.push('\n');
            }
            if f == 0 {
                text.push_str(&raw_entry_extra);
                text.push_str(&build_text);
            }
            out_files.push((file_names[f].clone(), text));
        }
        out_files.extend(extra_files);

        // negative variant: drop one file that is imported, or turn one needed export into a non-export
        let negative = {
            let imported_files: Vec<usize> = (1..nfiles).filter(|g| decls.iter().enumerate().any(|(j, _)| file_of[j] == *g && needed[j])).collect();
            if !imported_files.is_empty() && s.chance(2, 3) {
                let g = imported_files[s.below(imported_files.len())];
                let mut v = out_files.clone();
                v.retain(|(n, _)| *n != file_names[g]);
                Some((v, format!("file {} removed", file_names[g])))
            } else {
                None
            }
        };
        // ---- directories: some modules move into lib/ (every specifier is rewritten relative to the file it is written
        // in; now and then a file of the same name stays behind in the root as a decoy).  Relative specifiers, import type
        // expressions included, are resolved from the file they are written in, not from the entry.
        let (out_files, negative) = if s.chance(1, 3) {
            let mut moved: BTreeMap<String, String> = BTreeMap::new();
            for (n, _) in &out_files {
                if n != "entry.ts" && s.chance(1, 2) {
                    moved.insert(n.clone(), format!("lib/{}", n));
                }
            }
            if moved.is_empty() {
                (out_files, negative)
            } else {
                styles.push("subdirectory".into());
                let decoys: Vec<String> = moved.keys().filter(|_| s.chance(1, 3)).cloned().collect();
                let all_names: Vec<String> = out_files.iter().map(|(n, _)| n.clone()).collect();
                let relocate = |files: Vec<(String, String)>| -> Vec<(String, String)> {
                    let mut out: Vec<(String, String)> = vec![];
                    for (n, text) in &files {
                        let new_name = moved.get(n).cloned().unwrap_or_else(|| n.clone());
                        let from_lib = new_name.starts_with("lib/");
                        let mut t = text.clone();
                        for target in &all_names {
                            let base = target.trim_end_matches(".ts");
                            let to_lib = moved.contains_key(target);
                            let spec = match (from_lib, to_lib) {
                                (false, false) | (true, true) => format!("./{}", base),
                                (false, true) => format!("./lib/{}", base),
                                (true, false) => format!("../{}", base),
                            };
                            t = t.replace(&format!("\"./{}\"", base), &format!("\"{}\"", spec));
                        }
                        out.push((new_name, t));
                    }
                    for d in &decoys {
                        if files.iter().any(|(n, _)| n == d) {
                            out.push((d.clone(), "export type UnrelatedDecoy = { decoy: true };\n".to_string()));
                        }
                    }
                    out
                };
                let neg = negative.map(|(v, why)| (relocate(v), why));
                (relocate(out_files), neg)
            }
        } else {
            (out_files, negative)
        };
        C09Case { env, roots, single, files: out_files, styles, negative, values }
    }
}

fn export_inline(text: &str, kind: &str) -> String {
    // insert `export ` before the declaration keyword (after a leading doc comment, if any)
    let kw = match kind {
        "type" => "type ",
        "interface" => "interface ",
        "enum" => "enum ",
        _ => "const ",
    };
    // the keyword occurrence that starts the declaration: first occurrence outside comments at line/segment start
    let clean_start = {
        let mut idx = 0;
        let mut rest = text;
        loop {
            let t = rest.trim_start();
            idx += rest.len() - t.len();
            if t.starts_with("/*") {
                match t.find("*/") {
                    Some(j) => {
                        idx += j + 2;
                        rest = &t[j + 2..];
                    }
                    None => break idx,
                }
            } else {
                break idx;
            }
        }
    };
    if text[clean_start..].starts_with(kw) {
        format!("{}export {}", &text[..clean_start], &text[clean_start..])
    } else {
        format!("export {}", text)
    }
}

impl Check for C09 {
    fn fuzz_runs(&self) -> u64 {
        10000
    }
    fn id(&self) -> &'static str {
        "C09"
    }
    fn cases(&self, tier: Tier) -> u32 {
        match tier {
            Tier::Quick => 5000,
            Tier::Thorough => 80_000,
        }
    }
    fn stream_len(&self) -> usize {
        3500
    }
    fn rule(&self) -> String {
        "case = a single-file program (C01 generator with spellings that create many declarations: aliases, interfaces/extends, generic definitions, enums, constants for typeof, utility types) and a random partition of its declarations into 2-5 files; every cross-file reference gets a random style (inline export / export list / renamed export / default export; named, renamed, type-only, namespace, default import; export-star, export-list and renamed re-export chains through hop files; `export * as ns`; import(\"./f\").X type expressions) and same-named decoy declarations are planted in other files. Oracle (differential against the single-file program): both compile without diagnostics, validate agrees on ~17 values per parser in default and strict mode, hash256 is equal; negative variant (an imported file removed) must produce at least one diagnostic. Non-trivial = >=2 files and >=1 reference through a non-plain style (anything but inline export + named import). Distinct = hash(files).".into()
    }
    fn assumptions(&self) -> Vec<String> {
        vec![
            "the layout generator only moves declarations and rewrites identifiers; the single-file program is the oracle for the meaning".into(),
            "module resolution is the harness's in-memory resolver (relative specifiers, .ts/.tsx/.d.ts/index.ts)".into(),
        ]
    }
    fn health(&self) -> Vec<(&'static str, f64)> {
        vec![("both_ran", 0.4), ("cross_file_reference", 0.4)]
    }
    fn generate(&self, s: &mut Src, _tier: Tier) -> Value {
        serde_json::to_value(self.gen_case(s)).unwrap()
    }
    fn exec(&self, case: &Value, ctx: &mut Ctx) -> Outcome {
        let case: C09Case = match serde_json::from_value(case.clone()) {
            Ok(c) => c,
            Err(e) => return Outcome::infra(format!("bad case: {}", e)),
        };
        let mut out = Outcome::default();
        for st in &case.styles {
            out.label(format!("style:{}", st));
        }
        let (sf, nf) = formats_json();
        let single = Project::single(&case.single);
        let multi = Project { files: case.files.clone(), entry: "entry.ts".into(), string_formats: sf.clone(), number_formats: nf.clone() };
        let t = if ctx.shrinking { 3 } else { 20 };
        let cs = match ctx.compiler.compile(&single, t) {
            Ok(c) => c,
            Err(CompileFail::Infra(e)) => return Outcome::infra(e),
            Err(_) => {
                out.label("single_crashed_skipped");
                return out;
            }
        };
        if cs.panic.is_some() || !cs.diags.is_empty() || cs.code.is_none() {
            out.label("single_does_not_compile_skipped");
            return out;
        }
        let detail = json!({"single": case.single, "files": case.files});
        let cm = match ctx.compiler.compile(&multi, t) {
            Ok(c) => c,
            Err(CompileFail::Infra(e)) => return Outcome::infra(e),
            Err(CompileFail::Timeout) => {
                out.mismatch(ctx, "multi_file_hang", "the multi-file layout of a compiling program does not terminate", detail);
                return out;
            }
            Err(CompileFail::Crashed(st)) => {
                out.mismatch(ctx, "multi_file_crash", format!("the multi-file layout of a compiling program crashes the compiler ({})", st), detail);
                return out;
            }
        };
        if let Some(p) = &cm.panic {
            out.mismatch(ctx, &format!("multi_file_panic:{}", crate::c01::panic_site(p)), format!("the multi-file layout panics: {}", p), detail);
            return out;
        }
        if !cm.diags.is_empty() || cm.code.is_none() {
            let m = cm.diags.first().map(|d| d.message.clone()).unwrap_or_default();
            out.mismatch(
                ctx,
                &format!("multi_file_diagnostic:{}", crate::c01::diag_class(&m)),
                format!("the single-file program compiles, its multi-file layout reports: {}", m),
                json!({"single": case.single, "files": case.files, "diagnostics": cm.diags}),
            );
            return out;
        }
        let nontrivial_style = case.styles.iter().any(|s| !matches!(s.as_str(), "export_inline" | "import_named"));
        if !case.styles.is_empty() {
            out.label("cross_file_reference");
        }
        // run both
        let mk_queries = || {
            let mut queries = vec![];
            for (i, (name, _)) in case.roots.iter().enumerate() {
                queries.push(json!({"q":"validateMany","parser":name,"values": case.values[i].iter().map(|(v,_)| v.to_tagged()).collect::<Vec<_>>(), "optsList":[null, {"strict": true}]}));
                queries.push(json!({"q":"hash256","parser":name,"tokens":true}));
            }
            queries
        };
        let r1 = match node_case(ctx, cs.code.as_deref(), mk_queries()) {
            Ok(r) => r,
            Err(e) => return Outcome::infra(e),
        };
        let r2 = match node_case(ctx, cm.code.as_deref(), mk_queries()) {
            Ok(r) => r,
            Err(e) => return Outcome::infra(e),
        };
        if r1.get("loadError").is_some() {
            out.label("single_load_error_skipped");
            return out;
        }
        if let Some(le) = r2.get("loadError") {
            out.mismatch(ctx, "multi_file_module_does_not_load", format!("the module of the multi-file layout does not load: {}", le), detail);
            return out;
        }
        out.label("both_ran");
        if case.files.len() >= 2 && nontrivial_style {
            out.nontrivial = Some(fp(&serde_json::to_string(&case.files).unwrap()));
            out.sample = Some(json!({"files": case.files, "styles": case.styles}));
        }
        for (i, (name, d)) in case.roots.iter().enumerate() {
            let (m1, m2) = (&r1["results"][2 * i]["m"], &r2["results"][2 * i]["m"]);
            for (j, (v, _)) in case.values[i].iter().enumerate() {
                out.evals += 1;
                for (mode, idx) in [("default", 0), ("strict", 1)] {
                    let (x, y) = (&m1[j][idx], &m2[j][idx]);
                    if x.is_i64() && y.is_i64() && x != y {
                        out.mismatch(
                            ctx,
                            &format!("multi_file_validate_differs:{}", mode),
                            format!("{}: the multi-file layout validates a value differently in {} mode ({} vs {})", name, mode, x, y),
                            json!({"single": case.single, "files": case.files, "parser": name, "value": v, "value_tagged": v.to_tagged(), "type": d}),
                        );
                    }
                }
            }
            let (h1, h2) = (&r1["results"][2 * i + 1]["r"], &r2["results"][2 * i + 1]["r"]);
            if h1 != h2 {
                let class = crate::cpair::token_diff_class(&r1["results"][2 * i + 1], &r2["results"][2 * i + 1], &case.env, d);
                out.mismatch(ctx, &format!("multi_file_hash256_differs:{}", class), format!("{}: hash256 differs between the single-file program and its multi-file layout", name), json!({"single": case.single, "files": case.files}));
            }
        }
        // negative variant
        if let Some((files, what)) = &case.negative {
            let neg = Project { files: files.clone(), entry: "entry.ts".into(), string_formats: sf, number_formats: nf };
            match ctx.compiler.compile(&neg, t) {
                Ok(c) => {
                    out.label("negative_variant");
                    if c.panic.is_none() && c.diags.is_empty() && c.code.is_some() {
                        out.mismatch(ctx, "unresolvable_reference_not_reported", format!("{}: the project still compiles without any diagnostic", what), json!({"files": files, "what": what}));
                    }
                }
                Err(CompileFail::Infra(e)) => return Outcome::infra(e),
                Err(_) => {}
            }
        }
        out
    }
}

/// a module exporting 4-9 types and constants with similar names, and an entry that asks for 1-3 names the module does
/// not export (as a type import, a value read, a re-export, an `import()` type, a namespace member)
fn near_miss_imports(s: &mut Src) -> Vec<(String, String)> {
    let stem = *s.pick(&["User", "Item", "Node"]);
    let variants = ["Dto", "Id", "s", "x", "_", "Input", "A", "B", "Map"];
    let mut m = String::new();
    let n = s.range(4, 9);
    let mut exported: Vec<String> = vec![];
    for i in 0..n {
        let name = match s.below(5) {
            0 => stem.to_lowercase() + variants[i % variants.len()],
            1 => stem.to_uppercase() + variants[i % variants.len()],
            _ => format!("{}{}", stem, variants[i % variants.len()]),
        };
        if exported.contains(&name) {
            continue;
        }
        if s.chance(1, 4) {
            m.push_str(&format!("export const {} = {} as const;\n", name, s.pick(&["1", "\"v\"", "{ a: 1 }"])));
        } else {
            m.push_str(&format!("export type {} = {};\n", name, s.pick(&["string", "number", "{ a: string }", "\"a\" | \"b\""])));
        }
        exported.push(name);
    }
    let missing = [stem.to_string(), stem.to_lowercase(), format!("{}D", stem), stem[..stem.len() - 1].to_string()];
    let mut entry = String::from("import * as ns from \"./m\";\n");
    let k = s.range(1, 3);
    let mut ps = vec![];
    for i in 0..k {
        let want = s.pick(&missing).to_string();
        match s.below(6) {
            0 => {
                entry.push_str(&format!("import {{ {} as W{} }} from \"./m\";\n", want, i));
                ps.push(format!("P{}: W{}", i, i));
            }
            1 => {
                entry.push_str(&format!("import type {{ {} as W{} }} from \"./m\";\n", want, i));
                ps.push(format!("P{}: W{}[]", i, i));
            }
            2 => ps.push(format!("P{}: import(\"./m\").{}", i, want)),
            3 => ps.push(format!("P{}: ns.{}", i, want)),
            4 => {
                entry.push_str(&format!("import {{ {} as V{} }} from \"./m\";\n", want, i));
                ps.push(format!("P{}: typeof V{}", i, i));
            }
            _ => ps.push(format!("P{}: typeof ns.{}", i, want)),
        }
    }
    if let Some(ok) = exported.first() {
        ps.push(format!("Q: ns.{}", ok));
    }
    entry.push_str(&format!("parse.buildParsers<{{ {} }}>();\n", ps.join("; ")));
    vec![("entry.ts".to_string(), entry), ("m.ts".to_string(), m)]
}

// ------------------------------------------------------------------------------------------------
// C10 — compilation output is a deterministic function of the sources
// ------------------------------------------------------------------------------------------------
#[derive(Debug, Clone, Serialize, Deserialize)]
pub struct C10Case {
    pub project: Project,
    pub kind: String,
    /// alternative registration orders (eager parsing before extraction)
    pub preloads: Vec<Vec<String>>,
}

pub struct C10;

fn ns_stress(s: &mut Src) -> Vec<(String, String)> {
    // a module with many exports, some of which cannot be converted, read through `typeof <namespace import>`
    let n = s.range(4, 14);
    let mut m = String::new();
    for i in 0..n {
        let line = match s.below(7) {
            0 => format!("export const v{} = {};\n", i, s.pick(&["1", "\"a\"", "true", "{ a: 1 }", "[1, 2]"])),
            1 => format!("export const v{} = {} as const;\n", i, s.pick(&["1", "\"a\"", "{ a: \"x\" }", "[1, \"b\"]"])),
            2 => format!("export const bad{} = {};\n", i, s.pick(&["/re/", "Symbol()", "new Date()", "1 as unknown as symbol", "class {}"])),
            3 => format!("export enum E{} {{ A = \"a\", B = {} }}\n", i, i),
            4 => format!("export type T{} = {};\n", i, s.pick(&["string", "{ a: number }", "symbol"])),
            5 => format!("export function f{}() {{ return 1; }}\n", i),
            _ => format!("export const w{}: {} = null as any;\n", i, s.pick(&["string", "symbol", "() => void", "unique symbol", "{ a: string }"])),
        };
        m.push_str(&line);
    }
    if s.chance(1, 2) {
        m.push_str("export * from \"./other\";\n");
    }
    let mut other = "export const o1 = 1;\nexport const o2 = /x/;\nexport type OT = string;\n".to_string();
    // re-exported names (a separate symbol table in the compiler): several of them cannot be converted, so the
    // diagnostic that is reported first depends on the order in which that table is walked
    let n2 = s.range(0, 10);
    let mut re: Vec<String> = vec![];
    for i in 0..n2 {
        let bad = s.chance(1, 2);
        other.push_str(&format!(
            "export const r{} = {};\n",
            i,
            if bad { *s.pick(&["loadLimits()", "/re/", "Symbol()", "new Date()", "class {}"]) } else { *s.pick(&["1", "\"a\"", "{ a: 1 } as const"]) }
        ));
        match s.below(4) {
            0 => re.push(format!("r{}", i)),
            1 => re.push(format!("r{} as q{}", i, i)),
            2 => {
                m.push_str(&format!("import {{ r{} }} from \"./other\";\nexport {{ r{} }};\n", i, i));
            }
            _ => {}
        }
    }
    if !re.is_empty() {
        m.push_str(&format!("export {{ {} }} from \"./other\";\n", re.join(", ")));
    }
    if s.chance(1, 4) {
        m.push_str("export * as sub from \"./other\";\n");
    }
    let uses = match s.below(4) {
        0 => "typeof ns".to_string(),
        1 => "typeof ns.v0".to_string(),
        2 => "{ a: typeof ns; b: ns.T1 }".to_string(),
        _ => "keyof typeof ns".to_string(),
    };
    let entry = format!("import * as ns from \"./m\";\nparse.buildParsers<{{ P0: {}; P1: typeof ns }}>();\n", uses);
    vec![("entry.ts".into(), entry), ("m.ts".into(), m), ("other.ts".into(), other)]
}

impl Check for C10 {
    fn id(&self) -> &'static str {
        "C10"
    }
    fn cases(&self, tier: Tier) -> u32 {
        match tier {
            Tier::Quick => 3000,
            Tier::Thorough => 40_000,
        }
    }
    fn stream_len(&self) -> usize {
        3500
    }
    fn threads(&self) -> usize {
        12
    }
    fn reexec_attempts(&self) -> usize {
        6
    }
    fn rule(&self) -> String {
        "case = a project (multi-file layouts of the C09 generator - successes; wild multi-file projects of the C04 grammar - mostly diagnostics; and a namespace-stress shape: `typeof <namespace import>` over a module with 4-14 exports, some unconvertible, optionally extended by export-star) compiled 6 times: twice in one process, then in 3 fresh OS processes (new hash seeds) of which two parse the files eagerly in shuffled registration orders, and once more lazily. Oracle: byte equality of emit_code() and of the serialized diagnostics across all runs. Non-trivial = >=2 files, or >=2 diagnostics, or >=8 hoisted values. Distinct = hash(project).".into()
    }
    fn assumptions(&self) -> Vec<String> {
        vec!["hash seeds are sampled (4 processes per project): an order dependence that needs a rarer permutation can be missed; the generator compensates by making iterated symbol tables large".into()]
    }
    fn health(&self) -> Vec<(&'static str, f64)> {
        vec![("compared", 0.8)]
    }
    fn generate(&self, s: &mut Src, _tier: Tier) -> Value {
        let (sf, nf) = formats_json();
        let (files, kind): (Vec<(String, String)>, &str) = match s.below(10) {
            0..=3 => (C09.gen_case(s).files, "layout"),
            // names that are not exported, next to several exported names that resemble them (prefixes, other case, one
            // character apart), of both kinds: whatever a diagnostic says about the neighbours, it says in every run
            9 => (near_miss_imports(s), "near_miss_imports"),
            4 | 5 => (ns_stress(s), "namespace_stress"),
            // a body evaluated once per key of a mapped type: the first error and the numbering of generated helper
            // types follow the order the keys are visited in
            6 => (crate::c04::mapped_type_per_key(s), "mapped_type_per_key"),
            _ => {
                let c = crate::c04::C04;
                let v = c.generate(s, Tier::Quick);
                let cc: crate::c04::C04Case = serde_json::from_value(v).unwrap();
                (cc.project.files, "wild")
            }
        };
        let names: Vec<String> = files.iter().map(|(n, _)| n.clone()).collect();
        let mut preloads = vec![];
        for _ in 0..2 {
            let mut order = names.clone();
            // Fisher-Yates with the stream
            for i in (1..order.len()).rev() {
                let j = s.below(i + 1);
                order.swap(i, j);
            }
            preloads.push(order);
        }
        let project = Project { files, entry: "entry.ts".into(), string_formats: sf, number_formats: nf };
        serde_json::to_value(C10Case { project, kind: kind.into(), preloads }).unwrap()
    }
    fn exec(&self, case: &Value, ctx: &mut Ctx) -> Outcome {
        let case: C10Case = match serde_json::from_value(case.clone()) {
            Ok(c) => c,
            Err(e) => return Outcome::infra(format!("bad case: {}", e)),
        };
        let mut out = Outcome::default();
        out.label(format!("kind:{}", case.kind));
        if crate::c04::has_unguarded_alias_cycle(&case.project) {
            out.label("excluded_alias_cycle");
            return out;
        }
        let t = if ctx.shrinking { 3 } else { 20 };
        let mut runs: Vec<(String, crate::compile::CompileOut)> = vec![];
        let plan: Vec<(&str, Option<&[String]>, u64, bool)> = vec![
            ("same process, twice", None, 2, false),
            // the parsed modules of the first extraction serve the second one (what a watch session does)
            ("same parsed modules, extracted twice", None, 2, false),
            ("fresh process, eager order 1", Some(&case.preloads[0]), 1, true),
            ("fresh process, eager order 2", Some(&case.preloads[1]), 1, true),
            ("fresh process, lazy", None, 1, true),
        ];
        for (label, preload, repeat, fresh) in plan {
            if fresh {
                ctx.compiler.restart();
            }
            let r = if label.starts_with("same parsed modules") { ctx.compiler.compile_shared(&case.project, repeat, t) } else { ctx.compiler.compile_many(&case.project, preload, repeat, t) };
            match r {
                Ok(outs) => {
                    for o in outs {
                        runs.push((label.to_string(), o));
                    }
                }
                Err(CompileFail::Infra(e)) => return Outcome::infra(e),
                Err(_) => {
                    // crashes and hangs are C04's subject
                    out.label("crash_or_hang_skipped");
                    return out;
                }
            }
        }
        if runs.iter().any(|(_, o)| o.panic.is_some()) {
            out.label("panic_skipped");
            return out;
        }
        out.evals = runs.len() as u64;
        out.label("compared");
        let first = &runs[0].1;
        let hoists = first.code.as_ref().map(|c| c.matches("direct_hoist_").count()).unwrap_or(0);
        if case.project.files.len() >= 2 || first.diags.len() >= 2 || hoists >= 16 {
            out.nontrivial = Some(fp(&serde_json::to_string(&case.project).unwrap()));
            out.sample = Some(json!({"kind": case.kind, "files": case.project.files, "diagnostics": first.diags.iter().map(|d| d.message.clone()).collect::<Vec<_>>(), "emitted": first.code.is_some()}));
        }
        for (label, o) in &runs[1..] {
            if o.code != first.code {
                out.mismatch(ctx, "emitted_code_differs_between_runs", format!("emit_code() differs between '{}' and '{}'", runs[0].0, label), json!({"project": case.project, "run_a": first.code, "run_b": o.code, "label_b": label}));
                break;
            }
            if o.wasm_diag != first.wasm_diag {
                let sig = if case.project.files.iter().any(|(_, t)| t.contains("import * as")) { "diagnostics_differ_between_runs:namespace_import" } else { "diagnostics_differ_between_runs" };
                out.mismatch(ctx, sig, format!("diagnostics differ between '{}' and '{}'", runs[0].0, label), json!({"project": case.project, "run_a": first.wasm_diag, "run_b": o.wasm_diag, "label_b": label}));
                break;
            }
        }
        out
    }
}
