//! Choice stream: every generated case is a pure function of a `Vec<u32>` drawn by proptest.
//! Proptest shrinks the vector (drops chunks, lowers numbers); an exhausted stream yields 0, and every
//! generator makes choice 0 its simplest alternative, so shrinking moves towards small cases.
//! Indices are mapped monotonically (`x*n >> 32`), never with `%`.

pub struct Src<'a> {
    data: &'a [u32],
    pos: usize,
}

impl<'a> Src<'a> {
    pub fn new(data: &'a [u32]) -> Self {
        Src { data, pos: 0 }
    }
    pub fn raw(&mut self) -> u32 {
        let v = self.data.get(self.pos).copied().unwrap_or(0);
        self.pos += 1;
        v
    }
    pub fn exhausted(&self) -> bool {
        self.pos >= self.data.len()
    }
    pub fn used(&self) -> usize {
        self.pos
    }
    /// uniform in 0..n (n >= 1), monotone in the raw draw
    pub fn below(&mut self, n: usize) -> usize {
        if n <= 1 {
            // still consume, keeps streams aligned across alternatives
            let _ = self.raw();
            return 0;
        }
        ((self.raw() as u64 * n as u64) >> 32) as usize
    }
    pub fn range(&mut self, lo: usize, hi_incl: usize) -> usize {
        lo + self.below(hi_incl - lo + 1)
    }
    /// true with probability num/den; raw 0 => false
    pub fn chance(&mut self, num: u32, den: u32) -> bool {
        let r = self.below(den as usize) as u32;
        r >= den - num
    }
    pub fn weighted(&mut self, weights: &[u32]) -> usize {
        let total: u32 = weights.iter().sum();
        if total == 0 {
            let _ = self.raw();
            return 0;
        }
        let mut r = self.below(total as usize) as u32;
        for (i, w) in weights.iter().enumerate() {
            if r < *w {
                return i;
            }
            r -= *w;
        }
        weights.len() - 1
    }
    pub fn pick<'b, T>(&mut self, xs: &'b [T]) -> &'b T {
        &xs[self.below(xs.len())]
    }
}
