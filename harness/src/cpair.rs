//! C08 (meaning-preserving rewrites), C13 (hash256), C15 (describe round trip): properties over pairs of programs.
use crate::c01::{compile_case, gen_values, node_case};
use crate::den::{gen_env_and_roots, Env, GenCfg, D};
use crate::jsval::JsVal;
use crate::member::Mode;
use crate::render::{render_program, RenderCfg};
use crate::runner::{fp, Check, Ctx, Outcome, Tier};
use crate::src::Src;
use serde::{Deserialize, Serialize};
use serde_json::{json, Value};
use std::collections::BTreeMap;

#[derive(Debug, Clone, Serialize, Deserialize)]
pub struct PairOfPrograms {
    pub env: Env,
    pub roots: Vec<(String, D)>,
    pub p1: String,
    pub p2: String,
    pub used1: BTreeMap<String, u32>,
    pub used2: BTreeMap<String, u32>,
    pub values: Vec<Vec<(JsVal, String)>>,
}

pub fn emitted_classes(code: &str) -> BTreeMap<String, u32> {
    let mut m = BTreeMap::new();
    for part in code.split("new ").skip(1) {
        let name: String = part.chars().take_while(|c| c.is_alphanumeric()).collect();
        *m.entry(name).or_insert(0) += 1;
    }
    m
}

/// Runs both programs; returns per program (matrix per root, hash256 per root, hash per root) or None if skipped.
pub struct Ran {
    pub matrices: Vec<Value>,
    pub hash256: Vec<Value>,
    pub hash: Vec<Value>,
    pub classes: BTreeMap<String, u32>,
}

pub fn run_program(ctx: &mut Ctx, program: &str, roots: &[(String, D)], values: &[Vec<(JsVal, String)>], out: &mut Outcome, prop: &str) -> Result<Option<Ran>, String> {
    let mut scratch = Outcome::default();
    let code = match compile_case(program, &mut scratch, ctx, prop) {
        Some(c) => c,
        None => {
            if let Some(i) = scratch.infra {
                return Err(i);
            }
            out.label("compile_failed");
            return Ok(None);
        }
    };
    let mut queries = vec![];
    for (i, (name, _)) in roots.iter().enumerate() {
        queries.push(json!({"q":"validateMany","parser":name,"values": values[i].iter().map(|(v,_)| v.to_tagged()).collect::<Vec<_>>(), "optsList":[null, {"strict": true}]}));
        queries.push(json!({"q":"hash256","parser":name,"tokens":true}));
        queries.push(json!({"q":"hash","parser":name}));
    }
    let resp = node_case(ctx, Some(&code), queries)?;
    if resp.get("loadError").is_some() {
        out.label("load_error");
        return Ok(None);
    }
    let mut ran = Ran { matrices: vec![], hash256: vec![], hash: vec![], classes: emitted_classes(&code) };
    for i in 0..roots.len() {
        ran.matrices.push(resp["results"][3 * i]["m"].clone());
        ran.hash256.push(resp["results"][3 * i + 1].clone());
        ran.hash.push(resp["results"][3 * i + 2].clone());
    }
    Ok(Some(ran))
}

pub fn c08_gen_cfg() -> GenCfg {
    GenCfg::default()
}

pub struct C08;
impl Check for C08 {
    fn fuzz_runs(&self) -> u64 {
        10000
    }
    fn id(&self) -> &'static str {
        "C08"
    }
    fn cases(&self, tier: Tier) -> u32 {
        match tier {
            Tier::Quick => 6000,
            Tier::Thorough => 90_000,
        }
    }
    fn stream_len(&self) -> usize {
        3000
    }
    fn rule(&self) -> String {
        "case = one denotation set (environment + 1-2 roots) printed twice with independent choices restricted to the rewrites the statement lists (reordering of union/intersection members, properties and declarations; introducing/inlining/renaming aliases and generic wrappers incl. generic named definitions; parentheses, readonly, quotes, Array<T>; comments/JSDoc; interface <-> object type incl. extends; discriminated union merged/split by tag) + ~24 values per root. Oracle (metamorphic): validate agrees on every value in default and strict mode, and hash256 is equal. Non-trivial = the two emitted modules differ in their multiset of runtime classes (a different optimisation fired) or in hoist count. Distinct = hash(p1,p2).".into()
    }
    fn assumptions(&self) -> Vec<String> {
        vec!["the two spellings are TypeScript-equivalent by construction of the renderer".into()]
    }
    fn health(&self) -> Vec<(&'static str, f64)> {
        vec![("both_ran", 0.5), ("emitted_differently", 0.2)]
    }
    fn generate(&self, s: &mut Src, _tier: Tier) -> Value {
        let cfg = c08_gen_cfg();
        let n_roots = s.range(1, 2);
        let (env, roots) = gen_env_and_roots(s, &cfg, n_roots);
        let roots: Vec<(String, D)> = roots.into_iter().enumerate().map(|(i, d)| (format!("P{}", i), d)).collect();
        // one pair in six differs in comments only: a heavily documented program against itself with every comment removed
        let comment_only = s.chance(1, 6);
        let (p1, r1, p2, r2) = if comment_only {
            let mut rc = RenderCfg::c08();
            rc.feats.push(Feat::JsdocHeavy);
            let (p1, r1) = render_program(&env, &roots, rc, s, "");
            let p2 = crate::c09::strip_comments(&p1);
            let mut r2 = r1.clone();
            r2.used.insert("comment_only_pair".into(), 1);
            (p1, r1, p2, r2)
        } else {
            let (p1, r1) = render_program(&env, &roots, RenderCfg::c08(), s, "");
            let (p2, r2) = render_program(&env, &roots, RenderCfg::c08(), s, "");
            (p1, r1, p2, r2)
        };
        let mut values = vec![];
        for (_, d) in &roots {
            values.push(gen_values(&env, d, s, Mode::Open, 9, 9, 6));
        }
        serde_json::to_value(PairOfPrograms { env, roots, p1, p2, used1: r1.used, used2: r2.used, values }).unwrap()
    }
    fn exec(&self, case: &Value, ctx: &mut Ctx) -> Outcome {
        let case: PairOfPrograms = match serde_json::from_value(case.clone()) {
            Ok(c) => c,
            Err(e) => return Outcome::infra(format!("bad case: {}", e)),
        };
        let mut out = Outcome::default();
        let a = match run_program(ctx, &case.p1, &case.roots, &case.values, &mut out, "C08") {
            Ok(x) => x,
            Err(e) => return Outcome::infra(e),
        };
        let b = match run_program(ctx, &case.p2, &case.roots, &case.values, &mut out, "C08") {
            Ok(x) => x,
            Err(e) => return Outcome::infra(e),
        };
        let detail = json!({"p1": case.p1, "p2": case.p2});
        let (a, b) = match (a, b) {
            (Some(a), Some(b)) => (a, b),
            (None, None) => return out,
            _ => {
                out.mismatch(ctx, "one_spelling_does_not_compile", "one spelling compiles and loads, the other does not", detail);
                return out;
            }
        };
        out.label("both_ran");
        if a.classes != b.classes {
            out.label("emitted_differently");
            out.nontrivial = Some(fp(&(case.p1.clone(), case.p2.clone())));
            out.sample = Some(json!({"p1": case.p1, "p2": case.p2, "classes1": a.classes, "classes2": b.classes}));
        }
        for (i, (name, d)) in case.roots.iter().enumerate() {
            for (j, (v, _)) in case.values[i].iter().enumerate() {
                out.evals += 1;
                for (mode, idx) in [("default", 0), ("strict", 1)] {
                    let (x, y) = (&a.matrices[i][j][idx], &b.matrices[i][j][idx]);
                    if x != y {
                        // throwing is C03's subject; only definite verdicts are compared
                        if !(x.is_i64() && y.is_i64()) {
                            continue;
                        }
                        // strict mode judges undeclared keys per member of an intersection the compiler did not merge
                        // (listed finding): only where one of the two spellings has such an intersection
                        let ext = |u: &BTreeMap<String, u32>| u.keys().any(|k| k.starts_with("extends_named:"));
                        let has_inter = case.used1.contains_key("inter_unmerged_or_named") || case.used2.contains_key("inter_unmerged_or_named") || ext(&case.used1) || ext(&case.used2);
                        let suffix = if mode == "strict" && has_inter { ":intersection_member_named_or_inline" } else { "" };
                        out.mismatch(
                            ctx,
                            &format!("validate_differs:{}{}", mode, suffix),
                            format!("{}: the two spellings disagree on a value in {} mode ({} vs {})", name, mode, x, y),
                            json!({"p1": case.p1, "p2": case.p2, "parser": name, "type": d, "value": v, "value_tagged": v.to_tagged(), "mode": mode}),
                        );
                    }
                }
            }
            let (h1, h2) = (&a.hash256[i]["r"], &b.hash256[i]["r"]);
            if h1 != h2 {
                let du = case.used1.contains_key("du_merged") || case.used2.contains_key("du_merged");
                // (two programs that differ in comments only have the same aliases, order and nesting: none of the listed
                // hash findings applies to them)
                let comment_only = case.used2.contains_key("comment_only_pair");
                let sig = if comment_only { format!("comments_only:{}", token_diff_class(&a.hash256[i], &b.hash256[i], &case.env, d)) } else if du { "discriminated_union_shape".to_string() } else { token_diff_class(&a.hash256[i], &b.hash256[i], &case.env, d) };
                out.mismatch(ctx, &format!("hash256_differs:{}", sig), format!("{}: hash256 differs between the two spellings ({} vs {})", name, h1, h2), json!({"p1": case.p1, "p2": case.p2, "parser": name, "type": d}));
            }
        }
        out
    }
}

/// Where do two canonical encodings (token sequences fed to the SHA-256 writer) first differ?  The class names the
/// two differing tokens (tags by name, payloads by kind) and the enclosing tag: e.g. `N|N@anyOf` = the member count of
/// a union differs (a nested vs a flattened union), `N|N@cycleRef` = cycle numbering, `T:anyOf|T:anyOfConsts@object`.
/// Falls back to the coarse shape class when the writer could not be tapped.
pub fn token_diff_class(a: &Value, b: &Value, env: &Env, d: &D) -> String {
    match crate::htree::diff_class(&a["tokens"], &b["tokens"]) {
        Some("other") => {
            // name the first differing tokens too (debugging aid, and keeps unrelated "other"s apart)
            format!("other:{}", first_token_difference(&a["tokens"], &b["tokens"]))
        }
        Some(c) => c.to_string(),
        // the writer could not be tapped or the encoding has a shape this parser does not know: coarse class
        None => hash_difference_class(env, d).to_string(),
    }
}
fn first_token_difference(a: &Value, b: &Value) -> String {
    let (ta, tb) = match (a.as_array(), b.as_array()) {
        (Some(x), Some(y)) => (x, y),
        _ => return "untapped".into(),
    };
    let kind = |t: Option<&Value>| -> String {
        match t.and_then(|x| x.as_str()) {
            None => "END".to_string(),
            Some(x) if x.starts_with("T:") => x.to_string(),
            Some(x) => x.chars().take(1).collect(),
        }
    };
    let mut i = 0;
    while i < ta.len() && i < tb.len() && ta[i] == tb[i] {
        i += 1;
    }
    let (mut x, mut y) = (kind(ta.get(i)), kind(tb.get(i)));
    if x > y {
        std::mem::swap(&mut x, &mut y);
    }
    format!("{}|{}", x, y)
}

/// which shape the type has that the two known hash256 findings hinge on
pub fn hash_difference_class(env: &Env, d: &D) -> &'static str {
    let mut union_in_union = false;
    let mut inter = false;
    let mut visit = |d: &D| {
        d.any_node(&mut |n| {
            match n {
                D::Union(_) => union_in_union = true,
                D::Inter(_) => inter = true,
                _ => {}
            }
            false
        });
    };
    visit(d);
    for (_, x) in &env.defs {
        visit(x);
    }
    // does a definition reach itself?
    let n = env.defs.len();
    let mut recursive = false;
    for i in 0..n {
        let mut seen = vec![false; n];
        let mut stack = vec![i];
        let mut first = true;
        while let Some(j) = stack.pop() {
            if !first && j == i {
                recursive = true;
                break;
            }
            if seen[j] && !first {
                continue;
            }
            seen[j] = true;
            first = false;
            env.get(j).any_node(&mut |x| {
                if let D::Ref(k) = x {
                    stack.push(*k);
                }
                false
            });
        }
    }
    let uses_ref = d.any_node(&mut |x| matches!(x, D::Ref(_)));
    if recursive && uses_ref {
        "recursive_type_cycle_numbering"
    } else if inter {
        "intersection_alias_boundary"
    } else if union_in_union {
        "union_alias_boundary"
    } else {
        "other"
    }
}

// ------------------------------------------------------------------------------------------------
// C13 — hash256 is a structural fingerprint computed as real SHA-256
// ------------------------------------------------------------------------------------------------
use crate::render::Feat;

#[derive(Debug, Clone, Serialize, Deserialize)]
pub enum C13Case {
    /// part A: a sequence of writes; the worker taps the byte stream and compares with node:crypto
    Digest { ops: Vec<Value> },
    /// part A, unique decodability: one string `prefix ++ bytes-the-writer-produces-for-tail` against the writes
    /// [prefix, tail...]: different inputs, so different digests, whatever the encoding is
    Confusable { prefix: String, tail: Vec<Value> },
    /// part B(i): same denotation, rewrites that must not change hash256 / hash
    Equal(PairOfPrograms),
    /// part B(ii): two denotations one edit apart; if some value separates them, the digests must differ
    Mutant { env: Env, d1: D, d2: D, p1: String, p2: String, values: Vec<JsVal> },
    /// part B(iii): a history over the runtime type-building API (b.*, createNamedType, overrideNamedType) with
    /// digests read on the way; the final digests must be those of the final structure
    BHistory { ops: Vec<Value>, values: Vec<JsVal> },
}

/// specs over a small vocabulary, so that a fixed pool of values separates most of them
fn gen_history_spec(s: &mut Src, depth: usize, names: &[String], built: &[String]) -> Value {
    let leaf = |s: &mut Src| match s.below(8) {
        0 => json!({"k":"string"}),
        1 => json!({"k":"number"}),
        2 => json!({"k":"boolean"}),
        3 => json!({"k":"null"}),
        4 => json!({"k":"const","v":"a"}),
        5 => json!({"k":"unknown"}),
        6 if !names.is_empty() => json!({"k":"ref","name": names[s.below(names.len())]}),
        7 if !built.is_empty() => json!({"k":"use","id": built[s.below(built.len())]}),
        _ => json!({"k":"const","v":1}),
    };
    if depth == 0 {
        return leaf(s);
    }
    match s.below(6) {
        0 => leaf(s),
        1 => json!({"k":"array","item": gen_history_spec(s, depth - 1, names, built)}),
        2 | 3 => {
            let n = s.range(1, 3);
            let keys = ["a", "b", "n"];
            let fields: Vec<Value> = (0..n).map(|i| json!([keys[i], gen_history_spec(s, depth - 1, names, built)])).collect();
            json!({"k":"object","fields": fields})
        }
        _ => {
            let n = s.range(2, 3);
            let items: Vec<Value> = (0..n).map(|_| gen_history_spec(s, depth - 1, names, built)).collect();
            json!({"k":"union","items": items})
        }
    }
}

fn history_value_pool() -> Vec<JsVal> {
    let o = |kv: Vec<(&str, JsVal)>| JsVal::Obj(kv.into_iter().map(|(k, v)| (k.to_string(), v)).collect(), crate::jsval::Proto::Plain);
    let st = |x: &str| JsVal::Str(x.to_string());
    let n1 = JsVal::num("1");
    vec![
        st("a"),
        st("x"),
        n1.clone(),
        JsVal::num("2"),
        JsVal::Bool(true),
        JsVal::Null,
        JsVal::Undef,
        JsVal::Arr(vec![]),
        JsVal::Arr(vec![st("a")]),
        JsVal::Arr(vec![n1.clone()]),
        JsVal::Arr(vec![JsVal::Null]),
        JsVal::Arr(vec![JsVal::Arr(vec![])]),
        o(vec![]),
        o(vec![("a", st("a"))]),
        o(vec![("a", n1.clone())]),
        o(vec![("a", JsVal::Null)]),
        o(vec![("a", st("a")), ("b", st("a"))]),
        o(vec![("a", st("a")), ("b", n1.clone())]),
        o(vec![("a", o(vec![("a", st("a"))]))]),
        o(vec![("a", o(vec![("a", n1.clone())]))]),
        o(vec![("a", JsVal::Arr(vec![]))]),
        o(vec![("a", JsVal::Arr(vec![st("a")]))]),
        o(vec![("a", st("a")), ("b", st("a")), ("n", JsVal::Null)]),
        o(vec![("a", n1.clone()), ("b", n1.clone()), ("n", n1)]),
    ]
}

fn digest_string(s: &mut Src, len: usize) -> String {
    // mixes 1-, 2-, 3- and 4-byte UTF-8 sequences
    let alphabet = ["a", "Z", "0", "-", "é", "ß", "€", "漢", "東", "京", "の", "😀", "\n", "\u{0}", "\"", "\\"];
    let mut out = String::new();
    let mut bytes = 0;
    while bytes < len {
        let c = *s.pick(&alphabet);
        if bytes + c.len() > len {
            out.push('x');
            bytes += 1;
        } else {
            out.push_str(c);
            bytes += c.len();
        }
    }
    out
}

fn sweep_ops(total_payload: usize, variant: usize) -> Vec<Value> {
    // one string write whose UTF-8 payload has exactly `total_payload` bytes (the stream is 5 bytes longer)
    let unit = ["a", "é", "€", "😀"][variant % 4];
    let mut st = String::new();
    while st.len() + unit.len() <= total_payload {
        st.push_str(unit);
    }
    while st.len() < total_payload {
        st.push('x');
    }
    match variant / 4 {
        0 => vec![json!({"o":"str","v":st})],
        1 => vec![json!({"o":"tag","v":"t"}), json!({"o":"str","v":st}), json!({"o":"bool","v":true})],
        _ => {
            // split into two writes around a block boundary
            let cut = st.char_indices().map(|(i, _)| i).filter(|i| *i <= st.len() / 2).last().unwrap_or(0);
            vec![json!({"o":"str","v":st[..cut].to_string()}), json!({"o":"null"}), json!({"o":"str","v":st[cut..].to_string()})]
        }
    }
}

pub struct C13;
impl C13 {
    /// Ok(0): judged against the tapped byte stream; Ok(1): stream not observable, digest explained by the documented
    /// encoding; Ok(2): neither
    fn check_digest(&self, ops: &[Value], ctx: &mut Ctx, out: &mut Outcome) -> Result<u8, String> {
        let resp = node_case(ctx, None, vec![json!({"q":"digest","ops":ops})])?;
        let r = &resp["results"][0];
        out.evals += 1;
        if let Some(e) = r.get("error") {
            return Err(format!("digest tap unavailable: {}", e));
        }
        if let Some(t) = r.get("threw") {
            out.mismatch(ctx, "digest_threw", format!("Hash256Writer threw: {}", t), json!({"ops": ops}));
            return Ok(0);
        }
        let mut status = 0u8;
        let tap_complete = r["tapComplete"] == json!(true);
        if tap_complete {
            if r["got"] != r["want"] {
                out.mismatch(
                    ctx,
                    "digest_is_not_sha256",
                    format!("digestHex() is not the SHA-256 of the {} bytes written ({} vs {})", r["bytes"], r["got"], r["want"]),
                    json!({"ops": ops, "bytes": r["bytes"], "got": r["got"], "want": r["want"]}),
                );
            }
        } else if r["got"] == r["model"] {
            // the byte stream is not observable any more (the writer no longer funnels through one method), but the
            // digest is the SHA-256 of the documented encoding of what was written
            out.label("digest_explained_by_reference_encoding");
            status = 1;
        } else {
            // neither observable nor the documented encoding: nothing to compare with (an implementation may change both)
            out.label("digest_unobservable");
            status = 2;
        }
        if r["insensitive"].as_array().map(|a| !a.is_empty()).unwrap_or(false) {
            out.mismatch(
                ctx,
                "digest_ignores_part_of_a_string",
                format!("changing one character of a written string does not change the digest: {}", r["insensitive"]),
                json!({"ops": ops, "insensitive": r["insensitive"]}),
            );
        }
        let bytes = r["bytes"].as_u64().unwrap_or(0);
        out.label(format!("digest_len_mod64:{}", if bytes % 64 >= 55 { "padding_boundary" } else { "plain" }));
        Ok(status)
    }
}

impl C13 {
    fn check_confusable(&self, prefix: &str, tail: &[Value], ctx: &mut Ctx, out: &mut Outcome) -> Result<(), String> {
        let resp = node_case(ctx, None, vec![json!({"q":"confusable","prefix":prefix,"tail":tail})])?;
        let r = &resp["results"][0];
        out.evals += 1;
        if let Some(t) = r.get("threw") {
            out.mismatch(ctx, "digest_threw", format!("Hash256Writer threw: {}", t), json!({"prefix": prefix, "tail": tail}));
            return Ok(());
        }
        if r.get("skipped").is_some() {
            out.label("confusable_skipped");
            return Ok(());
        }
        out.label("confusable_judged");
        if r["same"] == json!(true) {
            out.mismatch(
                ctx,
                "digest_encoding_not_uniquely_decodable",
                format!(
                    "one string of {} bytes and the writes [string of {} bytes, then {} more writes] get the same digest {}: the encoding of what is written is not uniquely decodable (two different structures, one digest)",
                    r["singleLength"],
                    prefix.len(),
                    tail.len(),
                    r["digest"]
                ),
                json!({"prefix": prefix, "tail": tail, "single_string_bytes": r["singleLength"], "tail_bytes": r["tailBytes"]}),
            );
        }
        Ok(())
    }
}

/// tail of 2-5 short ASCII strings whose encodings (by the documented format: 5 bytes of header each) add up to `total` bytes
fn confusable_tail(total: usize) -> Vec<Value> {
    let mut r = 2;
    while total > r * (5 + 120) {
        r += 1;
    }
    let payload = total.saturating_sub(5 * r);
    (0..r).map(|i| json!({"o":"str","v":"q".repeat(payload / r + if i < payload % r { 1 } else { 0 })})).collect()
}

impl Check for C13 {
    fn id(&self) -> &'static str {
        "C13"
    }
    fn cases(&self, tier: Tier) -> u32 {
        match tier {
            Tier::Quick => 6000,
            Tier::Thorough => 200_000,
        }
    }
    fn stream_len(&self) -> usize {
        2500
    }
    fn rule(&self) -> String {
        "part A (digest routine): write sequences of updateTag/String/Number/Boolean/Null; the worker wraps the instance's updateBytes to capture the exact byte stream and compares digestHex() with node:crypto SHA-256 over those bytes; deterministic sweep of every payload length 0..300 x {1,2,3,4-byte UTF-8} x {single write, surrounded, split} (exhaustive for those lengths) + random sequences up to ~2 KB. Part B: (i) equal pairs - one denotation printed twice with renaming, alias introduction/inlining, property/member/declaration order, comments/JSDoc: hash256 and hash must be equal; (ii) one-edit mutants of a type (optionality, rest element, literal, key, tuple order, union member, discriminator, format chain) compiled plainly: when some generated value is accepted by exactly one of the two validators, the digests must differ; (iii) recursive and mutually recursive types must hash (termination) and alpha-renamed ones agree (covered by the renaming rewrite of (i)). Non-trivial = a digest sequence crossing a 64-byte block boundary, an equal pair with >=2 rewrites applied, or a mutant pair with a separating value. Distinct = hash(case).".into()
    }
    fn assumptions(&self) -> Vec<String> {
        vec![
            "the byte stream is what updateBytes receives (TypeScript `private` is erased at run time)".into(),
            "collision freedom is only tested in the direction 'behaviour differs => digest differs' on pairs one edit apart".into(),
        ]
    }
    fn health(&self) -> Vec<(&'static str, f64)> {
        vec![("part:digest", 0.2), ("part:equal", 0.2), ("part:mutant", 0.2), ("mutant_separated", 0.08)]
    }
    fn deterministic(&self, ctx: &mut Ctx, _tier: Tier) -> Vec<Outcome> {
        let mut out = Outcome::default();
        out.label("digest_sweep_0_300");
        // per variant: how each length was judged (see check_digest)
        let mut status: Vec<Vec<u8>> = vec![vec![]; 12];
        for len in 0..=300usize {
            for variant in 0..12 {
                let ops = sweep_ops(len, variant);
                match self.check_digest(&ops, ctx, &mut out) {
                    Err(e) => return vec![Outcome::infra(e)],
                    Ok(st) => status[variant].push(st),
                }
                if out.violation.is_some() {
                    out.sample = Some(serde_json::to_value(C13Case::Digest { ops }).unwrap());
                    return vec![out];
                }
            }
        }
        // When the byte stream cannot be tapped, a digest that is not the SHA-256 of the documented encoding may belong to
        // a changed encoding - but an encoding is one function of what is written: it cannot agree with the documented one
        // for payloads of n-1 and n+1 bytes of the same shape and differ at n.  A few isolated lengths that are not
        // explained, between neighbours that are, are a digest routine that breaks at particular stream lengths.
        for (variant, st) in status.iter().enumerate() {
            let isolated: Vec<usize> = (1..st.len().saturating_sub(1)).filter(|&i| st[i] == 2 && st[i - 1] == 1 && st[i + 1] == 1).collect();
            let unexplained = st.iter().filter(|x| **x == 2).count();
            if !isolated.is_empty() && unexplained * 20 <= st.len() {
                let ops = sweep_ops(isolated[0], variant);
                out.mismatch(
                    ctx,
                    "digest_breaks_at_particular_lengths",
                    format!("digestHex() is the SHA-256 of the documented encoding for payloads of {} and {} bytes but not for {} bytes (same writes otherwise; {} such lengths in 0..=300)", isolated[0] - 1, isolated[0] + 1, isolated[0], isolated.len()),
                    json!({"ops": ops, "variant": variant, "lengths": isolated}),
                );
                out.sample = Some(serde_json::to_value(C13Case::Digest { ops }).unwrap());
                return vec![out];
            }
        }
        // unique decodability: tails whose encodings take 10..=700 bytes behind prefixes of 0..=9 bytes
        for total in 10..=700usize {
            for plen in [0usize, 1, 2, 3, 5, 9] {
                let prefix = "p".repeat(plen);
                let tail = confusable_tail(total);
                if let Err(e) = self.check_confusable(&prefix, &tail, ctx, &mut out) {
                    return vec![Outcome::infra(e)];
                }
                if out.violation.is_some() {
                    out.sample = Some(serde_json::to_value(C13Case::Confusable { prefix, tail }).unwrap());
                    return vec![out];
                }
            }
        }
        out.nontrivial = Some(fp(&"digest_sweep_0_300"));
        out.sample = Some(json!({"sweep": "payload lengths 0..=300 x 12 variants", "exhaustive_for_those_lengths": true}));
        vec![out]
    }
    fn generate(&self, s: &mut Src, _tier: Tier) -> Value {
        let case = match s.below(7) {
            6 => {
                // the README's pattern for runtime recursive types: createNamedType(name, placeholder), parsers that
                // mention it, overrideNamedType(name, real type); digests may be read at any point
                let n_names = s.range(1, 2);
                let mut names: Vec<String> = vec![];
                let mut built: Vec<String> = vec![];
                let mut ops: Vec<Value> = vec![];
                for i in 0..n_names {
                    let name = format!("N{}", i);
                    let spec = if s.chance(1, 2) { json!({"k":"unknown"}) } else { gen_history_spec(s, 1, &names, &built) };
                    ops.push(json!({"op":"create","name":name,"spec":spec}));
                    names.push(name);
                }
                let steps = s.range(3, 9);
                for _ in 0..steps {
                    match s.below(7) {
                        0 | 1 => {
                            let id = format!("p{}", built.len());
                            let spec = gen_history_spec(s, 2, &names, &built);
                            ops.push(json!({"op":"build","id":id,"spec":spec}));
                            built.push(id);
                        }
                        2 | 3 => {
                            let name = names[s.below(names.len())].clone();
                            let spec = gen_history_spec(s, 2, &names, &built);
                            ops.push(json!({"op":"override","name":name,"spec":spec}));
                        }
                        _ => {
                            let all: Vec<&String> = names.iter().chain(built.iter()).collect();
                            let id = all[s.below(all.len())].clone();
                            ops.push(json!({"op":"observe","id":id}));
                        }
                    }
                }
                C13Case::BHistory { ops, values: history_value_pool() }
            }
            0 | 3 => {
                let n = s.range(1, 12);
                let mut ops = vec![];
                for _ in 0..n {
                    ops.push(match s.below(6) {
                        0 => json!({"o":"tag","v": digest_string(s, 0) + *s.pick(&["object", "tuple", "anyOf", "", "beff-hash256-v1"])}),
                        1 | 2 => {
                            let len = *s.pick(&[0usize, 1, 3, 50, 51, 55, 56, 58, 59, 60, 63, 64, 65, 119, 120, 128, 200, 500]);
                            let jitter = s.below(4);
                            json!({"o":"str","v": digest_string(s, len + jitter)})
                        }
                        3 => json!({"o":"num","v": JsVal::num(*s.pick(&["0", "-0", "1", "1.5", "NaN", "Infinity", "-Infinity", "1e21", "123456789", "0.1"])).to_tagged()}),
                        4 => json!({"o":"bool","v": s.below(2) == 1}),
                        _ => json!({"o":"null"}),
                    });
                }
                C13Case::Digest { ops }
            }
            1 | 4 => {
                let cfg = GenCfg::default();
                let (env, roots) = gen_env_and_roots(s, &cfg, 1);
                let roots: Vec<(String, D)> = roots.into_iter().enumerate().map(|(i, d)| (format!("P{}", i), d)).collect();
                // hash256 must not depend on names; the 32-bit hash() is only promised to ignore property order, alias
                // boundaries, member order and comments, so it is compared on pairs without renaming
                let with_rename = s.chance(1, 2);
                let mut feats = vec![Feat::Order, Feat::Alias, Feat::Jsdoc, Feat::InlineRef];
                if with_rename {
                    feats.push(Feat::Rename);
                }
                let rc = RenderCfg { feats, eagerness: 3 };
                let (p1, r1) = render_program(&env, &roots, rc.clone(), s, "");
                let (p2, mut r2) = render_program(&env, &roots, rc, s, "");
                let p2 = if with_rename {
                    r2.used.insert("parser_renamed".into(), 1);
                    p2.replace("  P0:", "  Renamed0:")
                } else {
                    p2
                };
                C13Case::Equal(PairOfPrograms { env, roots, p1, p2, used1: r1.used, used2: r2.used, values: vec![] })
            }
            _ => {
                let cfg = GenCfg { max_defs: 1, ..GenCfg::default() };
                let (env, roots) = gen_env_and_roots(s, &cfg, 1);
                let mut d1 = roots[0].clone();
                let mut d2 = crate::den::mutate_type(&d1, s, &cfg, env.defs.len());
                // now and then the one edit is the optionality of an index-signature value
                // (Record<string, T> vs Partial<Record<string, T>>), at the root or under a property
                if s.chance(1, 8) {
                    let t = match s.below(3) {
                        0 => D::Num,
                        1 => D::Str,
                        _ => D::obj(vec![("a", D::Str, false)]),
                    };
                    let rec = |v: D| D::Object { props: vec![], index: Some(Box::new(v)) };
                    let (a, b) = (rec(t.clone()), rec(D::Union(vec![t, D::Undefined])));
                    if s.chance(1, 2) {
                        d1 = a;
                        d2 = b;
                    } else {
                        d1 = D::obj(vec![("k", a, false), ("n", D::Num, false)]);
                        d2 = D::obj(vec![("k", b, false), ("n", D::Num, false)]);
                    }
                }
                // ... or a string format against the number format of the same name (different types, same format names)
                if s.chance(1, 10) {
                    let (a, b) = (D::StrFmt(vec![crate::den::SHARED_FORMAT.to_string()]), D::NumFmt(vec![crate::den::SHARED_FORMAT.to_string()]));
                    if s.chance(1, 2) {
                        d1 = a;
                        d2 = b;
                    } else {
                        d1 = D::obj(vec![("id", a, false), ("n", D::Num, false)]);
                        d2 = D::obj(vec![("id", b, false), ("n", D::Num, false)]);
                    }
                }
                // ... or two template literal types one of which has, as literal text, what the other has as syntax:
                // a placeholder against its own spelling (`${string}` as text), with the characters that would escape it
                if s.chance(1, 10) {
                    use crate::den::TplPart;
                    let (ph, name) = match s.below(3) {
                        0 => (TplPart::Str, "string"),
                        1 => (TplPart::Num, "number"),
                        _ => (TplPart::Bool, "boolean"),
                    };
                    // (the text before it is chosen independently on the two sides: an escape character in front of the
                    // syntax is the classic way for it to read like the text)
                    const LEADS: [&str; 6] = ["\\", "", "`", "a", "\\\\", "$"];
                    let lead = *s.pick(&LEADS);
                    let lead_text = if s.chance(1, 2) { lead } else { *s.pick(&LEADS) };
                    let tail: Vec<TplPart> = match s.below(3) {
                        0 => vec![],
                        1 => vec![TplPart::Num],
                        _ => vec![TplPart::Lit("-".into()), TplPart::Str],
                    };
                    let mut as_syntax = vec![];
                    if !lead.is_empty() {
                        as_syntax.push(TplPart::Lit(lead.to_string()));
                    }
                    as_syntax.push(ph);
                    as_syntax.extend(tail.clone());
                    // the second type needs a placeholder to be a template at all
                    let mut as_text = vec![TplPart::Lit(format!("{}${{{}}}", lead_text, name))];
                    as_text.extend(tail);
                    if !as_text.iter().any(|p| !matches!(p, TplPart::Lit(_))) {
                        as_text.push(TplPart::Str);
                        as_syntax.push(TplPart::Str);
                    }
                    let (a, b) = (D::Tpl(as_syntax), D::Tpl(as_text));
                    if s.chance(1, 2) {
                        d1 = a;
                        d2 = b;
                    } else {
                        d1 = D::obj(vec![("id", a, false)]);
                        d2 = D::obj(vec![("id", b, false)]);
                    }
                }
                // utility spellings matter here: Partial<...>, optional mapped members and Record are compiled to
                // wrappers of their own (optional-field, index signature) whose presence must show in the digest
                let rc = RenderCfg { feats: vec![Feat::Utility], eagerness: 4 };
                let (p1, _) = render_program(&env, &[("P0".into(), d1.clone())], rc.clone(), s, "");
                let (p2, _) = render_program(&env, &[("P0".into(), d2.clone())], rc, s, "");
                let mut values: Vec<JsVal> = vec![];
                for d in [&d1, &d2] {
                    for (v, _) in gen_values(&env, d, s, Mode::Open, 8, 6, 2) {
                        values.push(v);
                    }
                }
                C13Case::Mutant { env, d1, d2, p1, p2, values }
            }
        };
        serde_json::to_value(case).unwrap()
    }
    fn exec(&self, case: &Value, ctx: &mut Ctx) -> Outcome {
        let case: C13Case = match serde_json::from_value(case.clone()) {
            Ok(c) => c,
            Err(e) => return Outcome::infra(format!("bad case: {}", e)),
        };
        let mut out = Outcome::default();
        match case {
            C13Case::Digest { ops } => {
                out.label("part:digest");
                if let Err(e) = self.check_digest(&ops, ctx, &mut out) {
                    return Outcome::infra(e);
                }
                let approx: usize = ops.iter().map(|o| o["v"].as_str().map(|s| s.len() + 5).unwrap_or(6)).sum();
                if approx > 64 {
                    out.nontrivial = Some(fp(&serde_json::to_string(&ops).unwrap()));
                    out.sample = Some(json!({"digest_ops": ops.iter().take(4).collect::<Vec<_>>(), "approx_bytes": approx}));
                }
            }
            C13Case::Confusable { prefix, tail } => {
                out.label("part:digest");
                if let Err(e) = self.check_confusable(&prefix, &tail, ctx, &mut out) {
                    return Outcome::infra(e);
                }
            }
            C13Case::Equal(pp) => {
                out.label("part:equal");
                let renamed = pp.used2.contains_key("parser_renamed");
                let roots2: Vec<(String, D)> = pp.roots.iter().map(|(n, d)| (if renamed { n.replace('P', "Renamed") } else { n.clone() }, d.clone())).collect();
                let empty_vals: Vec<Vec<(JsVal, String)>> = pp.roots.iter().map(|_| vec![]).collect();
                let a = match run_program(ctx, &pp.p1, &pp.roots, &empty_vals, &mut out, "C13") {
                    Ok(x) => x,
                    Err(e) => return Outcome::infra(e),
                };
                let b = match run_program(ctx, &pp.p2, &roots2, &empty_vals, &mut out, "C13") {
                    Ok(x) => x,
                    Err(e) => return Outcome::infra(e),
                };
                let (a, b) = match (a, b) {
                    (Some(a), Some(b)) => (a, b),
                    _ => return out,
                };
                out.evals += 1;
                let rewrites: u32 = pp.used1.values().sum::<u32>() + pp.used2.values().sum::<u32>();
                if rewrites >= 2 {
                    out.nontrivial = Some(fp(&(pp.p1.clone(), pp.p2.clone())));
                    out.sample = Some(json!({"equal_pair": {"p1": pp.p1, "p2": pp.p2}, "hash256": a.hash256[0]["r"]}));
                }
                for i in 0..pp.roots.len() {
                    let d = &pp.roots[i].1;
                    if let Some(t) = a.hash256[i].get("threw").or(b.hash256[i].get("threw")) {
                        out.mismatch(ctx, "hash256_threw", format!("hash256() threw: {}", t), json!({"p1": pp.p1, "p2": pp.p2}));
                        continue;
                    }
                    if a.hash256[i]["r"] != b.hash256[i]["r"] {
                        let class = token_diff_class(&a.hash256[i], &b.hash256[i], &pp.env, d);
                        out.mismatch(ctx, &format!("hash256_differs:{}", class), "hash256 differs between two spellings that differ only in names, alias boundaries, order or comments", json!({"p1": pp.p1, "p2": pp.p2, "type": d}));
                    }
                    if !renamed && a.hash[i]["r"] != b.hash[i]["r"] {
                        // located through the hash256 encodings of the same two validators
                        let class = token_diff_class(&a.hash256[i], &b.hash256[i], &pp.env, d);
                        out.mismatch(ctx, &format!("hash_differs:{}", class), "hash() differs between two spellings that differ only in names, alias boundaries, order or comments", json!({"p1": pp.p1, "p2": pp.p2, "type": d}));
                    }
                }
            }
            C13Case::BHistory { ops, values } => {
                out.label("part:b_history");
                let tagged: Vec<Value> = values.iter().map(|v| v.to_tagged()).collect();
                let resp = match node_case(ctx, None, vec![json!({"q":"bHistory","ops":ops,"values":tagged})]) {
                    Ok(r) => r,
                    Err(e) => return Outcome::infra(e),
                };
                let r = &resp["results"][0];
                out.evals += 1;
                if let Some(t) = r.get("threw") {
                    // a cyclic structure without a named type in the cycle cannot arise from these ops; building never throws
                    out.mismatch(ctx, "b_history_threw", format!("the history threw: {}", t), json!({"ops": ops}));
                    return out;
                }
                let observed_something = r["observations"].as_array().map(|a| !a.is_empty()).unwrap_or(false);
                let overrides = ops.iter().filter(|o| o["op"] == "override").count();
                if observed_something && overrides > 0 {
                    out.nontrivial = Some(fp(&serde_json::to_string(&ops).unwrap()));
                    out.sample = Some(json!({"history": ops}));
                }
                let empty = serde_json::Map::new();
                // (1) the digests at the end are those of the final structure, whatever was read on the way
                for (id, fin) in r["finals"].as_object().unwrap_or(&empty) {
                    let fresh = &r["fresh"][id];
                    // (the 32-bit hash() may depend on type names, and a name cannot be registered twice in one process:
                    // only hash256, which is name-free, can be compared between the two runs)
                    for (k, sig) in [("hash256", "b_history_hash256_depends_on_observations")] {
                        if fin[k] != fresh[k] {
                            out.mismatch(ctx, sig, format!("{}() of {} after the history differs from {}() of the same structure built without reading digests on the way ({} vs {})", k, id, k, fin[k], fresh[k]), json!({"ops": ops, "id": id}));
                        }
                    }
                    if fin["validate"] != fresh["validate"] {
                        return Outcome::infra(format!("the two runs of one history validate differently: {} vs {}", fin["validate"], fresh["validate"]));
                    }
                }
                // (2) two states of one parser that disagree on a value have different digests
                let mut by_id: BTreeMap<String, Vec<&Value>> = BTreeMap::new();
                for o in r["observations"].as_array().map(|a| a.as_slice()).unwrap_or(&[]) {
                    by_id.entry(o["id"].as_str().unwrap_or("").to_string()).or_default().push(o);
                }
                for (id, fin) in r["finals"].as_object().unwrap_or(&empty) {
                    by_id.entry(id.clone()).or_default().push(fin);
                }
                for (id, snaps) in &by_id {
                    for i in 0..snaps.len() {
                        for j in i + 1..snaps.len() {
                            let (x, y) = (snaps[i], snaps[j]);
                            if x["validate"] != y["validate"] && x["hash256"].is_string() && x["hash256"] == y["hash256"] {
                                out.label("history_separated");
                                out.mismatch(ctx, "b_history_different_behaviour_same_hash256", format!("{} validates differently at two points of the history but reports the same hash256", id), json!({"ops": ops, "id": id, "first": x, "second": y}));
                            } else if x["validate"] != y["validate"] {
                                out.label("history_separated");
                            }
                        }
                    }
                }
            }
            C13Case::Mutant { env, d1, d2, p1, p2, values } => {
                out.label("part:mutant");
                let roots1 = vec![("P0".to_string(), d1.clone())];
                let roots2 = vec![("P0".to_string(), d2.clone())];
                let vals = vec![values.iter().map(|v| (v.clone(), String::new())).collect::<Vec<_>>()];
                let a = match run_program(ctx, &p1, &roots1, &vals, &mut out, "C13") {
                    Ok(x) => x,
                    Err(e) => return Outcome::infra(e),
                };
                let b = match run_program(ctx, &p2, &roots2, &vals, &mut out, "C13") {
                    Ok(x) => x,
                    Err(e) => return Outcome::infra(e),
                };
                let (a, b) = match (a, b) {
                    (Some(a), Some(b)) => (a, b),
                    _ => return out,
                };
                out.evals += values.len() as u64;
                let mut separating: Option<&JsVal> = None;
                for (j, v) in values.iter().enumerate() {
                    let (x, y) = (&a.matrices[0][j][0], &b.matrices[0][j][0]);
                    if x.is_i64() && y.is_i64() && x != y {
                        separating = Some(v);
                        break;
                    }
                }
                if let Some(v) = separating {
                    out.label("mutant_separated");
                    out.nontrivial = Some(fp(&(p1.clone(), p2.clone())));
                    out.sample = Some(json!({"mutant_pair": {"p1": p1, "p2": p2}, "separating_value": v.to_tagged(), "hash256_1": a.hash256[0]["r"], "hash256_2": b.hash256[0]["r"]}));
                    if a.hash256[0]["r"] == b.hash256[0]["r"] && a.hash256[0]["r"].is_string() {
                        out.mismatch(
                            ctx,
                            "different_behaviour_same_hash256",
                            "two validators disagree on a value but report the same hash256",
                            json!({"p1": p1, "p2": p2, "value": v, "value_tagged": v.to_tagged(), "hash256": a.hash256[0]["r"], "env": env, "d1": d1, "d2": d2}),
                        );
                    }
                }
            }
        }
        out
    }
}

// ------------------------------------------------------------------------------------------------
// C15 — describe() prints TypeScript that compiles back to the same validator
// ------------------------------------------------------------------------------------------------
pub struct C15;

fn declared_names(text: &str) -> Vec<String> {
    let mut out = vec![];
    for line in text.lines() {
        let l = line.trim_start();
        if let Some(rest) = l.strip_prefix("type ") {
            let name: String = rest.chars().take_while(|c| c.is_alphanumeric() || *c == '_' || *c == '$').collect();
            if !name.is_empty() {
                out.push(name);
            }
        }
    }
    out
}

impl Check for C15 {
    fn fuzz_runs(&self) -> u64 {
        10000
    }
    fn id(&self) -> &'static str {
        "C15"
    }
    fn cases(&self, tier: Tier) -> u32 {
        match tier {
            Tier::Quick => 5000,
            Tier::Thorough => 80_000,
        }
    }
    fn stream_len(&self) -> usize {
        2500
    }
    fn rule(&self) -> String {
        "case = program from the C01 generator (all families: non-identifier keys, recursive and mutually recursive types, generic instances, records, tuple rests, non-JSON builtins, formats, templates) + ~20 values per parser. Oracle (round trip): describe() returns; its text followed by parse.buildParsers<{P: CodecP}>() compiles without diagnostics; the second-generation validator agrees with the first on every value (default and strict) and on hash256; every alias in the text is declared exactly once. Non-trivial = the type contains one of the hard families (non-identifier key, recursion, record/index signature, tuple rest, non-JSON builtin, format, template, intersection). Distinct = hash(program).".into()
    }
    fn assumptions(&self) -> Vec<String> {
        vec!["describe() output is judged as beff input (not by tsc, which is not available offline)".into()]
    }
    fn health(&self) -> Vec<(&'static str, f64)> {
        vec![("described", 0.5), ("second_generation_ran", 0.3)]
    }
    fn generate(&self, s: &mut Src, _tier: Tier) -> Value {
        let cfg = GenCfg::default();
        let case = crate::c01::gen_typed_case(s, &cfg, RenderCfg::all(), Mode::Open, 2, (8, 7, 5));
        serde_json::to_value(case).unwrap()
    }
    fn exec(&self, case: &Value, ctx: &mut Ctx) -> Outcome {
        let case: crate::c01::TypedCase = match serde_json::from_value(case.clone()) {
            Ok(c) => c,
            Err(e) => return Outcome::infra(format!("bad case: {}", e)),
        };
        let mut out = Outcome::default();
        let mut scratch = Outcome::default();
        let code = match compile_case(&case.program, &mut scratch, ctx, "C15") {
            Some(c) => c,
            None => {
                if scratch.infra.is_some() {
                    return scratch;
                }
                out.label("compile_failed_skipped");
                return out;
            }
        };
        let mut queries = vec![];
        for (i, (name, _)) in case.roots.iter().enumerate() {
            queries.push(json!({"q":"describe","parser":name}));
            queries.push(json!({"q":"validateMany","parser":name,"values": case.values[i].iter().map(|(v,_)| v.to_tagged()).collect::<Vec<_>>(), "optsList":[null, {"strict": true}]}));
            queries.push(json!({"q":"hash256","parser":name,"tokens":true}));
        }
        let resp = match node_case(ctx, Some(&code), queries) {
            Ok(r) => r,
            Err(e) => return Outcome::infra(e),
        };
        if resp.get("loadError").is_some() {
            out.label("load_error_skipped");
            return out;
        }
        for (i, (name, d)) in case.roots.iter().enumerate() {
            let desc = &resp["results"][3 * i];
            let m1 = &resp["results"][3 * i + 1]["m"];
            let h1 = &resp["results"][3 * i + 2]["r"];
            let family = hard_family(&case.env, d);
            if let Some(f) = family {
                out.label(format!("family:{}", f));
            }
            out.evals += 1;
            let text = match desc["r"].as_str() {
                Some(t) => t.to_string(),
                None => {
                    out.mismatch(ctx, "describe_threw", format!("{}: describe() threw {}", name, desc["threw"]), json!({"program": case.program, "parser": name}));
                    continue;
                }
            };
            out.label("described");
            // every alias declared exactly once
            let names = declared_names(&text);
            let mut sorted = names.clone();
            sorted.sort();
            sorted.dedup();
            if sorted.len() != names.len() {
                out.mismatch(ctx, "alias_declared_twice", format!("{}: describe() declares an alias more than once", name), json!({"program": case.program, "parser": name, "described": text}));
            }
            let program2 = format!("{}\nexport const Parsers = parse.buildParsers<{{ {}: Codec{} }}>();\n", text, name, name);
            let c2 = match ctx.compiler.compile(&crate::compile::Project::single(&program2), if ctx.shrinking { 3 } else { 20 }) {
                Ok(c) => c,
                Err(crate::compile::CompileFail::Infra(e)) => return Outcome::infra(e),
                Err(_) => {
                    out.mismatch(ctx, "described_text_crashes_compiler", format!("{}: the described text makes the compiler crash or hang", name), json!({"program": case.program, "described": text}));
                    continue;
                }
            };
            if c2.panic.is_some() || !c2.diags.is_empty() || c2.code.is_none() {
                let msg = c2.panic.clone().or_else(|| c2.diags.first().map(|d| d.message.clone())).unwrap_or_default();
                out.mismatch(
                    ctx,
                    &format!("described_text_does_not_compile:{}", describe_failure_class(&text, &msg)),
                    format!("{}: the text returned by describe() does not compile: {}", name, msg),
                    json!({"program": case.program, "parser": name, "described": text, "message": msg, "type": d}),
                );
                continue;
            }
            let q2 = vec![
                json!({"q":"validateMany","parser":name,"values": case.values[i].iter().map(|(v,_)| v.to_tagged()).collect::<Vec<_>>(), "optsList":[null, {"strict": true}]}),
                json!({"q":"hash256","parser":name,"tokens":true}),
            ];
            let resp2 = match node_case(ctx, Some(c2.code.as_ref().unwrap()), q2) {
                Ok(r) => r,
                Err(e) => return Outcome::infra(e),
            };
            if resp2.get("loadError").is_some() {
                out.mismatch(ctx, "described_module_does_not_load", format!("{}: the module compiled from describe() does not load", name), json!({"program": case.program, "described": text}));
                continue;
            }
            out.label("second_generation_ran");
            if family.is_some() {
                out.nontrivial = Some(fp(&case.program));
                out.sample = Some(json!({"program": case.program, "parser": name, "described": text}));
            }
            let m2 = &resp2["results"][0]["m"];
            for (j, (v, _)) in case.values[i].iter().enumerate() {
                for (mode, idx) in [("default", 0), ("strict", 1)] {
                    let (x, y) = (&m1[j][idx], &m2[j][idx]);
                    if x.is_i64() && y.is_i64() && x != y {
                        let has = |pred: &dyn Fn(&D) -> bool| d.any_node(&mut |n| pred(n)) || case.env.defs.iter().any(|(_, x)| x.any_node(&mut |n| pred(n)));
                        let suffix = if has(&|n| matches!(n, D::Tpl(parts) if parts.iter().any(|p| matches!(p, crate::den::TplPart::OneOf(_))))) {
                            ":template_union_placeholder"
                        } else if mode == "strict" && ((has(&|n| matches!(n, D::Inter(_))) && case.used.contains_key("inter_unmerged_or_named")) || case.used.keys().any(|k| k.starts_with("extends_named:"))) {
                            ":intersection_member_named_or_inline"
                        } else {
                            ""
                        };
                        let sig = if suffix == ":template_union_placeholder" { "second_generation_disagrees:template_union_placeholder".to_string() } else { format!("second_generation_disagrees:{}{}", mode, suffix) };
                        out.mismatch(
                            ctx,
                            &sig,
                            format!("{}: the validator compiled from describe() disagrees with the original in {} mode ({} vs {})", name, mode, x, y),
                            json!({"program": case.program, "parser": name, "described": text, "value": v, "value_tagged": v.to_tagged(), "type": d}),
                        );
                    }
                }
            }
            let h2 = &resp2["results"][1]["r"];
            let tpl_oneof = d.any_node(&mut |n| matches!(n, D::Tpl(parts) if parts.iter().any(|p| matches!(p, crate::den::TplPart::OneOf(_)))))
                || case.env.defs.iter().any(|(_, x)| x.any_node(&mut |n| matches!(n, D::Tpl(parts) if parts.iter().any(|p| matches!(p, crate::den::TplPart::OneOf(_))))));
            if h1 != h2 && tpl_oneof {
                out.mismatch(ctx, "second_generation_disagrees:template_union_placeholder", format!("{}: hash256 changes through describe() ({} vs {})", name, h1, h2), json!({"program": case.program, "parser": name, "described": text, "type": d}));
            } else if h1 != h2 {
                out.mismatch(ctx, &format!("second_generation_hash256_differs:{}", token_diff_class(&resp["results"][3 * i + 2], &resp2["results"][1], &case.env, d)), format!("{}: hash256 changes through describe() ({} vs {})", name, h1, h2), json!({"program": case.program, "parser": name, "described": text, "type": d}));
            }
        }
        out
    }
}

fn hard_family(env: &Env, d: &D) -> Option<&'static str> {
    let mut fam: Option<&'static str> = None;
    let mut visit = |x: &D| {
        x.any_node(&mut |n| {
            let f = match n {
                D::Object { props, .. } if props.iter().any(|p| !p.key.chars().all(|c| c.is_ascii_alphabetic())) => Some("non_identifier_key"),
                D::Object { index: Some(_), .. } => Some("index_signature"),
                D::Tuple(_, Some(_)) => Some("tuple_rest"),
                D::Date | D::BigInt | D::Map(_, _) | D::Set(_) | D::TypedArray(_) => Some("non_json_builtin"),
                D::StrFmt(_) | D::NumFmt(_) => Some("format"),
                D::Tpl(_) => Some("template"),
                D::Inter(_) => Some("intersection"),
                D::Ref(_) => Some("named_or_recursive"),
                _ => None,
            };
            if fam.is_none() {
                fam = f;
            }
            false
        });
    };
    visit(d);
    let _ = env;
    fam
}

fn describe_failure_class(text: &str, msg: &str) -> &'static str {
    if text.contains("BigInt") {
        "bigint_printed_as_BigInt"
    } else if text.contains("[K in ") {
        "index_member_printed_as_mapped_type"
    } else if msg.contains("parse") || msg.contains("find file") {
        "not_parseable"
    } else {
        "other"
    }
}
