//! beffv as a library: the checks, generators and oracles (the binary and the coverage-guided fuzz target link it)
pub mod c01;
pub mod c04;
pub mod c09;
pub mod c02;
pub mod c14;
pub mod c16;
pub mod cjs;
pub mod cpair;
pub mod csem;
pub mod compile;
pub mod den;
pub mod htree;
pub mod jsval;
pub mod member;
pub mod proc;
pub mod render;
pub mod runner;
#[cfg(feature = "engine")]
pub mod sem;
pub mod src;


use runner::Check;
use std::sync::Arc;

pub fn check_by_id(id: &str) -> Option<Arc<dyn Check>> {
    Some(match id {
        "C01" => Arc::new(c01::C01),
        "C03" => Arc::new(cjs::C03),
        "C04" => Arc::new(c04::C04),
        #[cfg(feature = "engine")]
        "C05" => Arc::new(csem::C05),
        #[cfg(feature = "engine")]
        "C06" => Arc::new(csem::C06),
        #[cfg(feature = "engine")]
        "C07" => Arc::new(csem::C07),
        "C08" => Arc::new(cpair::C08),
        "C09" => Arc::new(c09::C09),
        "C10" => Arc::new(c09::C10),
        "C11" => Arc::new(cjs::C11),
        "C13" => Arc::new(cpair::C13),
        "C14" => Arc::new(c14::C14),
        "C02" => Arc::new(c02::C02),
        "C16" => Arc::new(c16::C16),
        "C15" => Arc::new(cpair::C15),
        "C12" => Arc::new(cjs::C12),
        _ => return None,
    })
}

