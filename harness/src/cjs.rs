//! C03 (entry points agree, faithful projection), C11 (strict mode), C12 (decode errors): same typed-case
//! generator as C01, different oracles.
use crate::c01::{compile_case, gen_typed_case, gen_values, node_case, TypedCase};
use crate::den::{gen_env_and_roots, Env, GenCfg, D, TYPED_ARRAYS};
use crate::jsval::{inject_extra_key, JsVal};
use crate::member::{Mode, Ref, Tri};
use crate::render::RenderCfg;
use crate::runner::{fp, Check, Ctx, Outcome, Tier};
use crate::src::Src;
use serde::{Deserialize, Serialize};
use serde_json::{json, Value};

// ------------------------------------------------------------------------------------------------
// b.* specs from denotations (subset)
// ------------------------------------------------------------------------------------------------
pub fn b_cfg() -> GenCfg {
    GenCfg { formats: false, templates: false, never: false, inter: false, index: false, recursion: false, max_depth: 3, max_defs: 0, ..GenCfg::default() }
}
/// D -> spec for worker's buildB; None if the denotation is outside what b.* can build
pub fn b_spec(d: &D, named_budget: &mut u32) -> Option<Value> {
    Some(match d {
        D::Str => json!({"k":"string"}),
        D::Num => json!({"k":"number"}),
        D::Bool => json!({"k":"boolean"}),
        D::Null => json!({"k":"null"}),
        D::Undefined => json!({"k":"undefined"}),
        D::Void => json!({"k":"void"}),
        D::Any => json!({"k":"any"}),
        D::Date => json!({"k":"date"}),
        D::TypedArray(k) => json!({"k":"ta","name":TYPED_ARRAYS[*k]}),
        D::StrLit(s) => json!({"k":"const","v":s}),
        D::BoolLit(b) => json!({"k":"const","v":b}),
        D::NumLit(n) => json!({"k":"const","v": n.parse::<f64>().ok()?}),
        D::Array(x) => {
            let inner = b_spec(x, named_budget)?;
            if *named_budget > 0 && x.depth() >= 1 {
                *named_budget -= 1;
                json!({"k":"array","item": {"k":"named","item": inner}})
            } else {
                json!({"k":"array","item": inner})
            }
        }
        D::Object { props, index: None } => {
            if props.iter().any(|p| p.optional) {
                return None;
            }
            let mut fields = vec![];
            for p in props {
                fields.push(json!([p.key, b_spec(&p.ty, named_budget)?]));
            }
            json!({"k":"object","fields":fields})
        }
        D::Union(ms) => {
            let mut items = vec![];
            for m in ms {
                items.push(b_spec(m, named_budget)?);
            }
            json!({"k":"union","items":items})
        }
        _ => return None,
    })
}

#[derive(Debug, Clone, Serialize, Deserialize)]
pub struct C03Case {
    pub typed: Option<TypedCase>,
    /// b.* validators: (denotation, spec, values)
    pub adhoc: Vec<(D, Value, Vec<(JsVal, String)>)>,
    /// (root index, member, the same member with one certainly-undeclared key added at some object position)
    #[serde(default)]
    pub extras: Vec<(usize, JsVal, JsVal)>,
}

fn opts_list() -> Vec<Value> {
    vec![
        Value::Null,
        json!({"strict": true}),
        json!({"order": "sorted"}),
        json!({"strict": true, "order": "sorted"}),
        json!({"strict": false, "order": "input"}),
    ]
}

pub fn classify_problem(p: &str) -> String {
    let rules: [(&str, &str); 15] = [
        ("Maximum call stack size exceeded", "cyclic_input_stack_overflow"),
        ("is not a function", "c03_discriminator_prototype_lookup"),
        ("Do not know how to serialize a BigInt", "c03_json_stringify_bigint"),
        ("circular structure", "c03_json_stringify_cyclic"),
        ("Map not preserved", "c03_map_set_lost_in_union_merge"),
        ("Set not preserved", "c03_map_set_lost_in_union_merge"),
        ("input is a Map", "c03_map_set_lost_in_union_merge"),
        ("input is a Set", "c03_map_set_lost_in_union_merge"),
        ("objectKeyOrder changed more than key order", "c03_key_order_changes_content"),
        ("objectKeyOrder changed the verdict", "c03_key_order_changes_verdict"),
        ("parse(data) differs from data", "c03_parse_not_idempotent"),
        ("parsed data is rejected", "c03_data_rejected"),
        ("input was mutated", "c03_input_mutated"),
        ("key not present in input", "c03_projection_invented_key"),
        ("INTERNAL ERROR", "c03_internal_error"),
    ];
    for (needle, sig) in rules {
        if p.contains(needle) {
            return sig.to_string();
        }
    }
    let head: String = p.split(':').next().unwrap_or(p).chars().take(60).collect();
    format!("c03:{}", head.replace(' ', "_"))
}

pub struct C03;
impl Check for C03 {
    fn id(&self) -> &'static str {
        "C03"
    }
    fn cases(&self, tier: Tier) -> u32 {
        match tier {
            Tier::Quick => 4000,
            Tier::Thorough => 60_000,
        }
    }
    fn stream_len(&self) -> usize {
        2500
    }
    fn rule(&self) -> String {
        "case = compiled program (C01 generator, all spellings) or b.*/buntyped.Union/createNamedType validators built from a generated spec, x ~20 values per validator (members, near misses, arbitrary incl. hostile keys, cyclic, bigint, symbols) x 5 ParseOptions; oracle = relations evaluated in the Node worker where object identity is visible: success(safeParse)=validate=not throws(parse); only parse's documented Error; validate(data); data is a projection of input (keys exist in input, leaves SameValueZero, Date/Map/Set/typed array/bigint kept); parse(data)==data; key order option changes order only; input fingerprint unchanged. Non-trivial = an accepted value on a union/intersection/record type, or a rejected value containing a hostile key or non-JSON leaf. Distinct = hash(validator source, value).".into()
    }
    fn assumptions(&self) -> Vec<String> {
        vec![
            "projection is judged on own enumerable string keys; Map/Set order and content compared pairwise".into(),
            "the zod() entry point is out of scope (peer dependency stubbed)".into(),
        ]
    }
    fn health(&self) -> Vec<(&'static str, f64)> {
        vec![("has_accept", 0.3), ("has_reject", 0.3)]
    }
    fn generate(&self, s: &mut Src, _tier: Tier) -> Value {
        let adhoc_only = s.chance(1, 4);
        let mut case = C03Case { typed: None, adhoc: vec![], extras: vec![] };
        if !adhoc_only {
            let mut t = gen_typed_case(s, &GenCfg::default(), RenderCfg::all(), Mode::Open, 2, (8, 6, 5));
            // sparse arrays (an element replaced by an empty slot)
            for vs in t.values.iter_mut() {
                let mut extra = vec![];
                for (v, _) in vs.iter().filter(|(_, l)| l == "member").take(2) {
                    if let Some(h) = crate::jsval::punch_hole(v, s) {
                        extra.push((h, "near".to_string()));
                    }
                }
                vs.extend(extra);
            }
            case.typed = Some(t);
        }
        if let Some(t) = &case.typed {
            for (i, _) in t.roots.iter().enumerate() {
                let members: Vec<JsVal> = t.values[i].iter().filter(|(_, l)| l == "member").map(|(v, _)| v.clone()).collect();
                for m in members.iter().take(3) {
                    let e = crate::jsval::inject_key(m, s, "zz_undeclared");
                    if e != *m {
                        case.extras.push((i, m.clone(), e));
                    }
                }
            }
        }
        let n = if adhoc_only { s.range(1, 3) } else { s.range(0, 1) };
        for _ in 0..n {
            let cfg = b_cfg();
            let (env, roots) = gen_env_and_roots(s, &cfg, 1);
            let d = roots[0].clone();
            let mut budget = 1;
            if let Some(spec) = b_spec(&d, &mut budget) {
                // now and then the validator is a named type that was created with another definition, used, and then
                // overridden with this one
                let spec = if s.chance(1, 3) {
                    let first = match s.below(4) {
                        0 => json!({"k":"unknown"}),
                        1 => json!({"k":"string"}),
                        2 => json!({"k":"object","fields":[["a", {"k":"string"}]]}),
                        _ => json!({"k":"array","item":{"k":"number"}}),
                    };
                    json!({"k":"named_ov","first":first,"item":spec})
                } else {
                    spec
                };
                let vals = gen_values(&env, &d, s, Mode::Open, 6, 6, 5);
                case.adhoc.push((d, spec, vals));
            }
        }
        serde_json::to_value(case).unwrap()
    }
    fn exec(&self, case: &Value, ctx: &mut Ctx) -> Outcome {
        let case: C03Case = match serde_json::from_value(case.clone()) {
            Ok(c) => c,
            Err(e) => return Outcome::infra(format!("bad case: {}", e)),
        };
        let mut out = Outcome::default();
        let mut code = None;
        if let Some(t) = &case.typed {
            // compile problems are C01/C04's subject: skip the compiled part, keep the ad-hoc part
            let mut scratch = Outcome::default();
            let strict_ctx_dummy = compile_case(&t.program, &mut scratch, ctx, "C03");
            if scratch.infra.is_some() {
                return scratch;
            }
            code = strict_ctx_dummy;
            if code.is_none() {
                out.label("compile_failed_skipped");
            }
        }
        // (validator description, denotation, env, value, source) per query
        struct Q<'a> {
            desc: Value,
            d: &'a D,
            env: &'a Env,
            v: &'a JsVal,
        }
        let empty_env = Env::default();
        let mut qs: Vec<Q> = vec![];
        let mut queries = vec![];
        if let (Some(t), Some(_)) = (&case.typed, &code) {
            for (i, (name, d)) in t.roots.iter().enumerate() {
                for (v, _) in &t.values[i] {
                    for o in opts_list() {
                        queries.push(json!({"q":"trio","parser":name,"value":v.to_tagged(),"opts":o}));
                        qs.push(Q { desc: json!({"program": t.program, "parser": name, "opts": o}), d, env: &t.env, v });
                    }
                }
            }
        }
        for (d, spec, vals) in &case.adhoc {
            for (v, _) in vals {
                for o in opts_list() {
                    queries.push(json!({"q":"trio","b":spec,"value":v.to_tagged(),"opts":o}));
                    qs.push(Q { desc: json!({"b": spec, "opts": o}), d, env: &empty_env, v });
                }
            }
        }
        if queries.is_empty() {
            return out;
        }
        let resp = match node_case(ctx, code.as_deref(), queries) {
            Ok(r) => r,
            Err(e) => return Outcome::infra(e),
        };
        if resp.get("loadError").is_some() {
            out.label("load_error_skipped");
            return out;
        }
        let results = match resp["results"].as_array() {
            Some(r) => r,
            None => return Outcome::infra(format!("bad worker answer {}", resp)),
        };
        let mut nontrivial = vec![];
        for (q, r) in qs.iter().zip(results.iter()) {
            if let Some(h) = r.get("harnessError") {
                return Outcome::infra(format!("worker harness error: {}", h));
            }
            out.evals += 1;
            let accepted = r["obs"]["validate"] == json!(true);
            if accepted {
                out.label("has_accept");
            } else {
                out.label("has_reject");
            }
            let compound = matches!(Ref::new(q.env, Mode::Open).head(q.d), D::Union(_) | D::Inter(_) | D::Object { index: Some(_), .. });
            if (accepted && compound) || (!accepted && (q.v.has_hostile_key() || q.v.has_non_json_leaf())) {
                nontrivial.push(fp(&(q.desc.to_string(), serde_json::to_string(q.v).unwrap())));
            }
            if let Some(ps) = r["problems"].as_array() {
                for p in ps {
                    let p = p.as_str().unwrap_or("");
                    let mut sig = classify_problem(p);
                    // a builtin instance (typed array, Date, Map, Set) that an object-typed member of an intersection
                    // accepts is projected to a plain object by that member, and the merge of the members' results
                    // loses the instance ({"a-b": {}} & {"a-b": Uint8Array}): the result no longer validates
                    if sig == "c03_data_rejected" {
                        fn has_builtin(v: &JsVal) -> bool {
                            match v {
                                JsVal::Date(_) | JsVal::Map(_) | JsVal::Set(_) | JsVal::TypedArr(_, _) => true,
                                JsVal::Arr(xs) => xs.iter().any(has_builtin),
                                JsVal::Obj(kv, _) => kv.iter().any(|(_, x)| has_builtin(x)),
                                _ => false,
                            }
                        }
                        if has_builtin(q.v) && crate::c02::reaches(q.env, q.d, &mut |n| matches!(n, D::Inter(_))) {
                            sig = "c03_data_rejected:builtin_instance_under_object_member_of_intersection".to_string();
                        }
                    }
                    // validators read declared properties through the prototype chain: an object without a prototype that lacks
                    // an optional `toString` / `constructor` / ... is accepted, but the data parse builds from it is an ordinary
                    // object, which inherits a function under that name, and is rejected when validated (or parsed) again
                    // (inside a union the rejected branch simply no longer contributes: the second parse returns less)
                    if sig == "c03_data_rejected" || sig == "c03_parse_not_idempotent" || p.starts_with("parse(data) threw") {
                        fn has_null_proto(v: &JsVal) -> bool {
                            match v {
                                JsVal::Obj(kv, proto) => *proto == crate::jsval::Proto::Null || kv.iter().any(|(_, x)| has_null_proto(x)),
                                JsVal::Arr(xs) | JsVal::Set(xs) => xs.iter().any(has_null_proto),
                                JsVal::Map(kv) => kv.iter().any(|(k, x)| has_null_proto(k) || has_null_proto(x)),
                                _ => false,
                            }
                        }
                        let declares_inherited_name = crate::c02::reaches(q.env, q.d, &mut |n| match n {
                            D::Object { props, .. } => props.iter().any(|pr| crate::jsval::HOSTILE.contains(&pr.key.as_str())),
                            _ => false,
                        });
                        if has_null_proto(q.v) && declares_inherited_name {
                            sig = "c03_data_rejected:null_prototype_input_with_declared_inherited_name".to_string();
                        }
                    }
                    out.mismatch(ctx, &sig, p.to_string(), json!({"validator": q.desc, "type": q.d, "value": q.v, "value_tagged": q.v.to_tagged(), "observed": r["obs"], "problems": ps}));
                }
            }
        }
        // "consists only of declared parts of the input": adding a key the type does not declare (decided by the strict
        // reference: the member is strict, the variant is not) to an accepted input must not change what parse returns
        if let (Some(t), Some(c)) = (&case.typed, &code) {
            if !case.extras.is_empty() {
                let mut q2 = vec![];
                for (i, base, extra) in &case.extras {
                    let name = &t.roots[*i].0;
                    q2.push(json!({"q":"trio","parser":name,"value":base.to_tagged(),"opts":null}));
                    q2.push(json!({"q":"trio","parser":name,"value":extra.to_tagged(),"opts":null}));
                }
                let resp2 = match node_case(ctx, Some(c), q2) {
                    Ok(r) => r,
                    Err(e) => return Outcome::infra(e),
                };
                let strict = Ref::new(&t.env, Mode::Strict);
                for (k, (i, base, extra)) in case.extras.iter().enumerate() {
                    let d = &t.roots[*i].1;
                    let (rb, re) = (&resp2["results"][2 * k], &resp2["results"][2 * k + 1]);
                    if rb["obs"]["validate"] != json!(true) || re["obs"]["validate"] != json!(true) {
                        continue;
                    }
                    // an index signature or `any` somewhere in the type makes every key declared there, and inside a union
                    // an extra key can change which branches match: the relation is stated for types without them
                    if crate::c02::reaches(&t.env, d, &mut |n| matches!(n, D::Object { index: Some(_), .. } | D::Any)) {
                        out.label("extra_key_relation_not_applicable");
                        continue;
                    }
                    if strict.member(d, base) != Tri::Yes || strict.member(d, extra) != Tri::No {
                        out.label("extra_key_declared_or_unspecified");
                        continue;
                    }
                    out.evals += 1;
                    out.label("undeclared_key_pair");
                    if rb["obs"]["data"] != re["obs"]["data"] && rb["obs"]["parse"] == json!("returned") && re["obs"]["parse"] == json!("returned") {
                        out.mismatch(
                            ctx,
                            "c03_undeclared_key_survives_parse",
                            "parse of an input with one undeclared key added returns something else than parse of the input without it",
                            json!({"program": t.program, "parser": t.roots[*i].0, "type": d, "value": base, "with_extra_key": extra, "data": rb["obs"]["data"], "data_with_extra_key": re["obs"]["data"]}),
                        );
                    }
                }
            }
        }
        if let Some(f) = nontrivial.first() {
            out.nontrivial = Some(*f);
            out.sample = Some(json!({"validator": qs[0].desc, "value": qs[0].v.to_tagged(), "observed": results[0]["obs"]}));
        }
        out
    }
}

// ------------------------------------------------------------------------------------------------
// C11
// ------------------------------------------------------------------------------------------------
pub struct C11;
impl Check for C11 {
    fn fuzz_runs(&self) -> u64 {
        10000
    }
    fn id(&self) -> &'static str {
        "C11"
    }
    fn cases(&self, tier: Tier) -> u32 {
        match tier {
            Tier::Quick => 6000,
            Tier::Thorough => 90_000,
        }
    }
    fn stream_len(&self) -> usize {
        2500
    }
    fn rule(&self) -> String {
        "case = program from the C01 generator weighted to intersections of named/literal objects, unions of objects, nesting and records, x ~26 values per root (exact members, members with 1-2 undeclared keys injected at random object positions incl. keys declared by a sibling intersection member or another union branch, near misses); oracle = reference strict membership (default membership + no undeclared key at any object position; declared = all intersection members, the matching union branch, index-signature keys) and strict => default. Non-trivial = an injected key at depth>=1, or a strictly accepted value of an intersection type. Distinct = hash(program).".into()
    }
    fn assumptions(&self) -> Vec<String> {
        vec!["same reference and 'unspecified' zones as C01; strict verdicts are only compared when the default-mode verdict is definite".into()]
    }
    fn health(&self) -> Vec<(&'static str, f64)> {
        vec![("strict_reject_of_default_member", 0.2), ("strict_accept", 0.3)]
    }
    fn generate(&self, s: &mut Src, _tier: Tier) -> Value {
        let cfg = GenCfg { object_bias: 3, non_json: false, templates: false, formats: false, ..GenCfg::default() };
        let mut case = gen_typed_case(s, &cfg, RenderCfg::all(), Mode::Strict, 2, (8, 4, 2));
        // members with injected keys
        let r_env = case.env.clone();
        for (i, (_, d)) in case.roots.clone().iter().enumerate() {
            let r = Ref::new(&r_env, Mode::Strict);
            for _ in 0..10 {
                if let Some(m) = r.gen_member(d, s, 3) {
                    let mut v = inject_extra_key(&m, s);
                    if s.chance(1, 3) {
                        v = inject_extra_key(&v, s);
                    }
                    case.values[i].push((v, "injected".into()));
                }
            }
        }
        serde_json::to_value(case).unwrap()
    }
    fn exec(&self, case: &Value, ctx: &mut Ctx) -> Outcome {
        let case: TypedCase = match serde_json::from_value(case.clone()) {
            Ok(c) => c,
            Err(e) => return Outcome::infra(format!("bad case: {}", e)),
        };
        let mut out = Outcome::default();
        let mut scratch = Outcome::default();
        let code = match compile_case(&case.program, &mut scratch, ctx, "C11") {
            Some(c) => c,
            None => {
                if scratch.infra.is_some() {
                    return scratch;
                }
                out.label("compile_failed_skipped");
                return out;
            }
        };
        let mut queries = vec![];
        for (i, (name, _)) in case.roots.iter().enumerate() {
            queries.push(json!({"q":"validateMany","parser":name,"values": case.values[i].iter().map(|(v,_)| v.to_tagged()).collect::<Vec<_>>(), "optsList":[null, {"strict": true}], "sameObject": true, "entryPoints": true}));
        }
        let resp = match node_case(ctx, Some(&code), queries) {
            Ok(r) => r,
            Err(e) => return Outcome::infra(e),
        };
        if resp.get("loadError").is_some() {
            out.label("load_error_skipped");
            return out;
        }
        let open = Ref::new(&case.env, Mode::Open);
        let strict = Ref::new(&case.env, Mode::Strict);
        let mut nontrivial = false;
        for (i, (name, d)) in case.roots.iter().enumerate() {
            let m = &resp["results"][i]["m"];
            if !m.is_array() {
                return Outcome::infra(format!("no matrix: {}", resp["results"][i]));
            }
            let is_inter = matches!(open.head(d), D::Inter(_));
            if let Some(idp) = resp["results"][i]["identity"].as_array() {
                out.evals += 2 * case.values[i].len() as u64;
                if let Some(first) = idp.first() {
                    let vi = first["value"].as_u64().unwrap_or(0) as usize;
                    out.mismatch(
                        ctx,
                        "c11_answer_depends_on_earlier_calls",
                        format!("{}: the same object validated under default and strict options in turn gets another answer than a fresh copy does ({})", name, first),
                        json!({"program": case.program, "parser": name, "value": case.values[i].get(vi).map(|x| &x.0), "detail": first}),
                    );
                }
            }
            if let Some(first) = resp["results"][i]["entry"].as_array().and_then(|a| a.first()) {
                let vi = first["value"].as_u64().unwrap_or(0) as usize;
                let v = case.values[i].get(vi).map(|x| &x.0);
                // (inputs that make the error path overflow or throw are C03's and C12's listed findings)
                let hostile = v.map(|v| v.has_cycle()).unwrap_or(false) || first["safeParse"] == json!("T");
                if !hostile {
                    out.mismatch(
                        ctx,
                        "c11_entry_points_disagree",
                        format!("{}: validate, safeParse and parse do not give the same verdict under the same options ({}; option set 1 = disallowExtraProperties)", name, first),
                        json!({"program": case.program, "parser": name, "value": v, "detail": first}),
                    );
                }
            }
            for (j, (v, src)) in case.values[i].iter().enumerate() {
                let (g_open, g_strict) = match (m[j][0].as_i64(), m[j][1].as_i64()) {
                    (Some(a), Some(b)) => (a == 1, b == 1),
                    _ => {
                        out.label("validate_threw");
                        continue;
                    }
                };
                out.evals += 1;
                if g_strict && !g_open {
                    out.mismatch(ctx, "c11_strict_accepts_default_rejects", format!("{}: accepted in strict mode but rejected in default mode", name), json!({"program": case.program, "parser": name, "value": v}));
                }
                let e_open = open.member(d, v);
                let e_strict = strict.member(d, v);
                if e_open == Tri::Unspec || e_strict == Tri::Unspec {
                    out.label("unspecified");
                    continue;
                }
                // only judge strictness where the default verdict itself is right (that is C01's subject)
                if Tri::from_bool(g_open) != e_open {
                    out.label("default_mismatch_skipped");
                    continue;
                }
                if e_open == Tri::Yes && e_strict == Tri::No {
                    out.label("strict_reject_of_default_member");
                    if src == "injected" && v.depth() >= 2 {
                        nontrivial = true;
                    }
                }
                if e_strict == Tri::Yes {
                    out.label("strict_accept");
                    if is_inter {
                        nontrivial = true;
                    }
                }
                if Tri::from_bool(g_strict) != e_strict {
                    // the per-member defect model only applies where the program has an intersection the compiler does
                    // not merge (a named / interface member, an index signature, or the same key declared differently)
                    // (an `interface J extends I` whose base was still being resolved stays the intersection `I & {..}`)
                    let ext_env = crate::render::extends_as_intersections(&case.env, &case.used);
                    let unmerged = case.used.contains_key("inter_unmerged_or_named") || ext_env.is_some();
                    // types spelled with Exclude are re-materialised from the semantic engine and inherit its listed
                    // findings (here typically `{}` absorbing the other object members of a union)
                    let plain: Vec<String> = if case.used.contains_key("exclude") { crate::csem::engine_family_sigs("c11_strict_membership", &case.env, d, Some(v)) } else { vec!["c11_strict_membership".to_string()] };
                    // an intersection handed to the engine whole (Exclude) normally comes back merged; now and then the engine leaves
                    // a conjunction of two object types standing (seen with an intersection that repeats a member), and the
                    // per-member reading of strict mode applies to what was emitted.  Decided on the emitted validator (its
                    // description shows an intersection of object types) and on the denotation (a repeated member), not assumed
                    let mut engine_conjunction = false;
                    if case.used.contains_key("exclude") && !unmerged && !g_strict {
                        let repeated = crate::c02::reaches(&case.env, d, &mut |n| match n {
                            D::Inter(ms) => ms.iter().enumerate().any(|(i, m)| ms[..i].contains(m)),
                            _ => false,
                        });
                        if repeated {
                            if let Ok(r) = node_case(ctx, Some(&code), vec![json!({"q":"describe","parser":name})]) {
                                engine_conjunction = r["results"][0]["r"].as_str().map(|t| t.contains("} & {")).unwrap_or(false);
                            }
                        }
                    }
                    let sigs: Vec<String> = match crate::c01::explain_with(ext_env.as_ref().unwrap_or(&case.env), d, v, Mode::Strict, g_strict, case.used.contains_key("exclude")) {
                        Some("strict_inter_per_member") if engine_conjunction => vec!["strict_inter_per_member:engine_keeps_conjunction_with_repeated_member".to_string()],
                        Some("strict_inter_per_member") if !unmerged => plain,
                        Some(q) => vec![q.to_string()],
                        None => plain,
                    };
                    out.mismatch_any(
                        ctx,
                        &sigs,
                        format!("{}: strict mode {} a value that {} undeclared keys", name, if g_strict { "accepts" } else { "rejects" }, if g_strict { "carries" } else { "has no" }),
                        json!({"program": case.program, "parser": name, "type": d, "value": v, "strict_validate": g_strict, "default_validate": g_open, "reference_strict": format!("{:?}", e_strict)}),
                    );
                }
            }
        }
        if nontrivial {
            out.nontrivial = Some(fp(&case.program));
            out.sample = Some(json!({"program": case.program, "values_first_root": case.values[0].iter().rev().take(3).map(|(v, s)| json!([v.to_tagged(), s])).collect::<Vec<_>>()}));
        }
        out
    }
}

// ------------------------------------------------------------------------------------------------
// C12
// ------------------------------------------------------------------------------------------------
pub fn classify_c12(p: &str) -> String {
    let rules: [(&str, &str); 11] = [
        ("Maximum call stack size exceeded", "cyclic_input_stack_overflow"),
        ("errors is empty", "c12_empty_errors"),
        ("more than ten errors", "c12_more_than_ten"),
        ("printErrors threw", "c12_print_errors_throws"),
        ("safeParse threw", "c12_safeparse_throws"),
        ("does not resolve", "c12_path_does_not_resolve"),
        ("received differs", "c12_received_differs"),
        ("something other than its documented failure error", "c12_parse_throws_other"),
        ("not deterministic", "c12_nondeterministic_rendering"),
        ("union error without inner errors", "c12_union_error_without_inner"),
        ("parse message is not the rendering", "c12_parse_message_not_rendering"),
    ];
    for (needle, sig) in rules {
        if p.contains(needle) {
            return sig.to_string();
        }
    }
    let head: String = p.split(':').next().unwrap_or(p).chars().take(60).collect();
    format!("c12:{}", head.replace(' ', "_"))
}

pub struct C12;
impl Check for C12 {
    fn id(&self) -> &'static str {
        "C12"
    }
    fn cases(&self, tier: Tier) -> u32 {
        match tier {
            Tier::Quick => 6000,
            Tier::Thorough => 90_000,
        }
    }
    fn stream_len(&self) -> usize {
        2500
    }
    fn rule(&self) -> String {
        "case = program from the C01 generator x ~22 values per root dominated by near misses (wrong leaf kind, dropped key, extra key, tuple one longer/shorter, other literal, hostile discriminator, Map/Set members) in default and strict mode; oracle = invariants evaluated in the Node worker by an independent path resolver: 1<=errors<=10; every path (incl. inside nested union errors, relative to their parent) resolves to an existing position or a missing property/index of an existing object/array and `received` is Object.is-identical to what is there; printErrors and parse's message do not throw, are deterministic and agree. Non-trivial = rejected value whose first error path has depth>=1 or is a union error. Distinct = hash(program, value).".into()
    }
    fn assumptions(&self) -> Vec<String> {
        vec!["path segments follow the runtime's own conventions: key, [i], key(json), value(json), item(json)".into()]
    }
    fn health(&self) -> Vec<(&'static str, f64)> {
        vec![("rejected", 0.3)]
    }
    fn generate(&self, s: &mut Src, _tier: Tier) -> Value {
        let cfg = GenCfg { object_bias: 2, ..GenCfg::default() };
        let mut case = gen_typed_case(s, &cfg, RenderCfg::all(), Mode::Open, 2, (4, 14, 4));
        // sparse arrays: a member with one array element replaced by an empty slot (reads as undefined, is skipped by
        // forEach / map / flatMap)
        for vs in case.values.iter_mut() {
            let mut extra = vec![];
            for (v, _) in vs.iter().filter(|(_, l)| l == "member").take(3) {
                if let Some(h) = crate::jsval::punch_hole(v, s) {
                    extra.push((h, "near".to_string()));
                }
            }
            vs.extend(extra);
        }
        serde_json::to_value(case).unwrap()
    }
    fn exec(&self, case: &Value, ctx: &mut Ctx) -> Outcome {
        let case: TypedCase = match serde_json::from_value(case.clone()) {
            Ok(c) => c,
            Err(e) => return Outcome::infra(format!("bad case: {}", e)),
        };
        let mut out = Outcome::default();
        let mut scratch = Outcome::default();
        let code = match compile_case(&case.program, &mut scratch, ctx, "C12") {
            Some(c) => c,
            None => {
                if scratch.infra.is_some() {
                    return scratch;
                }
                out.label("compile_failed_skipped");
                return out;
            }
        };
        let mut queries = vec![];
        let mut meta = vec![];
        for (i, (name, _)) in case.roots.iter().enumerate() {
            for (v, _) in &case.values[i] {
                if v.has_hole() {
                    out.label("value:sparse_array");
                }
                for o in [Value::Null, json!({"strict": true})] {
                    queries.push(json!({"q":"errors","parser":name,"value":v.to_tagged(),"opts":o}));
                    meta.push((name.clone(), v, o));
                }
            }
        }
        let resp = match node_case(ctx, Some(&code), queries) {
            Ok(r) => r,
            Err(e) => return Outcome::infra(e),
        };
        if resp.get("loadError").is_some() {
            out.label("load_error_skipped");
            return out;
        }
        let results = match resp["results"].as_array() {
            Some(r) => r,
            None => return Outcome::infra(format!("bad worker answer {}", resp)),
        };
        for ((name, v, o), r) in meta.iter().zip(results.iter()) {
            if let Some(h) = r.get("harnessError") {
                return Outcome::infra(format!("worker harness error: {}", h));
            }
            if r.get("skipped").is_some() {
                out.label("accepted_or_skipped");
                continue;
            }
            out.evals += 1;
            out.label("rejected");
            let errs = &r["obs"]["errors"];
            let deep = errs.as_array().and_then(|a| a.first()).map(|e| e["path"].as_array().map(|p| !p.is_empty()).unwrap_or(false) || e.get("isUnionError").is_some()).unwrap_or(false);
            if deep && out.nontrivial.is_none() {
                out.nontrivial = Some(fp(&(case.program.clone(), serde_json::to_string(v).unwrap())));
                out.sample = Some(json!({"program": case.program, "parser": name, "value": v.to_tagged(), "opts": o, "errors": errs, "printed": r["obs"]["printed"]}));
            }
            if let Some(ps) = r["problems"].as_array() {
                for p in ps {
                    let p = p.as_str().unwrap_or("");
                    let sig = classify_c12(p);
                    out.mismatch(ctx, &sig, p.to_string(), json!({"program": case.program, "parser": name, "value": v, "value_tagged": v.to_tagged(), "opts": o, "observed": r["obs"], "problems": ps}));
                }
            }
        }
        out
    }
}
