//! C16 — schema-printing contexts collect definitions independently of call order.
//! History-based: generated sequences of schemaWithContext calls into one SchemaPrintingContext, compared with a
//! reordered/deduplicated history over the same parser set and with fresh contexts per parser.
use crate::c01::{compile_case, node_case};
use crate::c02::{compose_root, defs_of, gen_ctx_cfg, recursive, CtxCfg};
use crate::den::{gen_env_and_roots, Env, GenCfg, D};
use crate::render::{render_program, RenderCfg};
use crate::runner::{fp, Check, Ctx, Outcome, Tier};
use crate::src::Src;
use serde::{Deserialize, Serialize};
use serde_json::{json, Value};
use std::collections::{BTreeMap, BTreeSet};

#[derive(Debug, Clone, Serialize, Deserialize)]
pub struct C16Case {
    pub env: Env,
    pub roots: Vec<(String, D)>,
    pub program: String,
    pub used: BTreeMap<String, u32>,
    pub cfg: CtxCfg,
    /// first history: parser names, with repetitions
    pub h1: Vec<String>,
    /// second history: the same *set* of parsers, other order / other repetitions
    pub h2: Vec<String>,
    /// named type -> parser whose runtype replaces it (namedTypeSchemaOverrides)
    pub overrides: BTreeMap<String, String>,
}

fn collect_refs(v: &Value, out: &mut BTreeSet<String>) {
    match v {
        Value::Array(a) => a.iter().for_each(|x| collect_refs(x, out)),
        Value::Object(o) => {
            for (k, x) in o {
                if k == "$ref" {
                    if let Some(s) = x.as_str() {
                        out.insert(s.to_string());
                    }
                }
                // discriminator.mapping values are references too
                if k == "mapping" {
                    if let Some(m) = x.as_object() {
                        for r in m.values() {
                            if let Some(s) = r.as_str() {
                                out.insert(s.to_string());
                            }
                        }
                    }
                }
                collect_refs(x, out);
            }
        }
        _ => {}
    }
}

/// A schema with every `$ref` replaced by the definition it points to (cycles cut by the distance to the enclosing
/// occurrence, uncounted), `discriminator.mapping` dropped (its targets are the `oneOf` members) and site descriptions kept:
/// what the schema *says*, independent of how definitions are named or where alias boundaries fall.
pub fn canon(v: &Value, root: &Value, stack: &mut Vec<String>, fuel: &mut usize) -> Value {
    if *fuel == 0 {
        return json!("<fuel>");
    }
    *fuel -= 1;
    match v {
        Value::Array(a) => Value::Array(a.iter().map(|x| canon(x, root, stack, fuel)).collect()),
        Value::Object(o) => {
            if let Some(r) = o.get("$ref").and_then(|r| r.as_str()) {
                if stack.iter().any(|x| x == r) {
                    // a back edge; how many named hops lie in between depends on alias boundaries, so it is not counted
                    return json!({"$cycle": true});
                }
                let target = r.strip_prefix('#').and_then(|p| root.pointer(p));
                return match target {
                    Some(t) => {
                        stack.push(r.to_string());
                        let inner = canon(t, root, stack, fuel);
                        stack.pop();
                        // annotations next to the $ref (description) stay with the site
                        let mut extra: serde_json::Map<String, Value> = o.iter().filter(|(k, _)| *k != "$ref" && *k != "description").map(|(k, x)| (k.clone(), x.clone())).collect();
                        if extra.is_empty() {
                            inner
                        } else {
                            extra.insert("$target".into(), inner);
                            Value::Object(extra)
                        }
                    }
                    None => json!({"$dangling": r}),
                };
            }
            // a discriminated union ({type: object, discriminator, oneOf | anyOf}) says what the plain union of its
            // variants says; nested unions are flattened and members sorted
            if o.contains_key("discriminator") && (o.contains_key("oneOf") || o.contains_key("anyOf")) {
                let members = o.get("oneOf").or(o.get("anyOf")).cloned().unwrap_or(json!([]));
                return canon(&json!({"anyOf": members}), root, stack, fuel);
            }
            let mut m = serde_json::Map::new();
            for (k, x) in o {
                if k == "description" && x.is_string() {
                    continue; // annotation
                }
                m.insert(k.clone(), canon(x, root, stack, fuel));
            }
            // the order of `required` says nothing
            if let Some(Value::Array(req)) = m.get_mut("required") {
                req.sort_by_key(|x| x.to_string());
            }
            // whether a property whose type admits null / undefined is listed under `required` (and keeps its null branch)
            // depends on whether the printer sees the nullable type in place or behind a $ref; the statement's conventions
            // leave the absent-key case of such a property open, so the two spellings say the same thing
            if let Some(Value::Object(props)) = m.get("properties").cloned() {
                fn strip_null(x: &Value) -> Option<Value> {
                    if x.get("type") == Some(&json!("null")) {
                        return Some(json!({"not": {}}));
                    }
                    if let Some(Value::Array(ms)) = x.get("anyOf") {
                        if x.as_object().map(|o| o.len()) == Some(1) && ms.iter().any(|y| y.get("type") == Some(&json!("null"))) {
                            let mut rest: Vec<Value> = ms.iter().filter(|y| y.get("type") != Some(&json!("null"))).cloned().collect();
                            return Some(if rest.len() == 1 { rest.pop().unwrap() } else { json!({"anyOf": rest}) });
                        }
                    }
                    None
                }
                let mut req: Vec<Value> = m.get("required").and_then(|r| r.as_array()).cloned().unwrap_or_default();
                let mut newprops = props.clone();
                for (k, ps) in &props {
                    if let Some(stripped) = strip_null(ps) {
                        newprops.insert(k.clone(), stripped);
                        req.retain(|x| x.as_str() != Some(k.as_str()));
                    }
                }
                m.insert("properties".into(), Value::Object(newprops));
                if req.is_empty() {
                    m.remove("required");
                } else {
                    m.insert("required".into(), Value::Array(req));
                }
            }
            // an intersection of closed object schemas without index signatures says what the one merged object says (which
            // of the two the compiler prints depends on how the members were spelled)
            if m.len() == 1 {
                if let Some(Value::Array(members)) = m.get("allOf").cloned() {
                    let plain = |x: &Value| {
                        x.get("type") == Some(&json!("object"))
                            && x.get("properties").map(|p| p.is_object()).unwrap_or(false)
                            && x.get("additionalProperties") == Some(&json!(false))
                            && x.as_object().map(|o| o.keys().all(|k| matches!(k.as_str(), "type" | "properties" | "required" | "additionalProperties"))).unwrap_or(false)
                    };
                    if members.len() >= 2 && members.iter().all(plain) {
                        let mut props = serde_json::Map::new();
                        let mut required: Vec<Value> = vec![];
                        for x in &members {
                            for (k, v) in x["properties"].as_object().unwrap() {
                                match props.get(k).cloned() {
                                    None => {
                                        props.insert(k.clone(), v.clone());
                                    }
                                    Some(old) if old == *v => {}
                                    Some(old) => {
                                        let mut both = vec![old, v.clone()];
                                        both.sort_by_key(|x| x.to_string());
                                        props.insert(k.clone(), json!({"allOf": both}));
                                    }
                                }
                            }
                            if let Some(r) = x.get("required").and_then(|r| r.as_array()) {
                                for k in r {
                                    if !required.contains(k) {
                                        required.push(k.clone());
                                    }
                                }
                            }
                        }
                        required.sort_by_key(|x| x.to_string());
                        let mut merged = serde_json::Map::new();
                        merged.insert("type".into(), json!("object"));
                        merged.insert("properties".into(), Value::Object(props));
                        merged.insert("additionalProperties".into(), json!(false));
                        if !required.is_empty() {
                            merged.insert("required".into(), Value::Array(required));
                        }
                        return Value::Object(merged);
                    }
                }
            }
            if m.len() == 1 {
                if let Some(Value::Array(members)) = m.get("anyOf").cloned() {
                    let mut flat: Vec<Value> = vec![];
                    for x in members {
                        match x.as_object().filter(|mo| mo.len() == 1).and_then(|mo| mo.get("anyOf")).and_then(|y| y.as_array()) {
                            Some(inner) => flat.extend(inner.iter().cloned()),
                            None => flat.push(x),
                        }
                    }
                    flat.sort_by_key(|x| x.to_string());
                    flat.dedup();
                    if flat.len() == 1 {
                        return flat.pop().unwrap();
                    }
                    m.insert("anyOf".into(), Value::Array(flat));
                }
            }
            Value::Object(m)
        }
        other => other.clone(),
    }
}
fn canon_of(ret: &Value, export: &Value, cfg: &CtxCfg) -> Option<Value> {
    let root = compose_root(&json!({}), export, cfg).ok()?;
    let mut fuel = 200_000usize;
    let c = canon(ret, &root, &mut vec![], &mut fuel);
    if fuel == 0 {
        None
    } else {
        Some(c)
    }
}

/// the schema with the literal "" read as the literal 0 (see the collision finding)
fn zero_for_empty_string(v: &Value) -> Value {
    match v {
        Value::Array(a) => Value::Array(a.iter().map(zero_for_empty_string).collect()),
        Value::Object(o) => {
            if o.get("enum") == Some(&json!([""])) && o.get("type") == Some(&json!("string")) {
                let mut m = o.clone();
                m.insert("enum".into(), json!([0]));
                m.insert("type".into(), json!("number"));
                return Value::Object(m);
            }
            if o.get("const") == Some(&json!("")) {
                let mut m = o.clone();
                m.insert("const".into(), json!(0));
                return Value::Object(m);
            }
            Value::Object(o.iter().map(|(k, x)| (k.clone(), zero_for_empty_string(x))).collect())
        }
        other => other.clone(),
    }
}

pub struct C16;

/// every `$ref` (and discriminator mapping target) replaced by a placeholder
fn ref_blind(v: &Value) -> Value {
    match v {
        Value::Object(m) => {
            let mut o = serde_json::Map::new();
            for (k, x) in m {
                if k == "$ref" && x.is_string() {
                    o.insert(k.clone(), json!("*"));
                } else if k == "mapping" && x.is_object() {
                    o.insert(k.clone(), Value::Object(x.as_object().unwrap().iter().map(|(mk, _)| (mk.clone(), json!("*"))).collect()));
                } else {
                    o.insert(k.clone(), ref_blind(x));
                }
            }
            Value::Object(o)
        }
        Value::Array(a) => Value::Array(a.iter().map(ref_blind).collect()),
        other => other.clone(),
    }
}

/// `more` of a raw C16 difference: do the two sides differ in nothing but the names their references point to?
fn differs_in_ref_targets_only(more: &Value, cfg: &CtxCfg) -> bool {
    if more.get("fresh").is_some() && more.get("shared").is_some() {
        return ref_blind(&more["fresh"]) == ref_blind(&more["shared"]);
    }
    if let (Some(a), Some(b), Some(which)) = (defs_of(&more["export_h1"], cfg), defs_of(&more["export_h2"], cfg), more["differing"].as_array()) {
        return which.iter().filter_map(|k| k.as_str()).all(|k| match (a.get(k), b.get(k)) {
            (Some(x), Some(y)) => ref_blind(x) == ref_blind(y),
            _ => false,
        });
    }
    false
}

impl Check for C16 {
    fn id(&self) -> &'static str {
        "C16"
    }
    fn cases(&self, tier: Tier) -> u32 {
        match tier {
            Tier::Quick => 6000,
            Tier::Thorough => 60_000,
        }
    }
    fn stream_len(&self) -> usize {
        3000
    }
    fn rule(&self) -> String {
        "case = program with <=4 named (possibly recursive, mutually referring) definitions, 2-4 parsers over them plus one parser per named definition, one printing configuration (7 refPathTemplate/container shapes, optional namedTypeSchemaOverrides), and two call histories over the same set of parsers (length 1-8, repetitions, different orders). Oracles: exports of the two histories are equal; every definition a fresh context produces for a single parser equals the one in the shared export; repeated calls return the same schema as the first call and as a fresh context; every $ref (and discriminator mapping target) of every returned schema and definition is a JSON pointer that resolves in the final export. Non-trivial = the history has >=2 distinct parsers and the export has a definition referenced from >=2 of the returned schemas/definitions, or a recursive definition is involved. Distinct = hash of (program, histories).".into()
    }
    fn assumptions(&self) -> Vec<String> {
        vec![
            "schemas are compared as JSON values (object key order ignored); only JSON-expressible types are generated (printing throws otherwise, see C02)".into(),
            "the exported definitions are placed in a root document where the chosen refPathTemplate points".into(),
        ]
    }
    fn health(&self) -> Vec<(&'static str, f64)> {
        vec![("loaded", 0.5), ("shared_definition", 0.3), ("has_recursion", 0.05), ("multi_parser_history", 0.5)]
    }
    fn generate(&self, s: &mut Src, _tier: Tier) -> Value {
        // a quarter of the programs contain types JSON Schema cannot express (Date, bigint, Map, ...): printing them
        // throws, and what a context holds after a refused print is part of the history
        let non_json = s.chance(1, 4);
        let cfg = GenCfg { non_json, max_defs: 4, object_bias: 2, ..GenCfg::default() };
        let n_roots = s.range(2, 4);
        let (env, roots) = gen_env_and_roots(s, &cfg, n_roots);
        let mut roots: Vec<(String, D)> = roots.into_iter().enumerate().map(|(i, d)| (format!("P{}", i), d)).collect();
        for i in 0..env.defs.len() {
            roots.push((format!("N{}", i), D::Ref(i)));
        }
        // near-duplicates: one-edit variants of roots and definitions (an optionality flipped, a literal changed, ...).
        // Definitions the context names by a structural hash must not be shared between types that differ
        let n_base = roots.len();
        for k in 0..s.range(0, 2) {
            let src_d = if !env.defs.is_empty() && s.chance(1, 2) { env.get(s.below(env.defs.len())).clone() } else { roots[s.below(n_base)].1.clone() };
            // half of the time the one edit is an optionality flip (the 32-bit hash must tell x?: T from x: T)
            let m = match if s.chance(1, 2) { crate::den::toggle_some_optionality(&src_d, s) } else { None } {
                Some(m) => m,
                None => crate::den::mutate_type(&src_d, s, &cfg, env.defs.len()),
            };
            roots.push((format!("M{}", k), m));
        }
        let (program, rendered) = render_program(&env, &roots, RenderCfg::all(), s, "");
        let names: Vec<String> = roots.iter().map(|r| r.0.clone()).collect();
        let len = s.range(1, 8);
        let h1: Vec<String> = (0..len).map(|_| names[s.below(names.len())].clone()).collect();
        let set: Vec<String> = h1.iter().cloned().collect::<BTreeSet<_>>().into_iter().collect();
        // second history: a shuffle of the set, with a few repetitions inserted
        let mut h2: Vec<String> = vec![];
        let mut pool = set.clone();
        while !pool.is_empty() {
            let i = s.below(pool.len());
            h2.push(pool.remove(i));
            if s.chance(1, 4) {
                let j = s.below(h2.len());
                h2.push(h2[j].clone());
            }
        }
        // exportDefinitions() read out in the middle of a history (the result is thrown away)
        let (mut h1, mut h2) = (h1, h2);
        for h in [&mut h1, &mut h2] {
            if s.chance(1, 3) {
                let at = s.below(h.len() + 1);
                h.insert(at, "#export".to_string());
            }
        }
        let mut overrides = BTreeMap::new();
        if !env.defs.is_empty() && s.chance(1, 5) {
            let i = s.below(env.defs.len());
            let j = s.below(n_roots);
            overrides.insert(env.defs[i].0.clone(), format!("P{}", j));
        }
        let c = gen_ctx_cfg(s);
        serde_json::to_value(C16Case { env, roots, program, used: rendered.used, cfg: c, h1, h2, overrides }).unwrap()
    }
    fn exec(&self, case: &Value, ctx: &mut Ctx) -> Outcome {
        let case: C16Case = match serde_json::from_value(case.clone()) {
            Ok(c) => c,
            Err(e) => return Outcome::infra(format!("bad case: {}", e)),
        };
        let mut out = Outcome::default();
        for k in case.used.keys() {
            out.label(format!("spelling:{}", k));
        }
        let code = match compile_case(&case.program, &mut out, ctx, "C16") {
            Some(c) => c,
            None => return out,
        };
        let set: Vec<String> = case.h1.iter().filter(|n| !n.starts_with('#')).cloned().collect::<BTreeSet<_>>().into_iter().collect();
        let ov: Value = if case.overrides.is_empty() { Value::Null } else { json!(case.overrides) };
        let q = |calls: &[String]| json!({"q":"schemaCtx","template":case.cfg.template,"container":case.cfg.container,"calls":calls,"overrides":ov});
        let mut queries = vec![q(&case.h1), q(&case.h2)];
        for p in &set {
            queries.push(q(std::slice::from_ref(p)));
        }
        let resp = match node_case(ctx, Some(&code), queries) {
            Ok(r) => r,
            Err(e) => return Outcome::infra(e),
        };
        if let Some(le) = resp.get("loadError") {
            out.mismatch(ctx, "load_error", format!("emitted module does not load: {}", le), json!({"program": case.program, "loadError": le}));
            return out;
        }
        out.label("loaded");
        let r1 = &resp["results"][0];
        let r2 = &resp["results"][1];
        let detail = |extra: Value| json!({"program": case.program, "cfg": case.cfg, "h1": case.h1, "h2": case.h2, "overrides": case.overrides, "more": extra});
        // printing must not throw for JSON-expressible types (any throw here is also C02's subject; reported once)
        for (hn, r) in [("h1", r1), ("h2", r2)] {
            if let Some(harness_err) = r.get("harnessError") {
                return Outcome::infra(format!("worker: {}", harness_err));
            }
            let threw = r["returned"].as_array().map(|a| a.iter().any(|x| x.get("threw").is_some())).unwrap_or(true) || r["exported"].get("threw").is_some();
            if threw {
                // `any` re-materialised through Exclude makes printing throw (listed under C02); whether a parser is
                // refused is not an order question - but it must not become one: a call is refused in a history exactly
                // when the parser is refused alone in a fresh context, and what the refused print left behind must not
                // show in later calls (the checks below run over the calls that returned)
                out.label("printing_threw");
                if r["exported"].get("threw").is_some() {
                    return out;
                }
                let calls = if hn == "h1" { &case.h1 } else { &case.h2 };
                for (ci, c) in calls.iter().enumerate() {
                    if c.starts_with('#') {
                        continue;
                    }
                    let pi = match set.iter().position(|p| p == c) {
                        Some(pi) => pi,
                        None => continue,
                    };
                    let fresh_threw = resp["results"][2 + pi]["returned"][0].get("threw").is_some();
                    let here_threw = r["returned"][ci].get("threw").is_some();
                    if fresh_threw != here_threw {
                        out.mismatch(
                            ctx,
                            "c16_refusal_depends_on_history",
                            format!(
                                "call #{} of {} in history {} {} although the same parser printed alone into a fresh context {}",
                                ci,
                                c,
                                hn,
                                if here_threw { "is refused (throws)" } else { "returns a schema" },
                                if fresh_threw { "is refused (throws)" } else { "returns a schema" }
                            ),
                            detail(json!({"history": hn, "call": ci, "parser": c, "returned": r["returned"][ci], "fresh": resp["results"][2 + pi]["returned"][0]})),
                        );
                    }
                }
            }
        }
        out.evals += 1;
        let e1 = &r1["exported"]["r"];
        let e2 = &r2["exported"]["r"];
        if set.len() >= 2 {
            out.label("multi_parser_history");
        }
        let mut raw: Vec<(String, String, Value, bool)> = vec![];
        let mut sem_equal = true;
        // (1) order / repetition independence of the export
        if e1 != e2 {
            let d1 = defs_of(e1, &case.cfg);
            let d2 = defs_of(e2, &case.cfg);
            let mut which = vec![];
            if let (Some(a), Some(b)) = (d1, d2) {
                for k in a.keys().chain(b.keys()).collect::<BTreeSet<_>>() {
                    if a.get(k) != b.get(k) {
                        which.push(k.clone());
                    }
                }
            }
            let collision = !which.is_empty()
                && which.iter().all(|k| {
                    k.starts_with("Discriminated")
                        && match (d1.and_then(|m| m.get(k)), d2.and_then(|m| m.get(k))) {
                            (Some(x), Some(y)) => zero_for_empty_string(x) == zero_for_empty_string(y),
                            _ => false,
                        }
                });
            if collision {
                out.mismatch(
                    ctx,
                    "c16_synthetic_name_collision_empty_string_vs_zero",
                    format!("definitions {:?} are shared by different unions whose 32-bit hashes collide (\"\" and 0 both hash to 0); which body is exported depends on the call order", which),
                    detail(json!({"export_h1": e1, "export_h2": e2, "differing": which})),
                );
            } else {
            raw.push((
                "c16_export_depends_on_history".to_string(),
                format!("exported definitions differ between two histories over the same parsers (definitions {:?})", which),
                detail(json!({"export_h1": e1, "export_h2": e2, "differing": which})),
                which.iter().all(|k| k.starts_with("Discriminated") || d1.map(|m| m.contains_key(k)).unwrap_or(false) != d2.map(|m| m.contains_key(k)).unwrap_or(false)),
            ));
            }
        }
        let defs1 = match defs_of(e1, &case.cfg) {
            Some(d) => d.clone(),
            None => {
                out.mismatch(ctx, "c16_export_shape", "exportDefinitions() does not have the documented shape", detail(json!({"export": e1})));
                return out;
            }
        };
        // (2) each parser alone in a fresh context: its definitions and its returned schema agree with the shared context
        for (pi, p) in set.iter().enumerate() {
            let rf = &resp["results"][2 + pi];
            if rf["returned"][0].get("threw").is_some() {
                continue;
            }
            out.evals += 1;
            let fresh_defs = match defs_of(&rf["exported"]["r"], &case.cfg) {
                Some(d) => d,
                None => continue,
            };
            for (name, body) in fresh_defs {
                match defs1.get(name) {
                    None => raw.push((
                        "c16_definition_missing_in_shared_context".to_string(),
                        format!("definition {} is produced when {} is printed alone but is missing from the shared export", name, p),
                        detail(json!({"parser": p, "definition": name, "fresh": body, "export_h1": e1})),
                        true,
                    )),
                    Some(shared) if shared != body && name.starts_with("Discriminated") && zero_for_empty_string(shared) == zero_for_empty_string(body) => {
                        // the 32-bit hash() that names synthetic variant definitions is 0 for both the literal "" and
                        // the literal 0, so two unions that differ only there share their definition names
                        out.mismatch(
                            ctx,
                            "c16_synthetic_name_collision_empty_string_vs_zero",
                            format!("definition {} is shared by two different unions whose 32-bit hashes collide (\"\" and 0 both hash to 0); printing {} alone gives another body", name, p),
                            detail(json!({"parser": p, "definition": name, "fresh": body, "shared": shared})),
                        );
                    }
                    Some(shared) if shared != body => raw.push((
                        "c16_definition_differs_from_fresh_context".to_string(),
                        format!("definition {} in the shared context differs from the one a fresh context produces (printing {} alone)", name, p),
                        detail(json!({"parser": p, "definition": name, "fresh": body, "shared": shared})),
                        name.starts_with("Discriminated"),
                    )),
                    _ => {}
                }
            }
            // returned schema: every call of p in h1 returns what the fresh context returns
            for (ci, c) in case.h1.iter().enumerate() {
                if c == p && r1["returned"][ci]["r"] != rf["returned"][0]["r"] {
                    raw.push((
                        "c16_returned_schema_depends_on_history".to_string(),
                        format!("call #{} of {} returns a schema different from the one a fresh context returns", ci, p),
                        detail(json!({"parser": p, "call": ci, "shared": r1["returned"][ci]["r"], "fresh": rf["returned"][0]["r"]})),
                        false,
                    ));
                }
                // what the schema says (references inlined) must not depend on the history either
                // (a call that is refused in the history - the refusal itself is judged above - has nothing to inline)
                if c == p && sem_equal && r1["returned"][ci].get("threw").is_none() {
                    let a = canon_of(&r1["returned"][ci]["r"], e1, &case.cfg);
                    let b = canon_of(&rf["returned"][0]["r"], &rf["exported"]["r"], &case.cfg);
                    if a.is_none() || b.is_none() || a != b {
                        if std::env::var("DEBUG_C16").is_ok() {
                            eprintln!("CANON h1 {}:\nA={}\nB={}", p, a.clone().unwrap_or(Value::Null), b.clone().unwrap_or(Value::Null));
                        }
                        sem_equal = false;
                    }
                }
            }
        }
        // the same for the second history
        for (pi, p) in set.iter().enumerate() {
            let rf = &resp["results"][2 + pi];
            if rf["returned"][0].get("threw").is_some() {
                continue;
            }
            if let Some(ci) = case.h2.iter().position(|c| c == p && r2["returned"][case.h2.iter().position(|x| x == c).unwrap_or(0)].get("threw").is_none()) {
                let a = canon_of(&r2["returned"][ci]["r"], e2, &case.cfg);
                let b = canon_of(&rf["returned"][0]["r"], &rf["exported"]["r"], &case.cfg);
                if a.is_none() || b.is_none() || a != b {
                    sem_equal = false;
                }
            }
        }
        if !raw.is_empty() {
            // root cause of a purely textual difference: the synthetic definition of a discriminated-union variant is
            // named by the union's *structural* hash, but its body keeps the alias boundaries of whichever spelling of
            // the union was printed first (first writer wins).  Decided, not assumed: every returned schema says the
            // same thing with references inlined, and synthetic variant definitions exist.
            let has_synth = defs1.keys().any(|k| k.starts_with("Discriminated"));
            // ... and only synthetic definitions differ, or a definition is present on one side only
            if sem_equal && has_synth && raw.iter().all(|r| r.3) {
                let (_, what, det, _) = raw.remove(0);
                out.mismatch(ctx, "c16_synthetic_variant_definition_spelling", format!("{} [same meaning with references inlined; synthetic Discriminated* definitions keep the first spelling]", what), det);
            } else if !case.overrides.is_empty() && has_synth && raw.iter().all(|r| r.3 && differs_in_ref_targets_only(&r.2["more"], &case.cfg)) {
                // the same first-spelling-wins root cause, met together with namedTypeSchemaOverrides: the two spellings of one
                // union reach a structurally equal member through different alias names, one of which is overridden, so the
                // spelling that was kept now also decides the meaning.  Decided: only synthetic definitions differ, and they
                // differ in nothing but the names their $refs point to.
                let (_, what, det, _) = raw.remove(0);
                out.mismatch(ctx, "c16_synthetic_variant_definition_spelling:ref_targets_under_override", format!("{} [synthetic Discriminated* definitions keep the first spelling; the spellings differ only in which alias a $ref names, and an override is in force]", what), det);
            } else {
                for (sig, what, det, _) in raw.drain(..) {
                    out.mismatch(ctx, &sig, what, det);
                }
            }
        }
        // (3) every reference resolves in the final export
        let mut use_count: BTreeMap<String, u32> = BTreeMap::new();
        let mut check_refs = |what: String, v: &Value, out: &mut Outcome| {
            let root = match compose_root(&json!({}), e1, &case.cfg) {
                Ok(r) => r,
                Err(_) => return,
            };
            let mut refs = BTreeSet::new();
            collect_refs(v, &mut refs);
            for r in refs {
                let ok = r.strip_prefix('#').map(|p| p.is_empty() || root.pointer(p).is_some()).unwrap_or(false);
                *use_count.entry(r.clone()).or_insert(0) += 1;
                if !ok {
                    out.mismatch(ctx, "c16_dangling_ref", format!("{} refers to {} which does not resolve in the final export", what, r), detail(json!({"where": what, "ref": r, "export": e1})));
                }
            }
        };
        for (ci, c) in case.h1.iter().enumerate() {
            check_refs(format!("schema returned by call #{} ({})", ci, c), &r1["returned"][ci]["r"], &mut out);
        }
        for (name, body) in &defs1 {
            check_refs(format!("definition {}", name), body, &mut out);
        }
        let shared = use_count.values().any(|n| *n >= 2);
        if shared {
            out.label("shared_definition");
        }
        let rec = case.roots.iter().filter(|r| set.contains(&r.0)).any(|r| recursive(&case.env, &r.1));
        if rec {
            out.label("has_recursion");
        }
        if (set.len() >= 2 && shared) || rec {
            out.nontrivial = Some(fp(&(case.program.clone(), case.h1.clone(), case.h2.clone())));
            out.sample = Some(json!({"program": case.program, "h1": case.h1, "h2": case.h2, "cfg": case.cfg, "definitions": defs1.keys().collect::<Vec<_>>()}));
        }
        out
    }
}
