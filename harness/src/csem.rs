//! C05 (assignability = inclusion), C06 (set operations exact), C07 (semantic results reach codegen unchanged)
use crate::compile::CompileFail;
use crate::den::{gen_env_and_roots, mutate_type, Env, GenCfg, Prop, D};
use crate::jsval::{JsVal, Proto};
use crate::member::{Mode, Ref, Tri};
use crate::runner::{fp, Check, Ctx, Outcome, Tier};
use crate::src::Src;
use serde::{Deserialize, Serialize};
use serde_json::{json, Value};
use std::collections::BTreeSet;

pub fn sem_cfg() -> GenCfg {
    GenCfg {
        non_json: false,
        formats: false,
        templates: false,
        any: false,
        never: false,
        inter: true,
        index: true,
        recursion: true,
        max_depth: 3,
        max_defs: 2,
        object_bias: 1,
        only_null: true,
    }
}

// ------------------------------------------------------------------------------------------------
// enumeration of exact values
// ------------------------------------------------------------------------------------------------
#[derive(Default, Debug, Clone)]
pub struct Vocab {
    pub strs: Vec<String>,
    pub nums: Vec<String>,
    pub keys: Vec<String>,
    pub max_prefix: usize,
    /// number of array/tuple nodes: a counterexample may need one element per list alternative it must escape
    pub list_nodes: usize,
}

fn collect_vocab(env: &Env, d: &D, v: &mut Vocab, seen: &mut Vec<usize>) {
    match d {
        D::StrLit(s) => {
            if !v.strs.contains(s) {
                v.strs.push(s.clone());
            }
        }
        D::NumLit(n) => {
            if !v.nums.contains(n) {
                v.nums.push(n.clone());
            }
        }
        D::Tuple(p, _) => {
            v.max_prefix = v.max_prefix.max(p.len());
            v.list_nodes += 1;
        }
        D::Array(_) => v.list_nodes += 1,
        D::Object { props, .. } => {
            for p in props {
                if !v.keys.contains(&p.key) {
                    v.keys.push(p.key.clone());
                }
            }
        }
        D::Ref(i) => {
            if !seen.contains(i) {
                seen.push(*i);
                collect_vocab(env, env.get(*i), v, seen);
            }
        }
        _ => {}
    }
    for c in d.children() {
        collect_vocab(env, c, v, seen);
    }
}

pub fn vocab_of(env: &Env, a: &D, b: &D) -> Vocab {
    let mut v = Vocab::default();
    let mut seen = vec![];
    collect_vocab(env, a, &mut v, &mut seen);
    collect_vocab(env, b, &mut v, &mut seen);
    v.strs.push("~fresh".to_string());
    v.nums.push("7".to_string());
    v.keys.push("zz".to_string());
    v
}

pub struct Enumerator<'a> {
    pub env: &'a Env,
    pub vocab: &'a Vocab,
    pub cap: usize,
    /// false once a cap or a recursion cut was hit
    pub complete: bool,
    /// global work budget (values produced)
    pub budget: usize,
}

impl<'a> Enumerator<'a> {
    pub fn values(&mut self, d: &D, unroll: usize) -> Vec<JsVal> {
        let cap = self.cap;
        if self.budget == 0 {
            self.complete = false;
            return vec![];
        }
        let mut out = self.values_inner(d, unroll);
        self.budget = self.budget.saturating_sub(out.len() + 1);
        // structural dedup
        let mut seen = BTreeSet::new();
        out.retain(|v| seen.insert(serde_json::to_string(v).unwrap()));
        if out.len() > cap {
            self.complete = false;
            out.truncate(cap);
        }
        out
    }

    fn product(&mut self, parts: Vec<Vec<JsVal>>) -> Vec<Vec<JsVal>> {
        let mut acc: Vec<Vec<JsVal>> = vec![vec![]];
        for p in parts {
            let mut next = vec![];
            'outer: for a in &acc {
                for x in &p {
                    if next.len() >= self.cap || self.budget == 0 {
                        self.complete = false;
                        break 'outer;
                    }
                    self.budget = self.budget.saturating_sub(1);
                    let mut a2 = a.clone();
                    a2.push(x.clone());
                    next.push(a2);
                }
            }
            acc = next;
        }
        acc
    }

    fn values_inner(&mut self, d: &D, unroll: usize) -> Vec<JsVal> {
        match d {
            D::Never => vec![],
            D::Null => vec![JsVal::Null],
            D::Bool => vec![JsVal::Bool(true), JsVal::Bool(false)],
            D::BoolLit(b) => vec![JsVal::Bool(*b)],
            D::Num => self.vocab.nums.iter().map(|n| JsVal::Num(n.clone())).collect(),
            D::NumLit(n) => vec![JsVal::Num(n.clone())],
            D::Str => self.vocab.strs.iter().map(|s| JsVal::Str(s.clone())).collect(),
            D::StrLit(s) => vec![JsVal::Str(s.clone())],
            D::Array(item) => {
                let elems = self.values(item, unroll);
                // enough positions to escape every list alternative of the other side (bounded at 3 extra)
                if self.vocab.list_nodes > 6 {
                    self.complete = false;
                }
                let max_len = (self.vocab.max_prefix + 1 + self.vocab.list_nodes.min(6) / 2).min(4);
                let mut out = vec![JsVal::Arr(vec![])];
                for n in 1..=max_len {
                    let combos = self.product(vec![elems.clone(); n]);
                    out.extend(combos.into_iter().map(JsVal::Arr));
                }
                out
            }
            D::Tuple(prefix, rest) => {
                let mut parts = vec![];
                for p in prefix {
                    parts.push(self.values(p, unroll));
                }
                let base = self.product(parts);
                let mut out: Vec<JsVal> = base.iter().cloned().map(JsVal::Arr).collect();
                if let Some(r) = rest {
                    let relems = self.values(r, unroll);
                    let extra = (self.vocab.max_prefix + 1 + self.vocab.list_nodes.min(6) / 2).saturating_sub(prefix.len()).max(1).min(3);
                    for n in 1..=extra {
                        let tails = self.product(vec![relems.clone(); n]);
                        for b in &base {
                            for t in &tails {
                                if out.len() >= self.cap {
                                    self.complete = false;
                                    break;
                                }
                                let mut v = b.clone();
                                v.extend(t.clone());
                                out.push(JsVal::Arr(v));
                            }
                        }
                    }
                }
                out
            }
            D::Object { props, index } => {
                // per property: required -> values; optional -> absent + values
                let mut parts: Vec<Vec<Option<JsVal>>> = vec![];
                for p in props {
                    let vs = self.values(&p.ty, unroll);
                    let mut opts: Vec<Option<JsVal>> = vs.into_iter().map(Some).collect();
                    if p.optional {
                        opts.insert(0, None);
                    }
                    parts.push(opts);
                }
                let mut combos: Vec<Vec<Option<JsVal>>> = vec![vec![]];
                for p in parts {
                    let mut next = vec![];
                    for a in &combos {
                        for x in &p {
                            if next.len() >= self.cap {
                                self.complete = false;
                                break;
                            }
                            let mut a2 = a.clone();
                            a2.push(x.clone());
                            next.push(a2);
                        }
                    }
                    combos = next;
                }
                let mut out = vec![];
                for c in &combos {
                    let kv: Vec<(String, JsVal)> = props.iter().zip(c.iter()).filter_map(|(p, v)| v.clone().map(|v| (p.key.clone(), v))).collect();
                    out.push(JsVal::Obj(kv.clone(), Proto::Plain));
                    if let Some(ix) = index {
                        // 1 and 2 extra keys: every vocabulary key the object does not declare (incl. a fresh one)
                        let ivals = self.values(ix, unroll);
                        let extra_keys: Vec<String> = self.vocab.keys.iter().filter(|k| !props.iter().any(|p| p.key == **k)).cloned().collect();
                        for (ki, k) in extra_keys.iter().enumerate() {
                            for v in &ivals {
                                if out.len() >= self.cap {
                                    self.complete = false;
                                    break;
                                }
                                let mut kv2 = kv.clone();
                                kv2.push((k.clone(), v.clone()));
                                out.push(JsVal::Obj(kv2.clone(), Proto::Plain));
                                if let (Some(k2), Some(v2)) = (extra_keys.get(ki + 1), ivals.first()) {
                                    let mut kv3 = kv2.clone();
                                    kv3.push((k2.clone(), v2.clone()));
                                    out.push(JsVal::Obj(kv3, Proto::Plain));
                                }
                            }
                        }
                    }
                }
                out
            }
            D::Union(ms) => {
                let mut out = vec![];
                for m in ms {
                    out.extend(self.values(m, unroll));
                }
                out
            }
            D::Inter(ms) => {
                let mut r = Ref::new(self.env, Mode::Open);
                r.ts_nullish = true;
                if let Some(merged) = r.merge_objects(ms) {
                    // merging resolves references: account for it, or recursive types never bottom out
                    let through_ref = ms.iter().any(|m| m.any_node(&mut |n| matches!(n, D::Ref(_))));
                    if through_ref {
                        if unroll == 0 {
                            self.complete = false;
                            return vec![];
                        }
                        return self.values(&merged, unroll - 1);
                    }
                    return self.values(&merged, unroll);
                }
                // other intersections: members of the first that are members of the rest (these are values of the
                // intersection, but not necessarily all of its exact values)
                self.complete = false;
                let first = self.values(&ms[0], unroll);
                first.into_iter().filter(|v| ms[1..].iter().all(|m| r.member(m, v) == Tri::Yes)).collect()
            }
            D::Ref(i) => {
                if unroll == 0 {
                    self.complete = false;
                    return vec![];
                }
                self.values(self.env.get(*i), unroll - 1)
            }
            // outside the fragment
            _ => {
                self.complete = false;
                vec![]
            }
        }
    }
}

/// TypeScript requires every named property of an object type with an index signature to be assignable to the
/// index value type; after random edits this is re-established by giving such properties that very type.
pub fn repair_indexed(d: &D) -> D {
    match d {
        D::Array(x) => D::Array(Box::new(repair_indexed(x))),
        D::Set(x) => D::Set(Box::new(repair_indexed(x))),
        D::Map(a, b) => D::Map(Box::new(repair_indexed(a)), Box::new(repair_indexed(b))),
        D::Tuple(p, r) => D::Tuple(p.iter().map(repair_indexed).collect(), r.as_ref().map(|x| Box::new(repair_indexed(x)))),
        D::Union(ms) => D::Union(ms.iter().map(repair_indexed).collect()),
        D::Inter(ms) => D::Inter(ms.iter().map(repair_indexed).collect()),
        D::Object { props, index } => {
            let index2 = index.as_ref().map(|x| Box::new(repair_indexed(x)));
            let props2 = props
                .iter()
                .map(|p| match &index2 {
                    Some(ix) => Prop { key: p.key.clone(), ty: (**ix).clone(), optional: false },
                    None => Prop { key: p.key.clone(), ty: repair_indexed(&p.ty), optional: p.optional },
                })
                .collect();
            D::Object { props: props2, index: index2 }
        }
        other => other.clone(),
    }
}

/// Coarse feature of a pair that two known findings hinge on (used to key their signatures).
pub fn pair_feature(env: &Env, a: &D, b: &D) -> Option<&'static str> {
    let vocab = vocab_of(env, a, b);
    let mut uninhabited_index = false;
    let mut inter_with_index = false;
    let mut uninhabited_inter = false;
    let mut empty_object_in_union = false;
    let mut recursive_index = false;
    for (i, (_, d)) in env.defs.iter().enumerate() {
        // a definition that reaches itself through an index signature value
        d.any_node(&mut |n| {
            if let D::Object { index: Some(ix), .. } = n {
                let mut queue: Vec<&D> = vec![ix];
                let mut visited: Vec<usize> = vec![];
                while let Some(x) = queue.pop() {
                    let mut found: Vec<usize> = vec![];
                    x.any_node(&mut |y| {
                        if let D::Ref(j) = y {
                            found.push(*j);
                        }
                        false
                    });
                    for j in found {
                        if j == i {
                            recursive_index = true;
                        } else if !visited.contains(&j) {
                            visited.push(j);
                            queue.push(env.get(j));
                        }
                    }
                }
            }
            false
        });
    }
    let mut r = Ref::new(env, Mode::Open);
    r.ts_nullish = true;
    let mut visit = |d: &D| {
        d.any_node(&mut |n| {
            match n {
                D::Object { index: Some(ix), .. } => {
                    let mut en = Enumerator { env, vocab: &vocab, cap: 20, complete: true, budget: 300 };
                    if en.values(ix, 2).is_empty() {
                        uninhabited_index = true;
                    }
                }
                D::Union(ms) => {
                    let empties = ms.iter().filter(|m| matches!(r.head(m), D::Object { props, index: None } if props.is_empty())).count();
                    let objects = ms.iter().filter(|m| matches!(r.head(m), D::Object { .. } | D::Inter(_))).count();
                    if empties >= 1 && objects >= 2 {
                        empty_object_in_union = true;
                    }
                }
                D::Inter(ms) => {
                    if ms.iter().any(|m| matches!(r.head(m), D::Object { index: Some(_), .. })) {
                        inter_with_index = true;
                    }
                    let mut en = Enumerator { env, vocab: &vocab, cap: 20, complete: true, budget: 300 };
                    if en.values(n, 2).is_empty() && en.complete {
                        uninhabited_inter = true;
                    }
                }
                _ => {}
            }
            false
        });
    };
    visit(a);
    visit(b);
    for (_, d) in &env.defs {
        visit(d);
    }
    if recursive_index {
        Some("recursive_index_signature")
    } else if uninhabited_index {
        Some("uninhabited_index_value")
    } else if inter_with_index {
        Some("intersection_with_index_signature")
    } else if uninhabited_inter {
        Some("uninhabited_intersection")
    } else if empty_object_in_union {
        Some("empty_object_type_in_union")
    } else {
        None
    }
}

#[derive(Debug, Clone, Serialize, Deserialize)]
pub struct PairCase {
    pub env: Env,
    pub a: D,
    pub b: D,
}

fn as_bool(v: &Value) -> Option<bool> {
    v.as_bool()
}

pub struct C05;
impl Check for C05 {
    fn id(&self) -> &'static str {
        "C05"
    }
    fn cases(&self, tier: Tier) -> u32 {
        match tier {
            Tier::Quick => 30_000,
            Tier::Thorough => 1_000_000,
        }
    }
    fn stream_len(&self) -> usize {
        600
    }
    fn rule(&self) -> String {
        "case = pair (A,B) of types of the quantifier's fragment (null, booleans, numbers, strings, literals, arrays, tuples with rest, objects with required/optional properties and string index signatures, unions, intersections, <=2 named possibly recursive definitions); B is usually one structural edit of A (widen/narrow a leaf, toggle optionality, add/drop a property, change tuple length/rest, add a union member). Both are built through the public Runtype/NamedSchema API and asked is_subtype / is_same_type in the engine (subprocess, watchdog). Oracle = set-theoretic reference with witnesses: enum_exact(A) enumerates exact values of A over the pair's vocabulary closure (+ one fresh string/number/key, array lengths 0..maxprefix+1, optional keys present/absent, 0-2 index keys, recursion unrolled 3 times, cap 80 values per node and a work budget of 20000 per pair; array lengths up to maxprefix+1+(list alternatives/2), at most 4). 'yes' AND some enumerated w with reference open-membership(B,w)=No => violation (sound regardless of completeness); 'no' AND enumeration complete AND every enumerated value definitely in B => violation; is_same_type == (A<=B AND B<=A); the same question in a fresh context gives the same answer; every call returns within 10 s. Non-trivial = same top-level kind, syntactically different, neither side any/never. Distinct = hash(A,B).".into()
    }
    fn assumptions(&self) -> Vec<String> {
        vec![
            "small-model assumption for the 'no => witness' direction: a counterexample exists within the vocabulary closure and the stated length/key bounds; it is only asserted when the enumeration hit no cap and no recursion cut and no enumerated value fell into the reference's unspecified zone".into(),
            "an Err from the engine (documented unsupported combination) is 'no decision' (counted)".into(),
        ]
    }
    fn health(&self) -> Vec<(&'static str, f64)> {
        vec![("decision:yes", 0.15), ("decision:no", 0.2)]
    }
    fn threads(&self) -> usize {
        12
    }
    fn generate(&self, s: &mut Src, _tier: Tier) -> Value {
        let cfg = sem_cfg();
        let (env, roots) = gen_env_and_roots(s, &cfg, 1);
        let a = roots[0].clone();
        let b = match s.below(10) {
            0 => crate::den::gen_type(s, &cfg, env.defs.len(), 2),
            1 => a.clone(),
            2 | 3 => {
                let m = mutate_type(&a, s, &cfg, env.defs.len());
                mutate_type(&m, s, &cfg, env.defs.len())
            }
            _ => mutate_type(&a, s, &cfg, env.defs.len()),
        };
        let (a, b) = if s.chance(1, 2) { (a, b) } else { (b, a) };
        let (a, b) = (repair_indexed(&a), repair_indexed(&b));
        serde_json::to_value(PairCase { env, a, b }).unwrap()
    }
    fn exec(&self, case: &Value, ctx: &mut Ctx) -> Outcome {
        let case: PairCase = match serde_json::from_value(case.clone()) {
            Ok(c) => c,
            Err(e) => return Outcome::infra(format!("bad case: {}", e)),
        };
        let mut out = Outcome::default();
        out.evals = 1;
        let detail = json!({"env": case.env, "a": case.a, "b": case.b});
        let ans = match ctx.compiler.sem(json!({"sem":"subtype","env":case.env,"a":case.a,"b":case.b}), if ctx.shrinking { 3 } else { 10 }) {
            Ok(v) => v,
            Err(CompileFail::Timeout) => {
                out.mismatch(ctx, "subtype_hang", "the assignability decision did not terminate within 10 s", detail);
                return out;
            }
            Err(CompileFail::Crashed(st)) => {
                out.mismatch(ctx, "subtype_crash", format!("the assignability decision crashed the process ({})", st), detail);
                return out;
            }
            Err(CompileFail::Infra(e)) => return Outcome::infra(e),
        };
        if let Some(p) = ans.get("panic") {
            out.mismatch(ctx, &format!("subtype_panic:{}", crate::c01::panic_site(p.as_str().unwrap_or(""))), format!("the engine panicked: {}", p), detail);
            return out;
        }
        if ans.get("convert_err").is_some() {
            out.label("no_decision:convert_err");
            return out;
        }
        let (ab, ba, same, fresh) = (as_bool(&ans["ab"]), as_bool(&ans["ba"]), as_bool(&ans["same"]), as_bool(&ans["ab_fresh"]));
        let ab = match ab {
            Some(b) => b,
            None => {
                out.label("no_decision:engine_err");
                return out;
            }
        };
        out.label(if ab { "decision:yes" } else { "decision:no" });
        if let (Some(ba), Some(same)) = (ba, same) {
            if same != (ab && ba) {
                out.mismatch(ctx, "same_type_inconsistent", format!("is_same_type={} but is_subtype both ways = ({}, {})", same, ab, ba), detail.clone());
            }
        }
        if let Some(f) = fresh {
            if f != ab {
                out.mismatch(ctx, "decision_depends_on_context", format!("is_subtype answered {} and, in a fresh context, {}", ab, f), detail.clone());
            }
        }
        // reference
        let vocab = vocab_of(&case.env, &case.a, &case.b);
        let mut en = Enumerator { env: &case.env, vocab: &vocab, cap: 80, complete: true, budget: 20000 };
        let ws = en.values(&case.a, 3);
        let complete = en.complete;
        let mut r = Ref::new(&case.env, Mode::Open);
        r.ts_nullish = true;
        let mut witness: Option<JsVal> = None;
        let mut unspec = false;
        let mut checked = 0;
        for w in &ws {
            // sanity: an enumerated value must be a member of A (guards the enumerator itself)
            match r.member(&case.a, w) {
                Tri::Yes => {}
                Tri::Unspec => {
                    unspec = true;
                    continue;
                }
                Tri::No => return Outcome::infra(format!("enumerator produced a non-member: {:?} for {:?}", w, case.a)),
            }
            checked += 1;
            match r.member(&case.b, w) {
                Tri::No => {
                    witness = Some(w.clone());
                    break;
                }
                Tri::Unspec => unspec = true,
                Tri::Yes => {}
            }
        }
        out.label(if complete { "enumeration:complete" } else { "enumeration:partial" });
        let head_a = r.head(&case.a).label();
        let head_b = r.head(&case.b).label();
        let nontrivial = head_a == head_b && case.a != case.b && !matches!(case.a, D::Any | D::Never) && !matches!(case.b, D::Any | D::Never);
        if nontrivial {
            out.nontrivial = Some(fp(&detail.to_string()));
            out.sample = Some(json!({"a": case.a, "b": case.b, "env": case.env, "beff_says_a_assignable_to_b": ab, "witness": witness.as_ref().map(|w| w.to_tagged()), "values_enumerated": ws.len(), "complete": complete}));
        }
        let feature = pair_feature(&case.env, &case.a, &case.b);
        let sig = |base: &str| match feature {
            Some(f) => format!("{}:{}", base, f),
            None => base.to_string(),
        };
        if let Some(f) = feature {
            out.label(format!("feature:{}", f));
        }
        if ab {
            if let Some(w) = witness {
                out.mismatch(
                    ctx,
                    &sig("says_assignable_but_witness"),
                    "beff says A is assignable to B, but an exact value of A is not a value of B",
                    json!({"env": case.env, "a": case.a, "b": case.b, "witness": w, "witness_tagged": w.to_tagged()}),
                );
            }
        } else if complete && !unspec && witness.is_none() && checked > 0 {
            out.mismatch(
                ctx,
                &sig("says_not_assignable_but_no_witness"),
                format!("beff says A is not assignable to B, but all {} exact values of A (complete enumeration) are values of B", checked),
                detail,
            );
        }
        out
    }
}
