//! C05 (assignability = inclusion), C06 (set operations exact), C07 (semantic results reach codegen unchanged)
use crate::compile::CompileFail;
use crate::den::{gen_env_and_roots, mutate_type, Env, GenCfg, Prop, D};
use crate::jsval::{JsVal, Proto};
use crate::member::{Mode, Ref, Tri};
use crate::runner::{fp, Check, Ctx, Outcome, Tier};
use crate::src::Src;
use serde::{Deserialize, Serialize};
use serde_json::{json, Value};
use std::collections::BTreeSet;

pub fn sem_cfg() -> GenCfg {
    GenCfg {
        non_json: false,
        formats: false,
        templates: false,
        any: false,
        never: false,
        inter: true,
        index: true,
        recursion: true,
        max_depth: 3,
        max_defs: 2,
        object_bias: 1,
        only_null: true,
        inter_nullable: false,
        inter_lists: true,
        inter_indexed: true,
        odd_names: false,
    }
}

// ------------------------------------------------------------------------------------------------
// enumeration of exact values
// ------------------------------------------------------------------------------------------------
#[derive(Default, Debug, Clone)]
pub struct Vocab {
    pub strs: Vec<String>,
    pub nums: Vec<String>,
    pub keys: Vec<String>,
    pub max_prefix: usize,
    /// number of array/tuple nodes: a counterexample may need one element per list alternative it must escape
    pub list_nodes: usize,
}

fn collect_vocab(env: &Env, d: &D, v: &mut Vocab, seen: &mut Vec<usize>) {
    match d {
        D::StrLit(s) => {
            if !v.strs.contains(s) {
                v.strs.push(s.clone());
            }
        }
        D::NumLit(n) => {
            if !v.nums.contains(n) {
                v.nums.push(n.clone());
            }
        }
        D::Tuple(p, _) => {
            v.max_prefix = v.max_prefix.max(p.len());
            v.list_nodes += 1;
        }
        D::Array(_) => v.list_nodes += 1,
        D::Object { props, .. } => {
            for p in props {
                if !v.keys.contains(&p.key) {
                    v.keys.push(p.key.clone());
                }
            }
        }
        D::Ref(i) => {
            if !seen.contains(i) {
                seen.push(*i);
                collect_vocab(env, env.get(*i), v, seen);
            }
        }
        _ => {}
    }
    for c in d.children() {
        collect_vocab(env, c, v, seen);
    }
}

pub fn vocab_of(env: &Env, a: &D, b: &D) -> Vocab {
    let mut v = Vocab::default();
    let mut seen = vec![];
    collect_vocab(env, a, &mut v, &mut seen);
    collect_vocab(env, b, &mut v, &mut seen);
    v.strs.push("~fresh".to_string());
    v.nums.push("7".to_string());
    v.keys.push("zz".to_string());
    v
}

pub struct Enumerator<'a> {
    pub env: &'a Env,
    pub vocab: &'a Vocab,
    pub cap: usize,
    /// false once a cap or a recursion cut was hit
    pub complete: bool,
    /// global work budget (values produced)
    pub budget: usize,
}

impl<'a> Enumerator<'a> {
    pub fn values(&mut self, d: &D, unroll: usize) -> Vec<JsVal> {
        let cap = self.cap;
        if self.budget == 0 {
            self.complete = false;
            return vec![];
        }
        let mut out = self.values_inner(d, unroll);
        self.budget = self.budget.saturating_sub(out.len() + 1);
        // structural dedup
        let mut seen = BTreeSet::new();
        out.retain(|v| seen.insert(serde_json::to_string(v).unwrap()));
        if out.len() > cap {
            self.complete = false;
            out.truncate(cap);
        }
        out
    }

    fn product(&mut self, parts: Vec<Vec<JsVal>>) -> Vec<Vec<JsVal>> {
        let mut acc: Vec<Vec<JsVal>> = vec![vec![]];
        for p in parts {
            let mut next = vec![];
            'outer: for a in &acc {
                for x in &p {
                    if next.len() >= self.cap || self.budget == 0 {
                        self.complete = false;
                        break 'outer;
                    }
                    self.budget = self.budget.saturating_sub(1);
                    let mut a2 = a.clone();
                    a2.push(x.clone());
                    next.push(a2);
                }
            }
            acc = next;
        }
        acc
    }

    fn values_inner(&mut self, d: &D, unroll: usize) -> Vec<JsVal> {
        match d {
            D::Never => vec![],
            D::Null => vec![JsVal::Null],
            D::Undefined | D::Void => vec![JsVal::Undef],
            D::Date => vec![JsVal::Date(Some(1700000000000))],
            D::BigInt => vec![JsVal::BigInt("10".into())],
            D::TypedArray(k) => vec![JsVal::TypedArr(*k, vec![1, 2])],
            D::Any => vec![JsVal::Null, JsVal::str("~fresh"), JsVal::num("7")],
            D::Map(_, _) => vec![JsVal::Map(vec![])],
            D::Set(_) => vec![JsVal::Set(vec![])],
            D::Bool => vec![JsVal::Bool(true), JsVal::Bool(false)],
            D::BoolLit(b) => vec![JsVal::Bool(*b)],
            D::Num => self.vocab.nums.iter().map(|n| JsVal::Num(n.clone())).collect(),
            D::NumLit(n) => vec![JsVal::Num(n.clone())],
            D::Str => self.vocab.strs.iter().map(|s| JsVal::Str(s.clone())).collect(),
            D::StrLit(s) => vec![JsVal::Str(s.clone())],
            D::Array(item) => {
                let elems = self.values(item, unroll);
                // enough positions to escape every list alternative of the other side (bounded at 3 extra)
                if self.vocab.list_nodes > 6 {
                    self.complete = false;
                }
                let max_len = (self.vocab.max_prefix + 1 + self.vocab.list_nodes.min(6) / 2).min(4);
                let mut out = vec![JsVal::Arr(vec![])];
                for n in 1..=max_len {
                    let combos = self.product(vec![elems.clone(); n]);
                    out.extend(combos.into_iter().map(JsVal::Arr));
                }
                out
            }
            D::Tuple(prefix, rest) => {
                let mut parts = vec![];
                for p in prefix {
                    parts.push(self.values(p, unroll));
                }
                let base = self.product(parts);
                let mut out: Vec<JsVal> = base.iter().cloned().map(JsVal::Arr).collect();
                if let Some(r) = rest {
                    let relems = self.values(r, unroll);
                    let extra = (self.vocab.max_prefix + 1 + self.vocab.list_nodes.min(6) / 2).saturating_sub(prefix.len()).max(1).min(3);
                    for n in 1..=extra {
                        let tails = self.product(vec![relems.clone(); n]);
                        for b in &base {
                            for t in &tails {
                                if out.len() >= self.cap {
                                    self.complete = false;
                                    break;
                                }
                                let mut v = b.clone();
                                v.extend(t.clone());
                                out.push(JsVal::Arr(v));
                            }
                        }
                    }
                }
                out
            }
            D::Object { props, index } => {
                // per property: required -> values; optional -> absent + values
                let mut parts: Vec<Vec<Option<JsVal>>> = vec![];
                for p in props {
                    let vs = self.values(&p.ty, unroll);
                    let mut opts: Vec<Option<JsVal>> = vs.into_iter().map(Some).collect();
                    if p.optional {
                        opts.insert(0, None);
                    }
                    parts.push(opts);
                }
                let mut combos: Vec<Vec<Option<JsVal>>> = vec![vec![]];
                for p in parts {
                    let mut next = vec![];
                    for a in &combos {
                        for x in &p {
                            if next.len() >= self.cap {
                                self.complete = false;
                                break;
                            }
                            let mut a2 = a.clone();
                            a2.push(x.clone());
                            next.push(a2);
                        }
                    }
                    combos = next;
                }
                let mut out = vec![];
                for c in &combos {
                    let kv: Vec<(String, JsVal)> = props.iter().zip(c.iter()).filter_map(|(p, v)| v.clone().map(|v| (p.key.clone(), v))).collect();
                    out.push(JsVal::Obj(kv.clone(), Proto::Plain));
                    if let Some(ix) = index {
                        // 1 and 2 extra keys: every vocabulary key the object does not declare (incl. a fresh one)
                        let ivals = self.values(ix, unroll);
                        let extra_keys: Vec<String> = self.vocab.keys.iter().filter(|k| !props.iter().any(|p| p.key == **k)).cloned().collect();
                        for (ki, k) in extra_keys.iter().enumerate() {
                            for v in &ivals {
                                if out.len() >= self.cap {
                                    self.complete = false;
                                    break;
                                }
                                let mut kv2 = kv.clone();
                                kv2.push((k.clone(), v.clone()));
                                out.push(JsVal::Obj(kv2.clone(), Proto::Plain));
                                if let (Some(k2), Some(v2)) = (extra_keys.get(ki + 1), ivals.first()) {
                                    let mut kv3 = kv2.clone();
                                    kv3.push((k2.clone(), v2.clone()));
                                    out.push(JsVal::Obj(kv3, Proto::Plain));
                                }
                            }
                        }
                    }
                }
                out
            }
            D::Union(ms) => {
                let mut out = vec![];
                for m in ms {
                    out.extend(self.values(m, unroll));
                }
                out
            }
            D::Inter(ms) => {
                let mut r = Ref::new(self.env, Mode::Open);
                r.ts_nullish = true;
                if let Some(merged) = r.merge_objects(ms) {
                    // merging resolves references: account for it, or recursive types never bottom out
                    let through_ref = ms.iter().any(|m| m.any_node(&mut |n| matches!(n, D::Ref(_))));
                    if through_ref {
                        if unroll == 0 {
                            self.complete = false;
                            return vec![];
                        }
                        return self.values(&merged, unroll - 1);
                    }
                    return self.values(&merged, unroll);
                }
                // intersections of list types over scalar elements: a list has no undeclared part, so the exact values
                // are the enumerated lists of any member that belong to every member
                let scalar_lists = ms.iter().all(|m| {
                    matches!(r.head(m), D::Array(_) | D::Tuple(_, _)) && !r.head(m).any_node(&mut |n| matches!(n, D::Object { .. } | D::Ref(_) | D::Inter(_) | D::Any))
                });
                if scalar_lists {
                    let mut all = vec![];
                    for m in ms {
                        all.extend(self.values(r.head(m), unroll));
                    }
                    return all.into_iter().filter(|v| ms.iter().all(|m| r.member(m, v) == Tri::Yes)).collect();
                }
                // other intersections: members of the first that are members of the rest (these are values of the
                // intersection, but not necessarily all of its exact values)
                self.complete = false;
                let first = self.values(&ms[0], unroll);
                first.into_iter().filter(|v| ms[1..].iter().all(|m| r.member(m, v) == Tri::Yes)).collect()
            }
            D::Ref(i) => {
                if unroll == 0 {
                    self.complete = false;
                    return vec![];
                }
                self.values(self.env.get(*i), unroll - 1)
            }
            // outside the fragment
            _ => {
                self.complete = false;
                vec![]
            }
        }
    }
}

/// TypeScript requires every named property of an object type with an index signature to be assignable to the
/// index value type; after random edits this is re-established by giving such properties that very type.
pub fn repair_indexed(d: &D) -> D {
    match d {
        D::Array(x) => D::Array(Box::new(repair_indexed(x))),
        D::Set(x) => D::Set(Box::new(repair_indexed(x))),
        D::Map(a, b) => D::Map(Box::new(repair_indexed(a)), Box::new(repair_indexed(b))),
        D::Tuple(p, r) => D::Tuple(p.iter().map(repair_indexed).collect(), r.as_ref().map(|x| Box::new(repair_indexed(x)))),
        D::Union(ms) => D::Union(ms.iter().map(repair_indexed).collect()),
        D::Inter(ms) => D::Inter(ms.iter().map(repair_indexed).collect()),
        D::Object { props, index } => {
            let index2 = index.as_ref().map(|x| Box::new(repair_indexed(x)));
            let props2 = props
                .iter()
                .map(|p| match &index2 {
                    Some(ix) => Prop { key: p.key.clone(), ty: (**ix).clone(), optional: false },
                    None => Prop { key: p.key.clone(), ty: repair_indexed(&p.ty), optional: p.optional },
                })
                .collect();
            D::Object { props: props2, index: index2 }
        }
        other => other.clone(),
    }
}

/// Coarse feature of a pair that two known findings hinge on (used to key their signatures).
pub fn pair_feature(env: &Env, a: &D, b: &D) -> Option<&'static str> {
    pair_features(env, a, b).first().copied()
}
/// every root-cause family present in the pair, in priority order
pub fn pair_features(env: &Env, a: &D, b: &D) -> Vec<&'static str> {
    let vocab = vocab_of(env, a, b);
    let mut uninhabited_index = false;
    let mut inter_with_index = false;
    let mut uninhabited_inter = false;
    let mut inter_and_record_same_named = false;
    let mut empty_object_in_union = false;
    let mut optional_sibling_in_union = false;
    let mut union_of_maps = false;
    let mut recursive_index = false;
    for (i, (_, d)) in env.defs.iter().enumerate() {
        // a definition that reaches itself through an index signature value
        d.any_node(&mut |n| {
            let container_elem: Option<&D> = match n {
                D::Object { index: Some(ix), .. } => Some(ix),
                D::Map(_, x) | D::Set(x) => Some(x),
                _ => None,
            };
            if let Some(ix) = container_elem {
                let mut queue: Vec<&D> = vec![ix];
                let mut visited: Vec<usize> = vec![];
                while let Some(x) = queue.pop() {
                    let mut found: Vec<usize> = vec![];
                    x.any_node(&mut |y| {
                        if let D::Ref(j) = y {
                            found.push(*j);
                        }
                        false
                    });
                    for j in found {
                        if j == i {
                            recursive_index = true;
                        } else if !visited.contains(&j) {
                            visited.push(j);
                            queue.push(env.get(j));
                        }
                    }
                }
            }
            false
        });
    }
    let mut r = Ref::new(env, Mode::Open);
    r.ts_nullish = true;
    let mut visit = |d: &D| {
        d.any_node(&mut |n| {
            match n {
                D::Object { index: Some(ix), .. } => {
                    let mut en = Enumerator { env, vocab: &vocab, cap: 400, complete: true, budget: 8000 };
                    if en.values(ix, 2).is_empty() {
                        uninhabited_index = true;
                    }
                }
                // Map<K, never> / Set<never> have the same shape: a container over an uninhabited type still has
                // its empty instance
                D::Map(_, x) | D::Set(x) => {
                    let mut en = Enumerator { env, vocab: &vocab, cap: 400, complete: true, budget: 8000 };
                    if en.values(x, 2).is_empty() && en.budget > 0 {
                        uninhabited_index = true;
                    }
                }
                D::Union(ms) => {
                    if ms.iter().filter(|m| matches!(r.head(m), D::Map(_, _))).count() >= 2 {
                        union_of_maps = true;
                    }
                    // members seen through aliases and nested unions
                    fn flat<'x>(r: &'x Ref<'x>, d: &'x D, out: &mut Vec<&'x D>, depth: usize) {
                        match r.head(d) {
                            D::Union(inner) if depth < 6 => inner.iter().for_each(|m| flat(r, m, out, depth + 1)),
                            other => out.push(other),
                        }
                    }
                    let mut fm: Vec<&D> = vec![];
                    ms.iter().for_each(|m| flat(&r, m, &mut fm, 0));
                    // `{}` and every object type whose properties are all optional ({a?: T}): {} is an exact value of them
                    let empties = fm.iter().filter(|m| matches!(m, D::Object { props, index: None } if props.iter().all(|p| p.optional))).count();
                    let objects = fm.iter().filter(|m| matches!(m, D::Object { .. } | D::Inter(_))).count();
                    if empties >= 1 && objects >= 2 {
                        empty_object_in_union = true;
                    }
                    // an intersection with a named member next to a record whose value type is (an alias of) that
                    // named type: such a union is not even assignable to itself
                    {
                        fn named_in(env: &Env, d: &D, out: &mut Vec<usize>, depth: usize) {
                            // named types mentioned by d, aliases followed to their target
                            d.any_node(&mut |n| {
                                if let D::Ref(i) = n {
                                    let mut j = *i;
                                    let mut hops = 0;
                                    while let D::Ref(k) = env.get(j) {
                                        j = *k;
                                        hops += 1;
                                        if hops > 6 {
                                            break;
                                        }
                                    }
                                    if !out.contains(&j) {
                                        out.push(j);
                                    }
                                }
                                false
                            });
                            let _ = depth;
                        }
                        let mut in_inter: Vec<usize> = vec![];
                        let mut in_record_value: Vec<usize> = vec![];
                        for m in &fm {
                            match m {
                                D::Inter(ims) => ims.iter().filter(|x| matches!(x, D::Ref(_))).for_each(|x| named_in(env, x, &mut in_inter, 0)),
                                D::Object { index: Some(ix), .. } => named_in(env, ix, &mut in_record_value, 0),
                                _ => {}
                            }
                        }
                        if in_inter.iter().any(|i| in_record_value.contains(i)) {
                            inter_and_record_same_named = true;
                        }
                    }
                    // more generally: a member whose required keys are a proper part of a sibling's keys
                    // ({a: "a"} next to {a: "a" | "b"; b: boolean}; {k: T; a?: null} next to {k: T; b: string}) absorbs
                    // that sibling
                    let merged: Vec<D> = fm
                        .iter()
                        .filter_map(|m| match m {
                            D::Object { .. } => Some((*m).clone()),
                            D::Inter(ims) => r.merge_objects(ims),
                            _ => None,
                        })
                        .collect();
                    let objs: Vec<(Vec<&String>, Vec<&String>)> = merged
                        .iter()
                        .filter_map(|m| match m {
                            D::Object { props, .. } => Some((props.iter().filter(|p| !p.optional).map(|p| &p.key).collect(), props.iter().map(|p| &p.key).collect())),
                            _ => None,
                        })
                        .collect();
                    for (i, (req_i, all_i)) in objs.iter().enumerate() {
                        for (j, (_, all_j)) in objs.iter().enumerate() {
                            if i != j && req_i.iter().all(|k| all_j.contains(k)) && all_j.iter().any(|k| !all_i.contains(k)) {
                                optional_sibling_in_union = true;
                            }
                        }
                    }
                }
                D::Inter(ms) => {
                    if ms.iter().any(|m| matches!(r.head(m), D::Object { index: Some(_), .. })) {
                        inter_with_index = true;
                    }
                    let mut en = Enumerator { env, vocab: &vocab, cap: 400, complete: true, budget: 8000 };
                    if en.values(n, 2).is_empty() && en.budget > 0 {
                        uninhabited_inter = true;
                    }
                }
                _ => {}
            }
            false
        });
    };
    // intersections are also looked at in merged form (same-named properties of the members meet there)
    fn merged_forms(r: &Ref, d: &D, out: &mut Vec<D>, depth: usize) {
        if depth > 4 {
            return;
        }
        d.any_node(&mut |n| {
            if let D::Inter(ms) = n {
                if let Some(m) = r.merge_objects(ms) {
                    out.push(m);
                }
            }
            false
        });
    }
    let mut extra: Vec<D> = vec![];
    merged_forms(&r, a, &mut extra, 0);
    merged_forms(&r, b, &mut extra, 0);
    for (_, d) in &env.defs {
        merged_forms(&r, d, &mut extra, 0);
    }
    let mut more: Vec<D> = vec![];
    for m in &extra {
        merged_forms(&r, m, &mut more, 1);
    }
    extra.extend(more);
    visit(a);
    visit(b);
    for (_, d) in &env.defs {
        visit(d);
    }
    for m in &extra {
        visit(m);
    }
    // one family: records / Maps / Sets over an empty value type are taken to be empty, and intersections that
    // involve index signatures or contradictory members are not analysed consistently
    // one family (records / Maps / Sets over an empty value type are taken to be empty, and intersections that involve
    // index signatures or contradictory members are not analysed consistently), keyed by the member that is present
    let mut out = vec![];
    if recursive_index {
        out.push("recursive_index");
    }
    if uninhabited_index {
        out.push("uninhabited_index_value");
    }
    if uninhabited_inter {
        out.push("uninhabited_intersection");
    }
    if inter_with_index {
        out.push("intersection_with_index_signature");
    }
    if inter_and_record_same_named {
        out.push("intersection_next_to_record_over_same_named_type");
    }
    if empty_object_in_union {
        out.push("empty_object_type_in_union");
    }
    if union_of_maps {
        out.push("union_of_maps");
    }
    if optional_sibling_in_union {
        out.push("union_member_with_fewer_keys");
    }
    out
}

/// Signatures for a mismatch on a type that was re-materialised from the semantic engine (a program that spells it
/// with Exclude or an indexed access): `<base>:engine:<family>` for every listed family of engine findings whose
/// trigger is present in the type, or just `<base>` when none is (so that the engine's findings do not cover for
/// anything else that goes wrong in such programs).
pub fn engine_family_sigs(base: &str, env: &Env, d: &D, v: Option<&JsVal>) -> Vec<String> {
    let mut fams: Vec<String> = pair_features(env, d, d).into_iter().map(|s| s.to_string()).collect();
    let mut seen = vec![false; env.defs.len()];
    fn has_any(env: &Env, d: &D, seen: &mut Vec<bool>) -> bool {
        d.any_node(&mut |n| match n {
            D::Any => true,
            D::Ref(i) if !seen[*i] => {
                seen[*i] = true;
                has_any(env, env.get(*i), seen)
            }
            _ => false,
        })
    }
    // `any` re-materialised from the engine only admits the engine's universe (no functions, symbols, cyclic objects):
    // that family needs both the `any` and such a value.  The engine has no notion of a property that is present with
    // the value undefined either (absent and undefined are one thing to it).
    // custom formats are opaque to the engine: a format that meets a literal or another format in an intersection
    // (StringFormat<"lower"> & "a") is taken to be empty
    let mut seen2 = vec![false; env.defs.len()];
    fn reaches_node(env: &Env, d: &D, seen: &mut Vec<bool>, pred: &dyn Fn(&D) -> bool) -> bool {
        d.any_node(&mut |n| {
            if pred(n) {
                return true;
            }
            match n {
                D::Ref(i) if !seen[*i] => {
                    seen[*i] = true;
                    reaches_node(env, env.get(*i), seen, pred)
                }
                _ => false,
            }
        })
    }
    if reaches_node(env, d, &mut seen2, &|n| matches!(n, D::StrFmt(_) | D::NumFmt(_))) {
        let mut seen3 = vec![false; env.defs.len()];
        if reaches_node(env, d, &mut seen3, &|n| matches!(n, D::Inter(_))) {
            fams.push("custom_format_inside_intersection".to_string());
        }
    }
    if let Some(v) = v {
        if !in_sem_universe(v) && has_any(env, d, &mut seen) {
            fams.push("any_closed_to_engine_universe".to_string());
        }
        fn undef_prop(v: &JsVal) -> bool {
            match v {
                JsVal::Obj(kv, _) => kv.iter().any(|(_, x)| matches!(x, JsVal::Undef) || undef_prop(x)),
                JsVal::Arr(xs) | JsVal::Set(xs) => xs.iter().any(undef_prop),
                JsVal::Map(kv) => kv.iter().any(|(a, b)| undef_prop(a) || undef_prop(b)),
                _ => false,
            }
        }
        if undef_prop(v) {
            fams.push("property_present_with_value_undefined".to_string());
        }
    }
    if fams.is_empty() {
        vec![base.to_string()]
    } else {
        fams.into_iter().map(|f| format!("{}:engine:{}", base, f)).collect()
    }
}

#[derive(Debug, Clone, Serialize, Deserialize)]
pub struct PairCase {
    pub env: Env,
    pub a: D,
    pub b: D,
    /// the pair was built from two definitions that are renamings of each other (same denotation by construction)
    #[serde(default)]
    pub iso: bool,
}

/// `d` with every reference to definition `from` redirected to definition `to`
fn redirect_refs(d: &D, from: usize, to: usize) -> D {
    let f = |x: &D| redirect_refs(x, from, to);
    match d {
        D::Ref(i) if *i == from => D::Ref(to),
        D::Array(x) => D::Array(Box::new(f(x))),
        D::Set(x) => D::Set(Box::new(f(x))),
        D::Map(k, v) => D::Map(Box::new(f(k)), Box::new(f(v))),
        D::Tuple(ps, r) => D::Tuple(ps.iter().map(f).collect(), r.as_ref().map(|r| Box::new(f(r)))),
        D::Object { props, index } => D::Object {
            props: props.iter().map(|p| crate::den::Prop { key: p.key.clone(), ty: f(&p.ty), optional: p.optional }).collect(),
            index: index.as_ref().map(|i| Box::new(f(i))),
        },
        D::Union(ms) => D::Union(ms.iter().map(f).collect()),
        D::Inter(ms) => D::Inter(ms.iter().map(f).collect()),
        other => other.clone(),
    }
}

fn refs_of(d: &D, out: &mut std::collections::BTreeSet<usize>) {
    match d {
        D::Ref(i) => {
            out.insert(*i);
        }
        D::Array(x) | D::Set(x) => refs_of(x, out),
        D::Map(k, v) => {
            refs_of(k, out);
            refs_of(v, out)
        }
        D::Tuple(ps, r) => {
            ps.iter().for_each(|p| refs_of(p, out));
            if let Some(r) = r {
                refs_of(r, out)
            }
        }
        D::Object { props, index } => {
            props.iter().for_each(|p| refs_of(&p.ty, out));
            if let Some(i) = index {
                refs_of(i, out)
            }
        }
        D::Union(ms) | D::Inter(ms) => ms.iter().for_each(|m| refs_of(m, out)),
        _ => {}
    }
}

/// Least fixpoint of "has a finite value", over-approximated at every node that is not a plain constructor: a type
/// this calls uninhabited has no value at all (a value needs a well-founded derivation), whatever the answer for
/// the others.
pub fn definitely_uninhabited(env: &Env, d: &D) -> bool {
    fn inh(env: &Env, d: &D, defs: &[bool]) -> bool {
        match d {
            D::Never => false,
            D::Ref(i) => defs[*i],
            D::Tuple(ps, _) => ps.iter().all(|p| inh(env, p, defs)),
            D::Object { props, .. } => props.iter().filter(|p| !p.optional).all(|p| inh(env, &p.ty, defs)),
            D::Union(ms) => ms.iter().any(|m| inh(env, m, defs)),
            D::Inter(ms) => ms.iter().all(|m| inh(env, m, defs)),
            _ => true,
        }
    }
    let mut defs = vec![false; env.defs.len()];
    loop {
        let next: Vec<bool> = env.defs.iter().map(|(_, b)| inh(env, b, &defs)).collect();
        if next == defs {
            break;
        }
        defs = next;
    }
    !inh(env, d, &defs)
}

/// bodies of self-recursive definitions (index `me`) whose decision needs the co-inductive cut of lists or of objects
fn recursive_body(s: &mut Src, me: usize) -> D {
    let leaf = |s: &mut Src| match s.below(4) {
        0 => D::Num,
        1 => D::Str,
        2 => D::StrLit("a".into()),
        _ => D::Bool,
    };
    let me_or_null = D::Union(vec![D::Ref(me), D::Null]);
    match s.below(9) {
        0 => D::Tuple(vec![leaf(s), me_or_null], None),
        1 => D::Tuple(vec![leaf(s)], Some(Box::new(D::Ref(me)))),
        2 => D::Tuple(vec![D::Ref(me)], None),
        3 => D::obj(vec![("a", leaf(s), false), ("n", D::Ref(me), true)]),
        4 => D::obj(vec![("a", D::Ref(me), false)]),
        5 => D::Union(vec![leaf(s), D::Array(Box::new(D::Ref(me)))]),
        6 => D::Tuple(vec![leaf(s), D::Union(vec![D::Tuple(vec![D::Ref(me)], None), D::Null])], None),
        7 => D::Tuple(vec![leaf(s), D::Ref(me)], None),
        _ => D::obj(vec![("a", leaf(s), false), ("n", me_or_null, false)]),
    }
}

fn as_bool(v: &Value) -> Option<bool> {
    v.as_bool()
}

pub struct C05;
impl Check for C05 {
    fn fuzz_runs(&self) -> u64 {
        80000
    }
    fn id(&self) -> &'static str {
        "C05"
    }
    fn cases(&self, tier: Tier) -> u32 {
        match tier {
            Tier::Quick => 60_000,
            Tier::Thorough => 1_000_000,
        }
    }
    fn stream_len(&self) -> usize {
        600
    }
    fn rule(&self) -> String {
        "case = pair (A,B) of types of the quantifier's fragment (null, booleans, numbers, strings, literals, arrays, tuples with rest, objects with required/optional properties and string index signatures, unions, intersections, <=2 named possibly recursive definitions); B is usually one structural edit of A (widen/narrow a leaf, toggle optionality, add/drop a property, change tuple length/rest, add a union member). Both are built through the public Runtype/NamedSchema API and asked is_subtype / is_same_type in the engine (subprocess, watchdog). Oracle = set-theoretic reference with witnesses: enum_exact(A) enumerates exact values of A over the pair's vocabulary closure (+ one fresh string/number/key, array lengths 0..maxprefix+1, optional keys present/absent, 0-2 index keys, recursion unrolled 3 times, cap 80 values per node and a work budget of 20000 per pair; array lengths up to maxprefix+1+(list alternatives/2), at most 4). 'yes' AND some enumerated w with reference open-membership(B,w)=No => violation (sound regardless of completeness); 'no' AND enumeration complete AND every enumerated value definitely in B => violation; is_same_type == (A<=B AND B<=A); the same question in a fresh context gives the same answer; every call returns within 10 s. Non-trivial = same top-level kind, syntactically different, neither side any/never. Distinct = hash(A,B).".into()
    }
    fn assumptions(&self) -> Vec<String> {
        vec![
            "small-model assumption for the 'no => witness' direction: a counterexample exists within the vocabulary closure and the stated length/key bounds; it is only asserted when the enumeration hit no cap and no recursion cut and no enumerated value fell into the reference's unspecified zone".into(),
            "an Err from the engine (documented unsupported combination) is 'no decision' (counted)".into(),
        ]
    }
    fn health(&self) -> Vec<(&'static str, f64)> {
        vec![("decision:yes", 0.15), ("decision:no", 0.2)]
    }
    fn threads(&self) -> usize {
        12
    }
    fn generate(&self, s: &mut Src, _tier: Tier) -> Value {
        let cfg = sem_cfg();
        let (mut env, roots) = gen_env_and_roots(s, &cfg, 1);
        // one case in ten: two definitions that are renamings of each other (equal by construction: the decision has to
        // get through its co-inductive cut), or a recursive type without a finite value against never
        if s.chance(1, 10) {
            let k = env.defs.len();
            if k + 2 <= crate::den::DEF_NAMES.len() {
                // either a definition the generator made (when it is recursive) or a small recursive shape
                let own = (0..k).find(|j| {
                    let mut r = std::collections::BTreeSet::new();
                    refs_of(&env.defs[*j].1, &mut r);
                    r.len() == 1 && r.contains(j)
                });
                let body = match own {
                    Some(j) if s.chance(1, 3) => redirect_refs(&env.defs[j].1.clone(), j, k),
                    _ => recursive_body(s, k),
                };
                env.defs.push((crate::den::DEF_NAMES[k].to_string(), body.clone()));
                env.defs.push((crate::den::DEF_NAMES[k + 1].to_string(), redirect_refs(&body, k, k + 1)));
                let wrap = |d: D, w: usize| match w {
                    0 | 1 => d,
                    2 => D::Array(Box::new(d)),
                    3 => D::Tuple(vec![d], None),
                    4 => D::obj(vec![("a", d, false)]),
                    _ => D::Union(vec![d, D::Null]),
                };
                let w = s.below(6);
                if definitely_uninhabited(&env, &D::Ref(k)) && s.chance(1, 2) {
                    let a = if w == 2 { D::Ref(k) } else { wrap(D::Ref(k), w) };
                    let b = if w == 5 { D::Null } else { D::Never };
                    return serde_json::to_value(PairCase { env, a, b, iso: false }).unwrap();
                }
                let (a, b) = (wrap(D::Ref(k), w), wrap(D::Ref(k + 1), w));
                return serde_json::to_value(PairCase { env, a, b, iso: true }).unwrap();
            }
        }
        // one case in fifteen: X against X & Y (and the other way round) for two object or list-of-object types that are
        // not related, named or inline in every combination: an intersection keeps both operands, whichever was
        // converted first
        if s.chance(1, 15) {
            let leaf = |s: &mut Src| match s.below(3) {
                0 => D::Num,
                1 => D::Str,
                _ => D::Bool,
            };
            let keys = ["a", "b", "c", "k"];
            let (k1, k2) = (keys[s.below(2)], keys[2 + s.below(2)]);
            let x = D::obj(vec![(k1, leaf(s), false)]);
            let y = D::obj(vec![(k2, leaf(s), false)]);
            let mut env2 = env.clone();
            let mut name_it = |env2: &mut Env, d: D, s: &mut Src| -> D {
                if env2.defs.len() < crate::den::DEF_NAMES.len() && s.chance(1, 2) {
                    let i = env2.defs.len();
                    env2.defs.push((crate::den::DEF_NAMES[i].to_string(), d));
                    D::Ref(i)
                } else {
                    d
                }
            };
            // the order of naming decides which atom is created first
            let (x, y) = if s.chance(1, 2) {
                let x = name_it(&mut env2, x, s);
                let y = name_it(&mut env2, y, s);
                (x, y)
            } else {
                let y = name_it(&mut env2, y, s);
                let x = name_it(&mut env2, x, s);
                (x, y)
            };
            let wrap = |d: D, w: usize| match w {
                0 | 1 => d,
                2 => D::Array(Box::new(d)),
                _ => D::Tuple(vec![d], None),
            };
            let w = s.below(4);
            let (x, y) = (wrap(x, w), wrap(y, w));
            let both = if s.chance(1, 2) { D::Inter(vec![x.clone(), y.clone()]) } else { D::Inter(vec![y.clone(), x.clone()]) };
            // sometimes the intersection sits under a property next to a plain use of one operand (the operand is then
            // converted before the intersection is)
            let (a, b) = match s.below(4) {
                0 => (x.clone(), both),
                1 => (both, x.clone()),
                2 => (D::obj(vec![("p", x.clone(), false), ("q", x.clone(), false)]), D::obj(vec![("p", x.clone(), false), ("q", both, false)])),
                _ => (D::obj(vec![("p", y.clone(), false), ("q", both, false)]), D::obj(vec![("q", y.clone(), false)])),
            };
            return serde_json::to_value(PairCase { env: env2, a, b, iso: false }).unwrap();
        }
        // one case in fourteen: distributivity over three unrelated object types, (N | C) & (N | D) against N | (C & D) - the
        // same set, so both directions are "yes" - and single objects against the left-hand side.  N is named and occurs
        // in both unions (one atom met twice, once on each side of the intersection); C and D are named or inline; the
        // decision goes through complements of diagrams whose positive and negative branch are both occupied
        if s.chance(1, 14) {
            let leaf = |s: &mut Src| match s.below(3) {
                0 => D::Num,
                1 => D::Str,
                _ => D::Bool,
            };
            let (tn, tc, td) = (leaf(s), leaf(s), leaf(s));
            let mut env2 = Env::default();
            env2.defs.push((crate::den::DEF_NAMES[0].to_string(), D::obj(vec![("a", tn.clone(), false)])));
            let n = D::Ref(0);
            let mut mk = |env2: &mut Env, key: &str, t: D, s: &mut Src| -> D {
                let d = D::obj(vec![(key, t, false)]);
                if s.chance(1, 2) {
                    let i = env2.defs.len();
                    env2.defs.push((crate::den::DEF_NAMES[i].to_string(), d));
                    D::Ref(i)
                } else {
                    d
                }
            };
            let c = mk(&mut env2, "b", tc.clone(), s);
            let d = mk(&mut env2, "c", td.clone(), s);
            let pair = |x: &D, y: &D, s: &mut Src| if s.chance(1, 2) { D::Union(vec![x.clone(), y.clone()]) } else { D::Union(vec![y.clone(), x.clone()]) };
            let lhs = D::Inter(vec![pair(&n, &c, s), pair(&n, &d, s)]);
            let other = |t: &D| if *t == D::Num { D::Str } else { D::Num };
            let (a, b, iso) = match s.below(6) {
                0 => (lhs, D::Union(vec![n.clone(), D::Inter(vec![c.clone(), d.clone()])]), true),
                1 => (D::Union(vec![D::Inter(vec![c.clone(), d.clone()]), n.clone()]), lhs, true),
                // single objects: the body of N written in place, the same with another property type, C & D in place
                2 => (D::obj(vec![("a", tn.clone(), false)]), lhs, false),
                3 => (D::obj(vec![("a", other(&tn), false)]), lhs, false),
                4 => (D::obj(vec![("b", tc.clone(), false), ("c", td.clone(), false)]), lhs, false),
                _ => (lhs, n.clone(), false),
            };
            return serde_json::to_value(PairCase { env: env2, a, b, iso }).unwrap();
        }
        // one case in twelve: a list with a rest against a union of tuples that covers it length by length (or just
        // fails to): the decision has to combine several negated tuples of different lengths
        if s.chance(1, 12) {
            let leaf = |s: &mut Src| match s.below(4) {
                0 => D::Num,
                1 => D::Str,
                2 => D::Union(vec![D::StrLit("a".into()), D::StrLit("b".into())]),
                _ => D::Bool,
            };
            let t = leaf(s);
            let wider = |s: &mut Src, t: &D| match s.below(3) {
                0 => D::Union(vec![t.clone(), D::Null]),
                1 => D::Union(vec![t.clone(), if *t == D::Num { D::Str } else { D::Num }]),
                _ => t.clone(),
            };
            let k = s.below(2);
            let n = k + 1 + s.below(3);
            let a = D::Tuple(vec![t.clone(); k], Some(Box::new(t.clone())));
            let mut members = vec![];
            for len in k..n {
                members.push(D::Tuple((0..len).map(|_| wider(s, &t)).collect(), None));
            }
            members.push(D::Tuple((0..n).map(|_| wider(s, &t)).collect(), Some(Box::new(wider(s, &t)))));
            match s.below(5) {
                // a hole: one length is missing, or one position is too narrow
                0 => {
                    let i = s.below(members.len());
                    members.remove(i);
                }
                1 => {
                    let i = s.below(members.len());
                    if let D::Tuple(ps, _) = &mut members[i] {
                        if !ps.is_empty() {
                            let j = s.below(ps.len());
                            ps[j] = D::Null;
                        }
                    }
                }
                _ => {}
            }
            let r = s.below(members.len().max(1));
            members.rotate_left(r);
            if s.chance(1, 2) {
                members.reverse();
            }
            let b = if members.len() == 1 { members.pop().unwrap() } else { D::Union(members) };
            return serde_json::to_value(PairCase { env, a, b, iso: false }).unwrap();
        }
        // one case in sixteen: a tuple with a rest over a two-kind element type against a union of two to four tuples *with
        // rests* whose fixed positions each narrow to one kind or not (prefix lengths 1..3): whether the union covers the
        // tuple is decided position by position and length by length, and the members are met in the order of their names
        if s.chance(1, 8) {
            let u = D::Union(vec![D::Str, D::Num]);
            let k = s.range(1, 2);
            let a = D::Tuple(vec![u.clone(); k], Some(Box::new(u.clone())));
            let n = s.range(2, 4);
            let mut negs = vec![];
            for _ in 0..n {
                let len = s.range(1, 3);
                let prefix: Vec<D> = (0..len)
                    .map(|_| match s.below(4) {
                        0 => D::Str,
                        1 => D::Num,
                        _ => u.clone(),
                    })
                    .collect();
                negs.push(D::Tuple(prefix, Some(Box::new(u.clone()))));
            }
            let named = s.chance(2, 3);
            let (env2, b) = if named && negs.len() <= 3 {
                let mut e = Env::default();
                // names sort Alpha < Beta < Gamma: which member gets which name decides the order they are met in
                let mut order: Vec<usize> = (0..negs.len()).collect();
                for i in (1..order.len()).rev() {
                    let j = s.below(i + 1);
                    order.swap(i, j);
                }
                let mut slots: Vec<Option<D>> = vec![None; negs.len()];
                for (m, slot) in order.iter().enumerate() {
                    slots[*slot] = Some(negs[m].clone());
                }
                for (i, d) in slots.into_iter().enumerate() {
                    e.defs.push((crate::den::DEF_NAMES[i].to_string(), d.unwrap()));
                }
                let refs: Vec<D> = (0..negs.len()).map(D::Ref).collect();
                (e, D::Union(refs))
            } else {
                (Env::default(), D::Union(negs))
            };
            return serde_json::to_value(PairCase { env: env2, a, b, iso: false }).unwrap();
        }
        let a = roots[0].clone();
        let b = match s.below(10) {
            0 => crate::den::gen_type(s, &cfg, env.defs.len(), 2),
            1 => a.clone(),
            2 | 3 => {
                let m = mutate_type(&a, s, &cfg, env.defs.len());
                mutate_type(&m, s, &cfg, env.defs.len())
            }
            _ => mutate_type(&a, s, &cfg, env.defs.len()),
        };
        let (a, b) = if s.chance(1, 2) { (a, b) } else { (b, a) };
        let (a, b) = (repair_indexed(&a), repair_indexed(&b));
        serde_json::to_value(PairCase { env, a, b, iso: false }).unwrap()
    }
    fn exec(&self, case: &Value, ctx: &mut Ctx) -> Outcome {
        let case: PairCase = match serde_json::from_value(case.clone()) {
            Ok(c) => c,
            Err(e) => return Outcome::infra(format!("bad case: {}", e)),
        };
        let mut out = Outcome::default();
        out.evals = 1;
        let detail = json!({"env": case.env, "a": case.a, "b": case.b, "iso": case.iso});
        // the decision procedure is exponential in the number of object types that meet in unions (a dozen members take
        // seconds, two dozen minutes): such pairs say nothing about correctness and would turn a time budget into a verdict,
        // so they are left out by construction and counted
        let weight = object_weight(&case.env, &case.a, 6) + object_weight(&case.env, &case.b, 6);
        if weight > 18 {
            out.excluded.push(("oversized_pair".to_string(), 1));
            out.label("excluded_oversized_pair");
            return out;
        }
        let req = json!({"sem":"subtype","env":case.env,"a":case.a,"b":case.b});
        let first = ctx.compiler.sem(req.clone(), if ctx.shrinking { 3 } else { 10 });
        // the request makes four decisions (a<=b, b<=a, same, and a<=b again in a fresh context).  A time budget hit is
        // first repeated alone with a generous bound (unions of a dozen object types take seconds: slow, not a hang);
        // only a decision that does not come back within 120 s counts as non-termination.
        let first = match first {
            Err(CompileFail::Timeout) if !ctx.shrinking => {
                out.label("slow_decision_retried");
                ctx.compiler.sem(req, if ctx.strict { 60 } else { 120 })
            }
            other => other,
        };
        let ans = match first {
            Ok(v) => v,
            Err(CompileFail::Timeout) => {
                out.mismatch(ctx, "subtype_hang", "the assignability decision did not terminate (10 s, then 120 s alone)", detail);
                return out;
            }
            Err(CompileFail::Crashed(st)) => {
                out.mismatch(ctx, "subtype_crash", format!("the assignability decision crashed the process ({})", st), detail);
                return out;
            }
            Err(CompileFail::Infra(e)) => return Outcome::infra(e),
        };
        if let Some(p) = ans.get("panic") {
            out.mismatch(ctx, &format!("subtype_panic:{}", crate::c01::panic_site(p.as_str().unwrap_or(""))), format!("the engine panicked: {}", p), detail);
            return out;
        }
        if ans.get("convert_err").is_some() {
            out.label("no_decision:convert_err");
            return out;
        }
        let (ab, ba, same, fresh) = (as_bool(&ans["ab"]), as_bool(&ans["ba"]), as_bool(&ans["same"]), as_bool(&ans["ab_fresh"]));
        let ab = match ab {
            Some(b) => b,
            None => {
                out.label("no_decision:engine_err");
                return out;
            }
        };
        out.label(if ab { "decision:yes" } else { "decision:no" });
        if let (Some(ba), Some(same)) = (ba, same) {
            if same != (ab && ba) {
                out.mismatch(ctx, "same_type_inconsistent", format!("is_same_type={} but is_subtype both ways = ({}, {})", same, ab, ba), detail.clone());
            }
        }
        if let Some(f) = fresh {
            if f != ab {
                out.mismatch(ctx, "decision_depends_on_context", format!("is_subtype answered {} and, in a fresh context, {}", ab, f), detail.clone());
            }
        }
        let features = pair_features(&case.env, &case.a, &case.b);
        let sig = |base: &str| -> Vec<String> {
            if features.is_empty() {
                vec![base.to_string()]
            } else {
                features.iter().map(|f| format!("{}:{}", base, f)).collect()
            }
        };
        // two renamings of one definition are the same set
        if case.iso {
            out.label("iso_pair");
            if !ab || ba == Some(false) {
                // is it the renaming, or is A not even assignable to itself (a different root cause)?
                let refl = ctx.compiler.sem(json!({"sem":"subtype","env":case.env,"a":case.a,"b":case.a}), if ctx.shrinking { 3 } else { 30 });
                let refl_ok = match refl {
                    Ok(v) => as_bool(&v["ab"]),
                    Err(CompileFail::Infra(e)) => return Outcome::infra(e),
                    Err(_) => None,
                };
                if refl_ok == Some(false) {
                    out.mismatch_any(ctx, &sig("says_not_assignable_but_no_witness"), "beff says A is not assignable to A itself", json!({"env": case.env, "a": case.a, "b": case.a}));
                } else {
                    out.mismatch_any(ctx, &sig("renamed_definition_not_assignable"), format!("B is A with its recursive definition renamed, but is_subtype(A,B)={} and is_subtype(B,A)={:?} (A is assignable to itself: {:?})", ab, ba, refl_ok), detail.clone());
                }
                return out;
            }
        }
        // a type without any finite value is assignable to everything
        if definitely_uninhabited(&case.env, &case.a) {
            out.label("uninhabited_left");
            if !ab {
                out.mismatch_any(ctx, &sig("uninhabited_type_not_assignable"), "A has no finite value (every value would have to contain itself), so it is assignable to every type, but beff says it is not assignable to B", detail.clone());
            }
        }
        // reference
        let vocab = vocab_of(&case.env, &case.a, &case.b);
        let mut en = Enumerator { env: &case.env, vocab: &vocab, cap: 80, complete: true, budget: 20000 };
        let ws = en.values(&case.a, 3);
        let complete = en.complete;
        let mut r = Ref::new(&case.env, Mode::Open);
        r.ts_nullish = true;
        let mut witness: Option<JsVal> = None;
        let mut unspec = false;
        let mut checked = 0;
        for w in &ws {
            // sanity: an enumerated value must be a member of A (guards the enumerator itself)
            match r.member(&case.a, w) {
                Tri::Yes => {}
                Tri::Unspec => {
                    unspec = true;
                    continue;
                }
                Tri::No => return Outcome::infra(format!("enumerator produced a non-member: {:?} for {:?}", w, case.a)),
            }
            checked += 1;
            match r.member(&case.b, w) {
                Tri::No => {
                    witness = Some(w.clone());
                    break;
                }
                Tri::Unspec => unspec = true,
                Tri::Yes => {}
            }
        }
        out.label(if complete { "enumeration:complete" } else { "enumeration:partial" });
        let head_a = r.head(&case.a).label();
        let head_b = r.head(&case.b).label();
        let nontrivial = head_a == head_b && case.a != case.b && !matches!(case.a, D::Any | D::Never) && !matches!(case.b, D::Any | D::Never);
        if nontrivial {
            out.nontrivial = Some(fp(&detail.to_string()));
            out.sample = Some(json!({"a": case.a, "b": case.b, "env": case.env, "beff_says_a_assignable_to_b": ab, "witness": witness.as_ref().map(|w| w.to_tagged()), "values_enumerated": ws.len(), "complete": complete}));
        }
        for f in &features {
            out.label(format!("feature:{}", f));
        }
        if ab {
            if let Some(w) = witness {
                out.mismatch_any(
                    ctx,
                    &sig("says_assignable_but_witness"),
                    "beff says A is assignable to B, but an exact value of A is not a value of B",
                    json!({"env": case.env, "a": case.a, "b": case.b, "witness": w, "witness_tagged": w.to_tagged()}),
                );
            }
        } else if complete && !unspec && witness.is_none() && checked > 0 {
            out.mismatch_any(
                ctx,
                &sig("says_not_assignable_but_no_witness"),
                format!("beff says A is not assignable to B, but all {} exact values of A (complete enumeration) are values of B", checked),
                detail,
            );
        }
        out
    }
}

// ------------------------------------------------------------------------------------------------
// C06 — union / intersection / difference / complement are exact set operations
// ------------------------------------------------------------------------------------------------
// (the parts that touch the engine's own decision-diagram API live in sem.rs, behind the `engine` feature)

#[derive(Debug, Clone, Serialize, Deserialize, PartialEq)]
pub enum BExpr {
    Atom(usize),
    True,
    False,
    Union(Box<BExpr>, Box<BExpr>),
    Inter(Box<BExpr>, Box<BExpr>),
    Diff(Box<BExpr>, Box<BExpr>),
    Compl(Box<BExpr>),
}

impl BExpr {
    pub fn eval(&self, assignment: u32) -> bool {
        match self {
            BExpr::Atom(i) => assignment & (1 << i) != 0,
            BExpr::True => true,
            BExpr::False => false,
            BExpr::Union(a, b) => a.eval(assignment) || b.eval(assignment),
            BExpr::Inter(a, b) => a.eval(assignment) && b.eval(assignment),
            BExpr::Diff(a, b) => a.eval(assignment) && !b.eval(assignment),
            BExpr::Compl(a) => !a.eval(assignment),
        }
    }
    fn ops(&self) -> usize {
        match self {
            BExpr::Union(a, b) | BExpr::Inter(a, b) | BExpr::Diff(a, b) => 1 + a.ops() + b.ops(),
            BExpr::Compl(a) => 1 + a.ops(),
            _ => 0,
        }
    }
}

fn gen_bexpr(s: &mut Src, depth: usize, natoms: usize) -> BExpr {
    if depth == 0 {
        return match s.below(8) {
            6 => BExpr::True,
            7 => BExpr::False,
            _ => BExpr::Atom(s.below(natoms)),
        };
    }
    match s.below(9) {
        0 => gen_bexpr(s, 0, natoms),
        1 | 2 => BExpr::Union(Box::new(gen_bexpr(s, depth - 1, natoms)), Box::new(gen_bexpr(s, depth - 1, natoms))),
        3 | 4 => BExpr::Inter(Box::new(gen_bexpr(s, depth - 1, natoms)), Box::new(gen_bexpr(s, depth - 1, natoms))),
        5 | 6 => BExpr::Diff(Box::new(gen_bexpr(s, depth - 1, natoms)), Box::new(gen_bexpr(s, depth - 1, natoms))),
        _ => BExpr::Compl(Box::new(gen_bexpr(s, depth - 1, natoms))),
    }
}

#[cfg(feature = "engine")]
use crate::sem::check_bexpr;
#[cfg(not(feature = "engine"))]
fn check_bexpr(_e: &BExpr, _natoms: usize) -> Option<(String, u32)> {
    None
}

#[derive(Debug, Clone, Serialize, Deserialize)]
pub enum C06Case {
    Diagram { expr: BExpr, natoms: usize },
    Operands { env: Env, x: D, y: D, values: Vec<JsVal> },
}

pub fn c06_cfg() -> GenCfg {
    GenCfg { formats: false, templates: false, max_depth: 3, max_defs: 2, inter_nullable: false, ..GenCfg::default() }
}

fn in_sem_universe(v: &JsVal) -> bool {
    match v {
        JsVal::Func | JsVal::Sym | JsVal::Cyclic | JsVal::CyclicArr => false,
        JsVal::Arr(xs) | JsVal::Set(xs) => xs.iter().all(in_sem_universe),
        JsVal::Obj(kv, _) => kv.iter().all(|(_, x)| in_sem_universe(x) && !matches!(x, JsVal::Undef)),
        JsVal::Map(kv) => kv.iter().all(|(a, b)| in_sem_universe(a) && in_sem_universe(b)),
        _ => true,
    }
}

pub struct C06;
impl Check for C06 {
    fn fuzz_runs(&self) -> u64 {
        150000
    }
    fn id(&self) -> &'static str {
        "C06"
    }
    fn cases(&self, tier: Tier) -> u32 {
        match tier {
            Tier::Quick => 40_000,
            Tier::Thorough => 1_500_000,
        }
    }
    fn stream_len(&self) -> usize {
        900
    }
    fn threads(&self) -> usize {
        12
    }
    fn rule(&self) -> String {
        "layer 1 (decision diagrams): expression trees over <=4 atoms, True, False and union/intersection/difference/complement (depth<=6) built with BddOps; oracle = truth table over all 2^n assignments for the diagram ((atom AND left) OR middle OR (NOT atom AND right)), for bdd_to_dnf and for dnf_to_bdd(bdd_to_dnf(.)); plus an exhaustive sub-run over every expression of depth<=2 on 3 atoms. Layer 2 (semantic types): operand pairs from the format-free fragment (incl. Date, bigint, typed arrays, Map, Set, void/undefined, any/never, named recursive types; excluded-literal sets arise through complement/difference) converted in one SemTypeContext; oracle = independent evaluator sem_member over the same atom tables (open and exact record reading): membership in union/intersect/diff/complement/double complement/De Morgan equals the Boolean combination of the memberships in the operands, for type-directed and arbitrary values. Non-trivial = diagram expression with >=3 operations, or operand pair with a value that separates the operands. Distinct = hash(case).".into()
    }
    fn assumptions(&self) -> Vec<String> {
        vec![
            "sem_member is a homomorphic evaluator: it fixes one reading of record atoms (run twice: open, exact); values whose membership it cannot decide (formats, multi-part templates, void-only exclusions) are skipped".into(),
            "diagram layer bounds: <=4 atoms, depth<=6".into(),
        ]
    }
    fn health(&self) -> Vec<(&'static str, f64)> {
        vec![("layer:diagram", 0.3), ("layer:operands", 0.3), ("separating", 0.15)]
    }
    fn deterministic(&self, _ctx: &mut Ctx, _tier: Tier) -> Vec<Outcome> {
        // exhaustive: every expression of depth <= 2 over 3 atoms
        let leaves: Vec<BExpr> = vec![BExpr::Atom(0), BExpr::Atom(1), BExpr::Atom(2), BExpr::True, BExpr::False];
        let step = |prev: &Vec<BExpr>| -> Vec<BExpr> {
            let mut out = prev.clone();
            for a in prev {
                out.push(BExpr::Compl(Box::new(a.clone())));
                for b in prev {
                    out.push(BExpr::Union(Box::new(a.clone()), Box::new(b.clone())));
                    out.push(BExpr::Inter(Box::new(a.clone()), Box::new(b.clone())));
                    out.push(BExpr::Diff(Box::new(a.clone()), Box::new(b.clone())));
                }
            }
            out
        };
        let l1 = step(&leaves);
        let l2 = step(&l1);
        let mut o = Outcome::default();
        o.label("exhaustive_depth2_3atoms");
        for e in &l2 {
            o.evals += 8;
            if let Some((what, asg)) = check_bexpr(e, 3) {
                o.violate(&format!("diagram:{}", what), format!("{} disagrees with the truth table under assignment {:03b}", what, asg), json!({"expr": e, "assignment": asg}));
                o.sample = Some(serde_json::to_value(C06Case::Diagram { expr: e.clone(), natoms: 3 }).unwrap());
                break;
            }
        }
        o.nontrivial = Some(fp(&"exhaustive_depth2_3atoms"));
        if o.sample.is_none() {
            o.sample = Some(json!({"exhaustive": "all expressions of depth<=2 over 3 atoms", "count": l2.len()}));
        }
        vec![o]
    }
    fn generate(&self, s: &mut Src, _tier: Tier) -> Value {
        if s.below(2) == 0 {
            let natoms = s.range(2, 4);
            let depth = s.range(1, 6);
            serde_json::to_value(C06Case::Diagram { expr: gen_bexpr(s, depth, natoms), natoms }).unwrap()
        } else {
            let cfg = c06_cfg();
            let (env, roots) = gen_env_and_roots(s, &cfg, 1);
            let x = roots[0].clone();
            let y = match s.below(4) {
                0 => crate::den::gen_type(s, &cfg, env.defs.len(), 2),
                1 => mutate_type(&mutate_type(&x, s, &cfg, env.defs.len()), s, &cfg, env.defs.len()),
                _ => mutate_type(&x, s, &cfg, env.defs.len()),
            };
            let (x, y) = (repair_indexed(&x), repair_indexed(&y));
            let mut values: Vec<JsVal> = vec![];
            for d in [&x, &y] {
                for (v, _) in crate::c01::gen_values(&env, d, s, Mode::Open, 6, 6, 3) {
                    if in_sem_universe(&v) && !values.contains(&v) {
                        values.push(v);
                    }
                }
            }
            serde_json::to_value(C06Case::Operands { env, x, y, values }).unwrap()
        }
    }
    fn exec(&self, case: &Value, ctx: &mut Ctx) -> Outcome {
        let case: C06Case = match serde_json::from_value(case.clone()) {
            Ok(c) => c,
            Err(e) => return Outcome::infra(format!("bad case: {}", e)),
        };
        let mut out = Outcome::default();
        match case {
            C06Case::Diagram { expr, natoms } => {
                out.label("layer:diagram");
                out.evals = 1u64 << natoms;
                if expr.ops() >= 3 {
                    out.nontrivial = Some(fp(&serde_json::to_string(&expr).unwrap()));
                    out.sample = Some(json!({"diagram_expression": expr, "atoms": natoms}));
                }
                if let Some((what, asg)) = check_bexpr(&expr, natoms) {
                    out.mismatch(ctx, &format!("diagram:{}", what), format!("{} disagrees with the truth table under assignment {:b}", what, asg), json!({"expr": expr, "natoms": natoms, "assignment": asg}));
                }
            }
            C06Case::Operands { env, x, y, values } => {
                out.label("layer:operands");
                let detail = json!({"env": env, "x": x, "y": y});
                if object_weight(&env, &x, 6) + object_weight(&env, &y, 6) > 18 {
                    // exponential in the number of object types (see C05): left out by construction
                    out.excluded.push(("oversized_pair".to_string(), 1));
                    out.label("excluded_oversized_pair");
                    return out;
                }
                let ans = match ctx.compiler.sem(json!({"sem":"setops","env":env,"x":x,"y":y,"values":values}), if ctx.shrinking { 3 } else { 10 }) {
                    Ok(v) => v,
                    Err(CompileFail::Timeout) => {
                        out.mismatch(ctx, "setops_hang", "set operations did not terminate within 10 s", detail);
                        return out;
                    }
                    Err(CompileFail::Crashed(st)) => {
                        out.mismatch(ctx, "setops_crash", format!("set operations crashed the process ({})", st), detail);
                        return out;
                    }
                    Err(CompileFail::Infra(e)) => return Outcome::infra(e),
                };
                if let Some(p) = ans.get("panic") {
                    out.mismatch(ctx, &format!("setops_panic:{}", crate::c01::panic_site(p.as_str().unwrap_or(""))), format!("the engine panicked: {}", p), detail);
                    return out;
                }
                if ans.get("convert_err").is_some() {
                    out.label("no_decision:convert_err");
                    return out;
                }
                out.evals = ans["evals"].as_u64().unwrap_or(0);
                if let Some(errs) = ans["op_errs"].as_array() {
                    if !errs.is_empty() {
                        out.label("op_err");
                    }
                }
                if ans["separating"].as_u64().unwrap_or(0) > 0 {
                    out.label("separating");
                    out.nontrivial = Some(fp(&detail.to_string()));
                    out.sample = Some(json!({"x": x, "y": y, "env": env, "values": values.iter().take(3).map(|v| v.to_tagged()).collect::<Vec<_>>(), "evaluations": out.evals}));
                }
                if let Some(ps) = ans["problems"].as_array() {
                    if let Some(p) = ps.first() {
                        let op = p["op"].as_str().unwrap_or("?");
                        out.mismatch(
                            ctx,
                            &format!("setop:{}", op),
                            format!("membership in {}(X,Y) is not the Boolean combination of the memberships in X and Y", op),
                            json!({"env": env, "x": x, "y": y, "first": p, "all": ps.len()}),
                        );
                    }
                }
            }
        }
        out
    }
}

// ------------------------------------------------------------------------------------------------
// C07 — semantically computed types reach code generation unchanged in meaning
// ------------------------------------------------------------------------------------------------
#[derive(Debug, Clone, Serialize, Deserialize)]
pub struct C07Case {
    pub env: Env,
    pub x: D,
    pub y: D,
    pub op: String,
    pub values: Vec<JsVal>,
    /// also compile `Exclude<X, Y>` / `keyof X` / `X[Y]` from source and run the validator
    pub source_level: bool,
}

pub fn c07_cfg() -> GenCfg {
    GenCfg { formats: false, templates: false, any: true, max_depth: 3, max_defs: 2, inter_nullable: false, ..GenCfg::default() }
}

/// keyof T for the shapes whose TypeScript meaning is beyond doubt: the declared keys of an object type without index
/// signature; of an intersection of such types, the keys of any member; of a union, the keys common to all members
pub fn keyof_expectation(env: &Env, x: &D) -> Option<Vec<String>> {
    let r = Ref::new(env, Mode::Open);
    fn go(r: &Ref, d: &D, fuel: usize) -> Option<Vec<String>> {
        if fuel == 0 {
            return None;
        }
        match r.head(d) {
            D::Object { index: None, props } => Some(props.iter().map(|p| p.key.clone()).collect()),
            D::Inter(ms) => {
                let mut out: Vec<String> = vec![];
                for m in ms {
                    for k in go(r, m, fuel - 1)? {
                        if !out.contains(&k) {
                            out.push(k);
                        }
                    }
                }
                Some(out)
            }
            D::Union(ms) => {
                let mut sets: Vec<Vec<String>> = vec![];
                for m in ms {
                    sets.push(go(r, m, fuel - 1)?);
                }
                let first = sets.first()?.clone();
                Some(first.into_iter().filter(|k| sets.iter().all(|s| s.contains(k))).collect())
            }
            _ => None,
        }
    }
    go(&r, x, 5)
}

/// T[K] for the shapes whose TypeScript meaning is beyond doubt: an object declaring K; an intersection of such objects
/// (intersection of the property types); a union of such objects (union of the property types, plus undefined where the
/// property is optional)
pub fn indexed_expectation(env: &Env, x: &D, y: &D) -> Option<D> {
    let r = Ref::new(env, Mode::Open);
    // a tuple picked by a literal index: a fixed position, or (behind them) the rest element
    if let (D::NumLit(n), D::Tuple(prefix, rest)) = (y, r.head(x)) {
        let i: usize = n.parse().ok()?;
        return match (prefix.get(i), rest) {
            (Some(t), _) => Some(t.clone()),
            (None, Some(rest)) => Some((**rest).clone()),
            (None, None) => None,
        };
    }
    // unions and intersections of list types picked by a literal index: (L & (M | N))[i] = L[i] & (M[i] | N[i]).  Only
    // stated for operands the generator builds so that no intersection of two members is empty (every element type
    // admits strings), otherwise a member that vanishes as a whole would still contribute its element.
    if let D::NumLit(n) = y {
        let i: usize = n.parse().ok()?;
        fn elem_at(r: &Ref, d: &D, i: usize, depth: usize) -> Option<D> {
            if depth > 8 {
                return None;
            }
            match r.head(d) {
                D::Array(t) => Some((**t).clone()),
                D::Tuple(prefix, rest) => prefix.get(i).cloned().or_else(|| rest.as_ref().map(|x| (**x).clone())),
                D::Union(ms) => Some(D::Union(ms.iter().map(|m| elem_at(r, m, i, depth + 1)).collect::<Option<Vec<_>>>()?)),
                D::Inter(ms) => Some(D::Inter(ms.iter().map(|m| elem_at(r, m, i, depth + 1)).collect::<Option<Vec<_>>>()?)),
                _ => None,
            }
        }
        fn all_admit_strings(r: &Ref, d: &D, depth: usize) -> bool {
            if depth > 8 {
                return false;
            }
            match r.head(d) {
                D::Array(t) => r.member(t, &JsVal::Str("s".into())) == Tri::Yes,
                D::Tuple(prefix, rest) => prefix.iter().chain(rest.iter().map(|x| &**x)).all(|t| r.member(t, &JsVal::Str("s".into())) == Tri::Yes),
                D::Union(ms) | D::Inter(ms) => ms.iter().all(|m| all_admit_strings(r, m, depth + 1)),
                _ => false,
            }
        }
        if matches!(r.head(x), D::Union(_) | D::Inter(_)) && all_admit_strings(&r, x, 0) {
            return elem_at(&r, x, i, 0);
        }
        return None;
    }
    // a record with nothing but an index signature, picked by string-like keys: the index value type
    if let D::Object { props, index: Some(v) } = r.head(x) {
        fn stringish(d: &D) -> bool {
            match d {
                D::Str | D::StrLit(_) | D::Tpl(_) => true,
                D::Union(ms) => !ms.is_empty() && ms.iter().all(stringish),
                _ => false,
            }
        }
        // (value types that admit null / undefined are left out: the engine and the validators read "nullish" differently,
        // see Corrections)
        if props.is_empty() && stringish(y) && r.member(v, &JsVal::Null) == Tri::No && r.member(v, &JsVal::Undef) == Tri::No {
            return Some((**v).clone());
        }
        return None;
    }
    let k = match y {
        D::StrLit(k) => k,
        _ => return None,
    };
    let prop_of = |d: &D| -> Option<(D, bool)> {
        match r.head(d) {
            D::Object { props, index: None } => props.iter().find(|p| p.key == *k).map(|p| (p.ty.clone(), p.optional)),
            _ => None,
        }
    };
    match r.head(x) {
        D::Object { .. } => prop_of(x).and_then(|(t, opt)| if opt { None } else { Some(t) }),
        D::Inter(ms) => {
            let ps: Option<Vec<(D, bool)>> = ms.iter().map(|m| prop_of(m)).collect();
            let ps = ps?;
            if ps.iter().any(|p| p.1) {
                return None;
            }
            Some(D::Inter(ps.into_iter().map(|p| p.0).collect()))
        }
        D::Union(ms) => {
            let ps: Option<Vec<(D, bool)>> = ms.iter().map(|m| prop_of(m)).collect();
            let ps = ps?;
            let mut out: Vec<D> = vec![];
            let mut any_opt = false;
            for (t, o) in ps {
                any_opt |= o;
                out.push(t);
            }
            if any_opt {
                out.push(D::Undefined);
            }
            Some(D::Union(out))
        }
        _ => None,
    }
}

/// x & y pushed inwards through lists, records and same-key properties (an approximation used only to find out which
/// root-cause families are present inside the result of an intersection)
pub fn structural_meet(env: &Env, x: &D, y: &D, fuel: usize) -> D {
    if fuel == 0 {
        return D::Inter(vec![x.clone(), y.clone()]);
    }
    let r = Ref::new(env, Mode::Open);
    match (r.head(x), r.head(y)) {
        (D::Array(a), D::Array(b)) => D::Array(Box::new(structural_meet(env, a, b, fuel - 1))),
        (D::Tuple(pa, ra), D::Tuple(pb, rb)) => {
            let n = pa.len().max(pb.len());
            let at = |p: &Vec<D>, rest: &Option<Box<D>>, i: usize| -> Option<D> { p.get(i).cloned().or_else(|| rest.as_ref().map(|r| (**r).clone())) };
            let mut prefix = vec![];
            for i in 0..n {
                match (at(pa, ra, i), at(pb, rb, i)) {
                    (Some(a), Some(b)) => prefix.push(structural_meet(env, &a, &b, fuel - 1)),
                    _ => return D::Never,
                }
            }
            let rest = match (ra, rb) {
                (Some(a), Some(b)) => Some(Box::new(structural_meet(env, a, b, fuel - 1))),
                _ => None,
            };
            D::Tuple(prefix, rest)
        }
        (D::Array(a), D::Tuple(pb, rb)) | (D::Tuple(pb, rb), D::Array(a)) => D::Tuple(
            pb.iter().map(|b| structural_meet(env, a, b, fuel - 1)).collect(),
            rb.as_ref().map(|b| Box::new(structural_meet(env, a, b, fuel - 1))),
        ),
        (D::Object { props: pa, index: ia }, D::Object { props: pb, index: ib }) => {
            let mut props: Vec<Prop> = vec![];
            for p in pa {
                match pb.iter().find(|q| q.key == p.key) {
                    Some(q) => props.push(Prop { key: p.key.clone(), ty: structural_meet(env, &p.ty, &q.ty, fuel - 1), optional: p.optional && q.optional }),
                    None => props.push(p.clone()),
                }
            }
            for q in pb {
                if !pa.iter().any(|p| p.key == q.key) {
                    props.push(q.clone());
                }
            }
            let index = match (ia, ib) {
                (Some(a), Some(b)) => Some(Box::new(structural_meet(env, a, b, fuel - 1))),
                (Some(a), None) | (None, Some(a)) => Some(a.clone()),
                _ => None,
            };
            D::Object { props, index }
        }
        (D::Union(ms), _) => D::Union(ms.iter().map(|m| structural_meet(env, m, y, fuel - 1)).collect()),
        (_, D::Union(ms)) => D::Union(ms.iter().map(|m| structural_meet(env, x, m, fuel - 1)).collect()),
        (a, b) if a == b => a.clone(),
        _ => D::Inter(vec![x.clone(), y.clone()]),
    }
}

/// number of object types (with multiplicity through references) that a decision about `d` has to look at
pub fn object_weight(env: &Env, d: &D, fuel: usize) -> usize {
    if fuel == 0 {
        return 1;
    }
    match d {
        D::Ref(i) => object_weight(env, env.get(*i), fuel - 1),
        D::Object { props, index } => 1 + props.iter().map(|p| object_weight(env, &p.ty, fuel - 1)).sum::<usize>() + index.as_ref().map(|x| object_weight(env, x, fuel - 1)).unwrap_or(0),
        other => other.children().iter().map(|c| object_weight(env, c, fuel - 1)).sum(),
    }
}

pub struct C07;
impl Check for C07 {
    fn fuzz_runs(&self) -> u64 {
        30000
    }
    fn id(&self) -> &'static str {
        "C07"
    }
    fn cases(&self, tier: Tier) -> u32 {
        match tier {
            Tier::Quick => 10_000,
            Tier::Thorough => 400_000,
        }
    }
    fn stream_len(&self) -> usize {
        900
    }
    fn threads(&self) -> usize {
        12
    }
    fn rule(&self) -> String {
        "case = operand types X, Y of the format-free fragment (incl. named recursive types; Y usually an edit or a member of X) and an operation (diff = Exclude, intersect, union, keyof, indexed access); the semantic result S is materialised with the frontend's own sequence (semtype_to_runtypes, tail definitions registered, remove_nots_of_intersections_and_empty_of_union). Oracle: (a) the materialised type converted back with to_sem_type is is_same_type with S recomputed in the new context; (b) value level: an independent Runtype evaluator on the materialised head agrees with sem_member(S, v) (open reading, the one the engine prunes with) on type-directed and arbitrary values; (c) printable: no StNot, no empty AnyOf; (d) every Ref resolves to exactly one definition and no helper name is defined twice; and, for a third of the cases, the same expression written in TypeScript (Exclude<X,Y>, keyof X, X[\"k\"]) is compiled and its Node validator agrees with the Boolean combination of the reference memberships (definite verdicts only). Non-trivial = S is not never and not equal to an operand. Distinct = hash(case).".into()
    }
    fn assumptions(&self) -> Vec<String> {
        vec![
            "both evaluators skip values they cannot decide (void/undefined mixtures, formats)".into(),
            "source-level Exclude is judged against set difference only where TypeScript's distributive Exclude and set difference coincide (Y removes whole union members of X)".into(),
        ]
    }
    fn health(&self) -> Vec<(&'static str, f64)> {
        vec![("materialised", 0.5), ("nontrivial", 0.15)]
    }
    fn generate(&self, s: &mut Src, _tier: Tier) -> Value {
        let cfg = c07_cfg();
        let (env, roots) = gen_env_and_roots(s, &cfg, 1);
        let mut x = roots[0].clone();
        let op = ["diff", "diff", "diff", "intersect", "keyof", "indexed", "union"][s.below(7)].to_string();
        // make X a union most of the time (that is what Exclude is used on)
        if op == "diff" && !matches!(x, D::Union(_)) && s.chance(3, 4) {
            let extra = crate::den::gen_type(s, &cfg, env.defs.len(), 1);
            let extra2 = crate::den::gen_type(s, &cfg, env.defs.len(), 1);
            x = D::Union(vec![x, extra, extra2]);
        }
        // indexed access over an intersection / a union of object types that all declare the key, with different
        // (overlapping) property types: the semantic path of T[K]
        let mut indexed_key: Option<String> = None;
        if op == "indexed" && s.chance(1, 2) {
            let k = s.pick(&crate::den::KEYS).to_string();
            let leaf = |s: &mut Src| match s.below(6) {
                0 => D::Union(vec![D::Str, D::Num]),
                1 => D::Union(vec![D::Str, D::Bool]),
                2 => D::Union(vec![D::StrLit("a".into()), D::StrLit("b".into())]),
                3 => D::Union(vec![D::StrLit("b".into()), D::StrLit("c".into()), D::Num]),
                4 => D::Str,
                _ => D::Array(Box::new(D::Str)),
            };
            let n = s.range(2, 3);
            let as_union = s.chance(1, 2);
            let mut members = vec![];
            for i in 0..n {
                let other_key = ["zz", "yy", "xx"][i].to_string();
                let mut props = vec![Prop { key: k.clone(), ty: leaf(s), optional: as_union && s.chance(1, 4) }];
                if s.chance(1, 2) {
                    props.push(Prop { key: other_key, ty: D::Num, optional: false });
                }
                members.push(D::Object { props, index: None });
            }
            x = if as_union { D::Union(members) } else { D::Inter(members) };
            indexed_key = Some(k);
        }
        // indexed access into a tuple with a rest element: every fixed position, the first rest position and the next
        let mut indexed_tuple: Option<usize> = None;
        if op == "indexed" && indexed_key.is_none() && s.chance(1, 2) {
            let leaf = |s: &mut Src| match s.below(5) {
                0 => D::Str,
                1 => D::Num,
                2 => D::Bool,
                3 => D::StrLit("a".into()),
                _ => D::obj(vec![("a", D::Str, false)]),
            };
            let n = s.range(0, 2);
            let prefix: Vec<D> = (0..n).map(|_| leaf(s)).collect();
            x = D::Tuple(prefix, Some(Box::new(leaf(s))));
            indexed_tuple = Some(s.below(n + 2));
        }
        // indexed access into an intersection of a list type with a union of list types (arrays and tuples whose element
        // types all admit strings, so that no combination is empty), operands in either order, named or in place
        if op == "indexed" && indexed_key.is_none() && indexed_tuple.is_none() && s.chance(1, 2) {
            let el = |s: &mut Src| match s.below(4) {
                0 => D::Str,
                1 => D::Union(vec![D::Str, D::Num]),
                2 => D::Union(vec![D::Str, D::Bool]),
                _ => D::Union(vec![D::Str, D::Num, D::Bool]),
            };
            let list = |s: &mut Src| {
                if s.chance(1, 2) {
                    D::Array(Box::new(el(s)))
                } else {
                    let n = s.range(1, 3);
                    let rest = if s.chance(1, 2) { Some(Box::new(el(s))) } else { None };
                    D::Tuple((0..n).map(|_| el(s)).collect(), rest)
                }
            };
            let l = D::Array(Box::new(el(s)));
            let (m, n) = (list(s), list(s));
            let u = if s.chance(1, 2) { D::Union(vec![m, n]) } else { D::Union(vec![n, m]) };
            x = if s.chance(1, 2) { D::Inter(vec![l, u]) } else { D::Inter(vec![u, l]) };
            indexed_tuple = Some(s.below(2));
        }
        // keyof over an intersection the frontend cannot merge syntactically (a key declared with different types, a named
        // member), alone or next to another object type in a union
        let mut keyof_targeted = false;
        if op == "keyof" && s.chance(1, 2) {
            let leaf = |s: &mut Src| match s.below(3) {
                0 => D::Str,
                1 => D::Num,
                _ => D::StrLit(s.pick(&crate::den::STR_LITS).to_string()),
            };
            let mk = |s: &mut Src, keys: &[&str]| D::Object { props: keys.iter().map(|k| Prop { key: k.to_string(), ty: leaf(s), optional: s.chance(1, 4) }).collect(), index: None };
            let na = s.range(1, 3);
            let a = mk(s, &["id", "role", "name"][..na]);
            let b = D::Object { props: vec![Prop { key: "role".into(), ty: D::StrLit("admin".into()), optional: false }, Prop { key: "perms".into(), ty: D::Array(Box::new(D::Str)), optional: false }], index: None };
            let inter = D::Inter(vec![a, b]);
            let nc = s.range(1, 3);
            x = if s.chance(1, 2) { inter } else { D::Union(vec![inter, mk(s, &["id", "x", "role"][..nc])]) };
            keyof_targeted = true;
        }
        // indexed access into a record that has nothing but an index signature, by a key type that is not a literal: string,
        // a template literal type, a union of a literal and a template - every such key is answered by the index signature
        let mut record_key: Option<D> = None;
        if op == "indexed" && indexed_key.is_none() && indexed_tuple.is_none() && s.chance(1, 3) {
            use crate::den::TplPart;
            let v = match s.below(4) {
                0 => D::Bool,
                1 => D::Num,
                2 => D::Union(vec![D::StrLit("a".into()), D::StrLit("b".into())]),
                _ => D::obj(vec![("a", D::Str, false)]),
            };
            x = D::Object { props: vec![], index: Some(Box::new(v)) };
            let tpl = D::Tpl(vec![TplPart::Lit("on_".into()), TplPart::Str]);
            record_key = Some(match s.below(4) {
                0 => D::Str,
                1 => tpl,
                2 => D::Union(vec![D::StrLit("a".into()), tpl]),
                _ => D::Tpl(vec![TplPart::Str, TplPart::Lit("-".into()), TplPart::Num]),
            });
        }
        let y = match (op.as_str(), &x) {
            ("indexed", _) if record_key.is_some() => record_key.clone().unwrap(),
            ("indexed", _) if indexed_key.is_some() => D::StrLit(indexed_key.clone().unwrap()),
            ("indexed", _) if indexed_tuple.is_some() => D::NumLit(indexed_tuple.unwrap().to_string()),
            ("diff", D::Union(ms)) if s.chance(2, 3) => {
                // remove one or two whole members
                let i = s.below(ms.len());
                if s.chance(1, 3) && ms.len() > 2 {
                    D::Union(vec![ms[i].clone(), ms[(i + 1) % ms.len()].clone()])
                } else {
                    ms[i].clone()
                }
            }
            ("indexed", _) => match s.below(4) {
                0 => D::Num,
                1 => D::Str,
                2 => D::NumLit("0".into()),
                _ => D::StrLit(s.pick(&crate::den::KEYS).to_string()),
            },
            _ => match s.below(3) {
                0 => crate::den::gen_type(s, &cfg, env.defs.len(), 2),
                _ => mutate_type(&x, s, &cfg, env.defs.len()),
            },
        };
        let (x, y) = (repair_indexed(&x), repair_indexed(&y));
        let mut values: Vec<JsVal> = vec![];
        for d in [&x, &y] {
            for (v, _) in crate::c01::gen_values(&env, d, s, Mode::Open, 6, 5, 2) {
                if in_sem_universe(&v) && !values.contains(&v) {
                    values.push(v);
                }
            }
        }
        if let Some(exp) = indexed_expectation(&env, &x, &y) {
            for (v, _) in crate::c01::gen_values(&env, &exp, s, Mode::Open, 6, 4, 2) {
                if in_sem_universe(&v) && !values.contains(&v) {
                    values.push(v);
                }
            }
        }
        if op == "keyof" {
            for k in ["id", "role", "name", "perms", "x"] {
                values.push(JsVal::str(k));
            }
            for k in crate::den::KEYS {
                values.push(JsVal::str(k));
            }
            values.push(JsVal::num("0"));
        }
        let source_level = s.chance(1, 3) || indexed_key.is_some() || keyof_targeted || record_key.is_some();
        serde_json::to_value(C07Case { env, x, y, op, values, source_level }).unwrap()
    }
    fn exec(&self, case: &Value, ctx: &mut Ctx) -> Outcome {
        let case: C07Case = match serde_json::from_value(case.clone()) {
            Ok(c) => c,
            Err(e) => return Outcome::infra(format!("bad case: {}", e)),
        };
        let mut out = Outcome::default();
        out.label(format!("op:{}", case.op));
        let detail = json!({"env": case.env, "x": case.x, "y": case.y, "op": case.op});
        let ans = match ctx.compiler.sem(json!({"sem":"materialize","env":case.env,"x":case.x,"y":case.y,"op":case.op,"values":case.values}), if ctx.shrinking { 3 } else { 10 }) {
            Ok(v) => v,
            Err(CompileFail::Timeout) => {
                // promptness is C04/C05's subject; here a time budget hit is inconclusive
                out.label("inconclusive:timeout");
                return out;
            }
            Err(CompileFail::Crashed(st)) => {
                out.mismatch(ctx, "materialize_crash", format!("materialisation crashed the process ({})", st), detail);
                return out;
            }
            Err(CompileFail::Infra(e)) => return Outcome::infra(e),
        };
        if let Some(p) = ans.get("panic") {
            out.mismatch(ctx, &format!("materialize_panic:{}", crate::c01::panic_site(p.as_str().unwrap_or(""))), format!("the engine panicked: {}", p), detail);
            return out;
        }
        for k in ["convert_err", "op_err", "materialize_err", "clean_err"] {
            if ans.get(k).is_some() {
                out.label(format!("no_result:{}", k));
                return out;
            }
        }
        out.label("materialised");
        out.evals = ans["evals"].as_u64().unwrap_or(0) + 1;
        let empty = ans["empty"].as_bool().unwrap_or(false);
        let same = ans["same_as_operand"].as_bool().unwrap_or(false);
        if !empty && !same {
            out.label("nontrivial");
            out.nontrivial = Some(fp(&detail.to_string()));
            out.sample = Some(json!({"x": case.x, "y": case.y, "op": case.op, "env": case.env, "materialised_as": ans["printed"], "tail_definitions": ans["tail"], "value_evaluations": ans["evals"]}));
        }
        if let Some(u) = ans["unprintable"].as_str() {
            out.mismatch(ctx, &format!("unprintable:{}", u), format!("the materialised type contains {} (printed: {})", u, ans["printed"]), json!({"case": detail, "printed": ans["printed"]}));
            // the meaning of a bare negation is not defined: nothing else is compared
            return out;
        }
        if let Some(ps) = ans["problems"].as_array() {
            if let Some(p) = ps.first() {
                let p = p.as_str().unwrap_or("");
                let sig = if p.contains("defined twice") { "helper_defined_twice" } else { "dangling_or_ambiguous_reference" };
                out.mismatch(ctx, sig, p.to_string(), json!({"case": detail, "printed": ans["printed"]}));
            }
        }
        let printed_txt = ans["printed"].as_str().unwrap_or("").to_string();
        let dropped = ans["dropped_negation"].as_bool().unwrap_or(false);
        let mut features: Vec<&'static str> = pair_features(&case.env, &case.x, &case.y);
        if case.op == "intersect" {
            // the operation itself builds the intersection: look at it in merged form as well
            for f in pair_features(&case.env, &D::Inter(vec![case.x.clone(), case.y.clone()]), &D::Never) {
                if !features.contains(&f) {
                    features.push(f);
                }
            }
            // ... and position by position (lists) / value type by value type (records): an uninhabited index value
            // may only come into being inside the result
            let met = structural_meet(&case.env, &case.x, &case.y, 6);
            for f in pair_features(&case.env, &met, &D::Never) {
                if !features.contains(&f) {
                    features.push(f);
                }
            }
            let r = Ref::new(&case.env, Mode::Open);
            let ix = |d: &D| match r.head(d) {
                D::Object { index: Some(_), .. } => true,
                D::Union(ms) => ms.iter().any(|m| matches!(r.head(m), D::Object { index: Some(_), .. })),
                _ => false,
            };
            if (ix(&case.x) || ix(&case.y)) && !features.contains(&"intersection_with_index_signature") {
                features.push("intersection_with_index_signature");
            }
        }
        if printed_txt.contains("[key") && printed_txt.contains(" & ") && !features.contains(&"intersection_with_index_signature") {
            // a record meets an object inside the materialised result (e.g. same-named properties of two
            // intersection members)
            features.push("intersection_with_index_signature");
        }
        if printed_txt.matches("Map<").count() >= 2 && !features.contains(&"union_of_maps") {
            features.push("union_of_maps");
        }
        // the same root cause seen from the operands: two different Map types in the members of an operand make the operand
        // itself not assignable to itself (decided by asking the engine, not assumed), and then nothing computed from it
        // can round-trip - even when the Map that disagrees sits in a branch the operation removes
        if !features.contains(&"union_of_maps") {
            let has_map = |d: &D| crate::c02::reaches(&case.env, d, &mut |n| matches!(n, D::Map(_, _)));
            for d in [&case.x, &case.y] {
                if has_map(d) {
                    if let Ok(v) = ctx.compiler.sem(json!({"sem":"subtype","env":case.env,"a":d,"b":d}), 10) {
                        if v["same"] == json!(false) {
                            features.push("union_of_maps");
                            break;
                        }
                    }
                }
            }
        }
        let feature = features.first().copied();
        let sigs = |base: &str| -> Vec<String> {
            if dropped {
                vec![format!("{}:dropped_negation", base)]
            } else if features.is_empty() {
                vec![base.to_string()]
            } else {
                features.iter().map(|f| format!("{}:{}", base, f)).collect()
            }
        };
        if ans["roundtrip"] == json!(false) && printed_txt.contains("undefined") {
            // optional properties are materialised as `k?: undefined | T`: the engine tells absent from undefined,
            // the value sets are the same (judged by (b)); not a change of meaning
            out.label("roundtrip_differs_only_by_optional_undefined");
        } else if ans["roundtrip"] == json!(false) {
            out.mismatch_any(ctx, &sigs("roundtrip_differs"), format!("the materialised type converted back is not the same semantic type (printed: {})", ans["printed"]), json!({"case": detail, "printed": ans["printed"]}));
        }
        if let Some(ps) = ans["value_problems"].as_array() {
            if let Some(p) = ps.first() {
                out.mismatch_any(ctx, &sigs("value_membership_differs"), format!("a value is in the semantic type but not in its materialisation, or vice versa (printed: {})", ans["printed"]), json!({"case": detail, "first": p, "printed": ans["printed"]}));
            }
        }
        // ---- source level ----
        // (not where a known engine-level finding already explains the case: the validator inherits it)
        if case.source_level && out.violation.is_none() && out.known.is_empty() && feature.is_none() && !dropped && ans["unprintable"].is_null() {
            self.source_level(&case, ctx, &mut out);
        }
        out
    }
}

impl C07 {
    fn source_level(&self, case: &C07Case, ctx: &mut Ctx, out: &mut Outcome) {
        use crate::render::{render_program, RenderCfg};
        // only shapes whose TypeScript meaning is beyond doubt
        let mut r = Ref::new(&case.env, Mode::Open);
        r.ts_nullish = false;
        let (expr_kind, roots): (&str, Vec<(String, D)>) = match case.op.as_str() {
            "diff" => {
                // `void` is not a set of values in TypeScript: Exclude over it is not judged
                // ... and neither is `any` (TypeScript: any | T is any, and Exclude over any is any): not judged
                let has_void = |d: &D| d.any_node(&mut |n| matches!(n, D::Void | D::Any));
                if has_void(&case.x) || has_void(&case.y) || case.env.defs.iter().any(|(_, d)| has_void(d)) {
                    return;
                }
                ("exclude", vec![("X".into(), case.x.clone()), ("Y".into(), case.y.clone())])
            }
            "keyof" => match keyof_expectation(&case.env, &case.x) {
                Some(keys) if !keys.is_empty() => ("keyof", vec![("X".into(), case.x.clone())]),
                _ => return,
            },
            "indexed" => match indexed_expectation(&case.env, &case.x, &case.y) {
                Some(_) if matches!(case.y, D::StrLit(_) | D::NumLit(_)) => ("indexed", vec![("X".into(), case.x.clone())]),
                // a key type that is not a literal is declared as an alias of its own
                Some(_) => ("indexed", vec![("X".into(), case.x.clone()), ("Y".into(), case.y.clone())]),
                None => return,
            },
            _ => return,
        };
        // TypeScript's Exclude is distributive: it coincides with set difference when every union member of X is
        // either inside Y or disjoint from it -- judged per value below (values in a member that only partly overlaps
        // Y are skipped)
        let mut src_data = vec![0u32; 0];
        src_data.clear();
        let mut s2 = Src::new(&src_data);
        let (prog, _) = render_program(&case.env, &roots, RenderCfg::plain(), &mut s2, "");
        // replace the buildParsers block by the operator expression over the aliases
        let decls: String = prog.lines().take_while(|l| !l.starts_with("export const Parsers")).collect::<Vec<_>>().join("\n");
        let xs = roots.iter().map(|(n, _)| n.clone()).collect::<Vec<_>>();
        let mut text = decls;
        // root expressions printed as aliases
        let mut s3 = Src::new(&src_data);
        let (prog2, rendered) = render_program(&case.env, &roots, RenderCfg::plain(), &mut s3, "");
        let _ = prog2;
        for (n, t) in xs.iter().zip(rendered.roots.iter()) {
            text.push_str(&format!("\ntype {} = {};", n, t));
        }
        let expr = match expr_kind {
            "exclude" => "Exclude<X, Y>".to_string(),
            "keyof" => "keyof X".to_string(),
            _ => format!("X[{}]", match &case.y { D::StrLit(k) => crate::render::ts_string(k), D::NumLit(n) => n.clone(), _ => "Y".to_string() }),
        };
        // two more semantic computations in the same compilation (each re-materialises a named operand, with its own
        // recursive helpers when the operand is recursive): Exclude<T, never> is T itself
        let mut extra: String = xs.iter().map(|n| format!("; I{}: Exclude<{}, never>", n, n)).collect();
        // ... and two self-recursive object types with different bodies, each re-materialised on its own (the recursive
        // helper names the engine generates must stay unique across all materialisations of one compilation)
        let h = fp(&serde_json::to_string(&(&case.x, &case.y)).unwrap_or_default());
        let leafs: [(&str, D); 4] = [("string", D::Str), ("number", D::Num), ("boolean", D::Bool), ("\"a\"", D::StrLit("a".into()))];
        let (l1, l2) = (&leafs[(h % 4) as usize], &leafs[((h / 4) % 4) as usize]);
        let shape = (h / 16) % 3;
        let mut env2 = case.env.clone();
        let (il, im) = (env2.defs.len(), env2.defs.len() + 1);
        let link = |i: usize| -> (String, D, bool) {
            match shape {
                0 => ("{} | null".into(), D::Union(vec![D::Ref(i), D::Null]), false),
                1 => ("{}[]".into(), D::Array(Box::new(D::Ref(i))), false),
                _ => ("{}".into(), D::Ref(i), true),
            }
        };
        let (lt, ld, lopt) = link(il);
        let (mt, md, mopt) = link(im);
        env2.defs.push(("RecL".into(), D::Object { props: vec![Prop { key: "next".into(), ty: ld, optional: lopt }, Prop { key: "v".into(), ty: l1.1.clone(), optional: false }], index: None }));
        env2.defs.push(("RecM".into(), D::Object { props: vec![Prop { key: "prev".into(), ty: md, optional: mopt }, Prop { key: "w".into(), ty: l2.1.clone(), optional: false }], index: None }));
        text.push_str(&format!("\ntype RecL = {{ next{}: {}; v: {} }};", if lopt { "?" } else { "" }, lt.replace("{}", "RecL"), l1.0));
        text.push_str(&format!("\ntype RecM = {{ prev{}: {}; w: {} }};", if mopt { "?" } else { "" }, mt.replace("{}", "RecM"), l2.0));
        extra.push_str("; IRecL: Exclude<RecL | string, string>; IRecM: Exclude<RecM | string, string>");
        text.push_str(&format!("\nexport const Parsers = parse.buildParsers<{{ R: {}{} }}>();\n", expr, extra));
        let mut scratch = Outcome::default();
        let code = match crate::c01::compile_case(&text, &mut scratch, ctx, "C07") {
            Some(c) => c,
            None => {
                if scratch.infra.is_some() {
                    out.infra = scratch.infra;
                }
                // a crash of the compiler on a program of the supported subset is a finding in its own right
                // (e.g. a generated helper name defined twice trips an assertion); diagnostics are skipped
                if let Some(v) = &scratch.violation {
                    if v.signature.starts_with("panic:") || v.signature == "compile_crash" || v.signature == "compile_hang" {
                        out.mismatch(ctx, &format!("source_level:{}", v.signature), format!("source-level program with three semantic computations: {}", v.what), v.detail.clone());
                        return;
                    }
                }
                out.label("source_level:compile_failed_skipped");
                return;
            }
        };
        let q = json!({"q":"validateMany","parser":"R","values": case.values.iter().map(|v| v.to_tagged()).collect::<Vec<_>>(), "optsList":[null]});
        let mut qs = vec![q];
        for n in &xs {
            qs.push(json!({"q":"validateMany","parser":format!("I{}", n),"values": case.values.iter().map(|v| v.to_tagged()).collect::<Vec<_>>(), "optsList":[null]}));
        }
        let rec_roots: Vec<(String, D)> = vec![("IRecL".into(), D::Ref(il)), ("IRecM".into(), D::Ref(im))];
        let mut rec_values: Vec<JsVal> = vec![];
        {
            let seed_data: Vec<u32> = (0..400u32).map(|i| (h as u32).wrapping_mul(2654435761).wrapping_add(i.wrapping_mul(40503)).rotate_left(i % 31)).collect();
            let mut sv = Src::new(&seed_data);
            for (_, d) in &rec_roots {
                for (v, _) in crate::c01::gen_values(&env2, d, &mut sv, Mode::Open, 4, 4, 1) {
                    if in_sem_universe(&v) && !rec_values.contains(&v) {
                        rec_values.push(v);
                    }
                }
            }
        }
        for (n, _) in &rec_roots {
            qs.push(json!({"q":"validateMany","parser":n,"values": rec_values.iter().map(|v| v.to_tagged()).collect::<Vec<_>>(), "optsList":[null]}));
        }
        let resp = match crate::c01::node_case(ctx, Some(&code), qs) {
            Ok(r) => r,
            Err(e) => {
                out.infra = Some(e);
                return;
            }
        };
        if resp.get("loadError").is_some() {
            out.label("source_level:load_error_skipped");
            return;
        }
        out.label("source_level:ran");
        // the two recursive re-materialisations validate like the recursive types themselves
        {
            let r2 = Ref::new(&env2, Mode::Open);
            for (qi, (n, d)) in rec_roots.iter().enumerate() {
                let m = &resp["results"][1 + roots.len() + qi]["m"];
                for (j, v) in rec_values.iter().enumerate() {
                    let got = match m[j][0].as_i64() {
                        Some(1) => true,
                        Some(0) => false,
                        _ => continue,
                    };
                    let expected = r2.member(d, v);
                    if expected == Tri::Unspec {
                        continue;
                    }
                    out.evals += 1;
                    if Tri::from_bool(got) != expected {
                        out.mismatch(
                            ctx,
                            "source_level:recursive_rematerialisation",
                            format!("the validator {} (a recursive type passed through Exclude) {} a value it should {}", n, if got { "accepts" } else { "rejects" }, if got { "reject" } else { "accept" }),
                            json!({"program": text, "value": v, "validate": got, "parser": n}),
                        );
                        return;
                    }
                }
            }
        }
        // the identity computations: Exclude<T, never> validates like T
        for (qi, (n, d)) in roots.iter().enumerate() {
            let m = &resp["results"][1 + qi]["m"];
            for (j, v) in case.values.iter().enumerate() {
                let got = match m[j][0].as_i64() {
                    Some(1) => true,
                    Some(0) => false,
                    _ => continue,
                };
                let expected = r.member(d, v);
                if expected == Tri::Unspec {
                    continue;
                }
                out.evals += 1;
                if Tri::from_bool(got) != expected {
                    out.mismatch(
                        ctx,
                        "source_level:exclude_identity",
                        format!("the validator of `Exclude<{}, never>` {} a value that {} {} does", n, if got { "accepts" } else { "rejects" }, n, if got { "not contain" } else { "contain" }),
                        json!({"program": text, "value": v, "validate": got, "operand": n}),
                    );
                    return;
                }
            }
        }
        // TypeScript's Exclude<X,Y> keeps exactly the union members of X that are not assignable to Y.  Where every
        // member is wholly inside Y or wholly outside it (judged by complete enumeration), that is also the set
        // difference beff computes: the expected denotation is the union of the members that stay.
        let exclude_result: Option<D> = if expr_kind == "exclude" {
            let members: Vec<D> = match r.head(&case.x) {
                D::Union(ms) => ms.clone(),
                other => vec![other.clone()],
            };
            let vocab = vocab_of(&case.env, &case.x, &case.y);
            let mut keep: Vec<D> = vec![];
            let mut decidable = true;
            for m in &members {
                let mut en = Enumerator { env: &case.env, vocab: &vocab, cap: 40, complete: true, budget: 3000 };
                let vals = en.values(m, 2);
                if !en.complete || vals.is_empty() {
                    decidable = false;
                    break;
                }
                // assignability is a compile-time question: TypeScript's reading of null/undefined
                let mut rts = Ref::new(&case.env, Mode::Open);
                rts.ts_nullish = true;
                let verdicts: Vec<Tri> = vals.iter().map(|w| rts.member(&case.y, w)).collect();
                if verdicts.iter().all(|t| *t == Tri::Yes) {
                    // removed
                } else if verdicts.iter().all(|t| *t == Tri::No) {
                    keep.push(m.clone());
                } else {
                    decidable = false;
                    break;
                }
            }
            if decidable { Some(if keep.is_empty() { D::Never } else { D::Union(keep) }) } else { None }
        } else {
            None
        };
        if expr_kind == "exclude" && exclude_result.is_none() {
            out.label("source_level:exclude_not_member_wise");
            return;
        }
        let m = &resp["results"][0]["m"];
        for (j, v) in case.values.iter().enumerate() {
            let got = match m[j][0].as_i64() {
                Some(1) => true,
                Some(0) => false,
                _ => continue,
            };
            let expected = match expr_kind {
                "exclude" => match &exclude_result {
                    Some(rd) => r.member(rd, v),
                    None => continue,
                },
                "keyof" => match keyof_expectation(&case.env, &case.x) {
                    Some(keys) => Tri::from_bool(matches!(v, JsVal::Str(s) if keys.iter().any(|k| k == s))),
                    None => continue,
                },
                _ => match indexed_expectation(&case.env, &case.x, &case.y) {
                    Some(exp) => r.member(&exp, v),
                    None => continue,
                },
            };
            if expected == Tri::Unspec {
                continue;
            }
            out.evals += 1;
            if Tri::from_bool(got) != expected {
                out.mismatch(
                    ctx,
                    &format!("source_level:{}", expr_kind),
                    format!("the validator of `{}` {} a value it should {}", expr, if got { "accepts" } else { "rejects" }, if got { "reject" } else { "accept" }),
                    json!({"program": text, "value": v, "validate": got}),
                );
                return;
            }
        }
    }
}
