//! Persistent line-oriented JSON workers (Node runtime worker, Python jsonschema judge, compile subprocess).
use serde_json::{json, Value};
use std::io::{BufRead, BufReader, Write};
use std::process::{Child, ChildStdin, Command, Stdio};
use std::sync::mpsc::{channel, Receiver, RecvTimeoutError};
use std::time::Duration;

#[derive(Debug)]
pub enum WorkerError {
    /// the worker did not answer in time (inconclusive; never a verdict outside C04)
    Timeout,
    /// the worker process died
    Died(String),
    /// could not be started / protocol error
    Infra(String),
}

impl std::fmt::Display for WorkerError {
    fn fmt(&self, f: &mut std::fmt::Formatter) -> std::fmt::Result {
        match self {
            WorkerError::Timeout => write!(f, "worker timeout"),
            WorkerError::Died(s) => write!(f, "worker died: {}", s),
            WorkerError::Infra(s) => write!(f, "worker infrastructure error: {}", s),
        }
    }
}

pub struct LineWorker {
    child: Child,
    stdin: ChildStdin,
    rx: Receiver<String>,
    next_id: u64,
    pub requests: u64,
}

impl LineWorker {
    pub fn spawn(mut cmd: Command, ready_timeout: Duration) -> Result<LineWorker, WorkerError> {
        cmd.stdin(Stdio::piped()).stdout(Stdio::piped());
        let mut child = cmd.spawn().map_err(|e| WorkerError::Infra(format!("spawn: {}", e)))?;
        let stdin = child.stdin.take().unwrap();
        let stdout = child.stdout.take().unwrap();
        let (tx, rx) = channel();
        std::thread::spawn(move || {
            let r = BufReader::new(stdout);
            for line in r.lines() {
                match line {
                    Ok(l) => {
                        if tx.send(l).is_err() {
                            break;
                        }
                    }
                    Err(_) => break,
                }
            }
        });
        let mut w = LineWorker { child, stdin, rx, next_id: 1, requests: 0 };
        // first line: {"ready":true} or {"fatal":...}
        match w.rx.recv_timeout(ready_timeout) {
            Ok(l) => {
                let v: Value = serde_json::from_str(&l).map_err(|e| WorkerError::Infra(format!("bad ready line {:?}: {}", l, e)))?;
                if let Some(f) = v.get("fatal") {
                    return Err(WorkerError::Infra(format!("worker fatal: {}", f)));
                }
            }
            Err(RecvTimeoutError::Timeout) => return Err(WorkerError::Infra("worker did not become ready".into())),
            Err(RecvTimeoutError::Disconnected) => return Err(WorkerError::Infra("worker exited at start".into())),
        }
        Ok(w)
    }

    pub fn request(&mut self, mut req: Value, timeout: Duration) -> Result<Value, WorkerError> {
        let id = self.next_id;
        self.next_id += 1;
        self.requests += 1;
        req["id"] = json!(id);
        let line = serde_json::to_string(&req).unwrap();
        if self.stdin.write_all(line.as_bytes()).is_err() || self.stdin.write_all(b"\n").is_err() || self.stdin.flush().is_err() {
            return Err(WorkerError::Died("write failed".into()));
        }
        loop {
            match self.rx.recv_timeout(timeout) {
                Ok(l) => {
                    let v: Value = match serde_json::from_str(&l) {
                        Ok(v) => v,
                        Err(_) => continue, // stray output line
                    };
                    if v.get("id").and_then(|x| x.as_u64()) == Some(id) {
                        return Ok(v);
                    }
                }
                Err(RecvTimeoutError::Timeout) => return Err(WorkerError::Timeout),
                Err(RecvTimeoutError::Disconnected) => {
                    let status = self.child.try_wait().ok().flatten().map(|s| s.to_string()).unwrap_or_default();
                    return Err(WorkerError::Died(status));
                }
            }
        }
    }

    pub fn kill(&mut self) {
        let _ = self.child.kill();
        let _ = self.child.wait();
    }
}

impl Drop for LineWorker {
    fn drop(&mut self) {
        self.kill();
    }
}

pub fn find_node() -> Result<String, String> {
    let mut cands: Vec<String> = vec![];
    if let Ok(p) = std::env::var("VERIF_NODE") {
        cands.push(p);
    }
    cands.push("/root/.nvm/versions/node/v22.22.2/bin/node".to_string());
    if let Ok(rd) = std::fs::read_dir("/root/.nvm/versions/node") {
        let mut v: Vec<String> = rd.flatten().map(|e| format!("{}/bin/node", e.path().display())).collect();
        v.sort();
        v.reverse();
        cands.extend(v);
    }
    cands.push("node".to_string());
    for c in cands {
        let ok = Command::new(&c)
            .args(["-e", "process.exit(typeof require('node:module').stripTypeScriptTypes==='function'?0:1)"])
            .stderr(Stdio::null())
            .stdout(Stdio::null())
            .status()
            .map(|s| s.success())
            .unwrap_or(false);
        if ok {
            return Ok(c);
        }
    }
    Err("no Node.js with module.stripTypeScriptTypes found (need >= 22.13)".to_string())
}

pub fn verif_root() -> String {
    std::env::var("VERIF_ROOT").unwrap_or_else(|_| "/verif".to_string())
}
pub fn work_dir() -> String {
    std::env::var("VERIF_WORK").unwrap_or_else(|_| format!("{}/work", verif_root()))
}

pub fn spawn_node(node: &str) -> Result<LineWorker, WorkerError> {
    let mut cmd = Command::new(node);
    cmd.arg("--no-warnings")
        .arg(format!("{}/js/worker.mjs", verif_root()))
        .env("VERIF_WORK", work_dir())
        .stderr(Stdio::null());
    LineWorker::spawn(cmd, Duration::from_secs(60))
}

pub fn spawn_judge() -> Result<LineWorker, WorkerError> {
    let mut cmd = Command::new("python3-vt");
    cmd.arg(format!("{}/py/judge.py", verif_root())).stderr(Stdio::null());
    LineWorker::spawn(cmd, Duration::from_secs(60))
}
