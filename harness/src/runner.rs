//! proptest-driven runner: generated cases -> oracle -> shrink -> replay file -> evidence.
use crate::proc::{self, LineWorker, WorkerError};
use crate::src::Src;
use proptest::prelude::*;
use proptest::strategy::ValueTree;
use proptest::test_runner::{Config, RngAlgorithm, RngSeed, TestCaseError, TestError, TestRunner};
use serde_json::{json, Value};
use std::collections::hash_map::DefaultHasher;
use std::collections::{BTreeMap, BTreeSet};
use std::hash::{Hash, Hasher};
use std::sync::{Arc, Mutex};
use std::time::{Duration, Instant};

pub const DEFAULT_SEED: u64 = 20260924;

#[derive(Debug, Clone, Copy, PartialEq, Eq)]
pub enum Tier {
    Quick,
    Thorough,
}
impl Tier {
    pub fn name(&self) -> &'static str {
        match self {
            Tier::Quick => "quick",
            Tier::Thorough => "thorough",
        }
    }
}

/// Per-thread execution context: lazily started workers.
pub struct Ctx {
    pub node_path: String,
    node: Option<LineWorker>,
    judge: Option<LineWorker>,
    pub compiler: crate::compile::SubCompiler,
    /// strict = no known-finding tolerance (replays, witnesses)
    pub strict: bool,
    /// true while a failure is being shrunk: checks should use short time bounds
    pub shrinking: bool,
    pub tier: Tier,
    pub open_findings: BTreeSet<String>,
}

impl Ctx {
    pub fn new(node_path: &str, tier: Tier, open_findings: BTreeSet<String>) -> Ctx {
        Ctx { node_path: node_path.to_string(), node: None, judge: None, compiler: crate::compile::SubCompiler::new(), strict: false, shrinking: false, tier, open_findings }
    }
    pub fn node(&mut self, req: Value) -> Result<Value, WorkerError> {
        // restart the worker now and then: Node never frees imported modules
        if self.node.as_ref().map(|n| n.requests > 4000).unwrap_or(false) {
            self.node = None;
        }
        if self.node.is_none() {
            self.node = Some(proc::spawn_node(&self.node_path)?);
        }
        let r = self.node.as_mut().unwrap().request(req, Duration::from_secs(180));
        if r.is_err() {
            self.node = None;
        }
        r
    }
    pub fn judge(&mut self, req: Value) -> Result<Value, WorkerError> {
        if self.judge.is_none() {
            self.judge = Some(proc::spawn_judge()?);
        }
        if let Ok(path) = std::env::var("VERIF_DEBUG_JUDGE") {
            let _ = std::fs::write(format!("{}.{:?}", path, std::thread::current().id()), serde_json::to_string(&req).unwrap_or_default());
        }
        // (a document set is judged in milliseconds; the bound is there for pathological schemas, and is short while
        // shrinking, where every candidate of a slow case would otherwise wait it out again)
        let r = self.judge.as_mut().unwrap().request(req, Duration::from_secs(if self.shrinking { 5 } else { 40 }));
        if r.is_err() {
            self.judge = None;
        }
        r
    }
    /// is this signature a listed open finding (and are we allowed to tolerate)?
    pub fn tolerated(&self, signature: &str) -> bool {
        !self.strict && self.open_findings.contains(signature)
    }
}

#[derive(Debug, Clone)]
pub struct Violation {
    /// stable root-cause signature (matched against known_findings.json `matcher`)
    pub signature: String,
    pub what: String,
    pub detail: Value,
}

#[derive(Debug, Default, Clone)]
pub struct Outcome {
    pub evals: u64,
    pub violation: Option<Violation>,
    /// every distinct violation signature seen in this case (the first one is `violation`)
    pub all_signatures: Vec<String>,
    pub known: Vec<String>,
    pub excluded: Vec<(String, u32)>,
    pub nontrivial: Option<u64>,
    pub labels: Vec<String>,
    pub sample: Option<Value>,
    pub infra: Option<String>,
}

impl Outcome {
    pub fn infra(msg: impl Into<String>) -> Outcome {
        Outcome { infra: Some(msg.into()), ..Default::default() }
    }
    pub fn label(&mut self, l: impl Into<String>) {
        self.labels.push(l.into());
    }
    pub fn violate(&mut self, signature: &str, what: impl Into<String>, detail: Value) {
        if !self.all_signatures.iter().any(|s| s == signature) {
            self.all_signatures.push(signature.to_string());
        }
        if self.violation.is_none() {
            self.violation = Some(Violation { signature: signature.to_string(), what: what.into(), detail });
        }
    }
    /// a mismatch that several root causes present in the case could explain (candidates in priority order): tolerated
    /// when one of them is a listed open finding, else a violation under the first; all candidates are recorded so that
    /// a witness is recognised whichever of its causes it was listed under
    pub fn mismatch_any(&mut self, ctx: &Ctx, signatures: &[String], what: impl Into<String>, detail: Value) {
        if let Some(s) = signatures.iter().find(|s| ctx.tolerated(s)) {
            self.known.push(s.clone());
            return;
        }
        let what = what.into();
        for s in signatures {
            self.violate(s, what.clone(), detail.clone());
        }
    }
    /// report a mismatch: tolerated (counted) when it is a listed open finding, else a violation
    pub fn mismatch(&mut self, ctx: &Ctx, signature: &str, what: impl Into<String>, detail: Value) {
        if ctx.tolerated(signature) {
            self.known.push(signature.to_string());
        } else {
            self.violate(signature, what, detail);
        }
    }
}

pub fn fp<T: Hash>(t: &T) -> u64 {
    let mut h = DefaultHasher::new();
    t.hash(&mut h);
    h.finish()
}

pub trait Check: Sync + Send {
    fn id(&self) -> &'static str;
    fn generate(&self, s: &mut Src, tier: Tier) -> Value;
    fn exec(&self, case: &Value, ctx: &mut Ctx) -> Outcome;
    fn cases(&self, tier: Tier) -> u32;
    fn stream_len(&self) -> usize {
        1500
    }
    fn rule(&self) -> String;
    fn assumptions(&self) -> Vec<String>;
    /// deterministic sub-runs (sweeps, exhaustive enumerations) executed once before the random cases
    fn deterministic(&self, _ctx: &mut Ctx, _tier: Tier) -> Vec<Outcome> {
        vec![]
    }
    /// generator-health floors: label -> minimal fraction of cases (else the run is hollow: exit 2)
    fn health(&self) -> Vec<(&'static str, f64)> {
        vec![]
    }
    fn threads(&self) -> usize {
        8
    }
    /// >1 for properties whose subject is run-to-run variation (C10): a failing case is re-executed this many times
    /// before the harness concludes that it does not reproduce, and then the original observation is reported
    fn reexec_attempts(&self) -> usize {
        1
    }
    /// coverage-guided stage of the thorough tier (fuzz/): executions per libFuzzer process (0 = no such stage)
    fn fuzz_runs(&self) -> u64 {
        0
    }
}

#[derive(Default)]
pub struct Stats {
    pub cases: u64,
    pub evals: u64,
    pub nontrivial: BTreeSet<u64>,
    pub labels: BTreeMap<String, u64>,
    pub known: BTreeMap<String, u64>,
    pub excluded: BTreeMap<String, u64>,
    pub samples: Vec<Value>,
    pub infra: Option<String>,
}
impl Stats {
    pub fn absorb(&mut self, o: &Outcome) {
        self.cases += 1;
        self.evals += o.evals;
        if let Some(f) = o.nontrivial {
            let newly = self.nontrivial.insert(f);
            if newly && self.samples.len() < 6 {
                if let Some(s) = &o.sample {
                    self.samples.push(s.clone());
                }
            }
        }
        for l in &o.labels {
            *self.labels.entry(l.clone()).or_insert(0) += 1;
        }
        for k in &o.known {
            *self.known.entry(k.clone()).or_insert(0) += 1;
        }
        for (k, n) in &o.excluded {
            *self.excluded.entry(k.clone()).or_insert(0) += *n as u64;
        }
    }
    pub fn merge(&mut self, o: Stats) {
        self.cases += o.cases;
        self.evals += o.evals;
        self.nontrivial.extend(o.nontrivial);
        for (k, v) in o.labels {
            *self.labels.entry(k).or_insert(0) += v;
        }
        for (k, v) in o.known {
            *self.known.entry(k).or_insert(0) += v;
        }
        for (k, v) in o.excluded {
            *self.excluded.entry(k).or_insert(0) += v;
        }
        for s in o.samples {
            if self.samples.len() < 8 {
                self.samples.push(s);
            }
        }
        if self.infra.is_none() {
            self.infra = o.infra;
        }
    }
}

pub struct Found {
    pub violation: Violation,
    pub case: Value,
    pub choices: Vec<u32>,
    pub seed: u64,
}

pub struct RunResult {
    pub stats: Stats,
    pub found: Vec<Found>,
    pub wall: f64,
}

pub fn salt(id: &str, thread: usize) -> u64 {
    fp(&(id, thread))
}

pub fn run_random(check: Arc<dyn Check>, tier: Tier, seed: u64, node_path: &str, open: &BTreeSet<String>) -> RunResult {
    let t0 = Instant::now();
    let threads = check.threads().max(1);
    let total = check.cases(tier);
    let per = (total as usize).div_ceil(threads) as u32;
    let results: Arc<Mutex<Vec<(Stats, Option<Found>)>>> = Arc::new(Mutex::new(vec![]));
    let mut handles = vec![];
    for t in 0..threads {
        let check = check.clone();
        let results = results.clone();
        let node_path = node_path.to_string();
        let open = open.clone();
        let h = std::thread::Builder::new()
            .stack_size(64 * 1024 * 1024)
            .spawn(move || {
                let mut ctx = Ctx::new(&node_path, tier, open);
                let tseed = seed ^ salt(check.id(), t);
                let mut seed_bytes = [0u8; 32];
                for (i, b) in seed_bytes.iter_mut().enumerate() {
                    *b = (tseed.rotate_left((i as u32 * 7) % 64) as u8) ^ (i as u8).wrapping_mul(37);
                }
                let _ = seed_bytes;
                let config = Config {
                    cases: per,
                    failure_persistence: None,
                    rng_algorithm: RngAlgorithm::ChaCha,
                    rng_seed: RngSeed::Fixed(tseed),
                    max_shrink_iters: 60,
                    max_local_rejects: 1,
                    max_global_rejects: 1,
                    ..Config::default()
                };
                let mut runner = TestRunner::new(config);
                let strategy = proptest::collection::vec(any::<u32>(), 0..=check.stream_len());
                let stats = std::cell::RefCell::new(Stats::default());
                let failed = std::cell::Cell::new(false);
                // the first observed failure, as observed (for subjects that are themselves nondeterministic the
                // observation is the evidence: a later re-execution need not show it again)
                let first_fail: std::cell::RefCell<Option<Found>> = std::cell::RefCell::new(None);
                let ctxc = std::cell::RefCell::new(&mut ctx);
                let res = runner.run(&strategy, |data| {
                    if stats.borrow().infra.is_some() {
                        return Ok(());
                    }
                    let mut s = Src::new(&data);
                    let case = check.generate(&mut s, tier);
                    ctxc.borrow_mut().shrinking = failed.get();
                    let out = check.exec(&case, &mut ctxc.borrow_mut());
                    if let Some(i) = &out.infra {
                        stats.borrow_mut().infra = Some(i.clone());
                        return Ok(());
                    }
                    if !failed.get() {
                        stats.borrow_mut().absorb(&out);
                    }
                    if let Some(v) = &out.violation {
                        if first_fail.borrow().is_none() {
                            *first_fail.borrow_mut() = Some(Found { violation: v.clone(), case: case.clone(), choices: data.clone(), seed: tseed });
                        }
                        failed.set(true);
                        return Err(TestCaseError::fail(v.signature.clone()));
                    }
                    Ok(())
                });
                let mut found = None;
                if let Err(TestError::Fail(reason, minimal)) = res {
                    // second shrinking stage on top of proptest's: truncate the stream and zero aligned windows
                    // (0 is every generator's simplest choice), keeping only candidates that fail with the
                    // same root-cause signature so that the search never slides into a different failure.
                    let sig = reason.message().to_string();
                    let ctx: &mut Ctx = &mut ctxc.borrow_mut();
                    ctx.shrinking = true;
                    let budget = if sig.contains("hang") { 40 } else { 500 };
                    let original = minimal.clone();
                    let mut minimal = shrink_stream(check.as_ref(), ctx, tier, minimal, &sig, budget);
                    ctx.shrinking = false;
                    // bounds are shorter while shrinking: make sure the shrunk case fails under the full bounds too,
                    // otherwise report the case as it was found
                    {
                        let mut s = Src::new(&minimal);
                        let case = check.generate(&mut s, tier);
                        let out = check.exec(&case, ctx);
                        if out.violation.is_none() && out.infra.is_none() {
                            minimal = original;
                        }
                    }
                    // re-run the shrunk case to get the final observation
                    let mut s = Src::new(&minimal);
                    let case = check.generate(&mut s, tier);
                    let mut out = check.exec(&case, ctx);
                    for _ in 1..check.reexec_attempts() {
                        if out.violation.is_some() || out.infra.is_some() {
                            break;
                        }
                        out = check.exec(&case, ctx);
                    }
                    if out.violation.is_none() && out.infra.is_none() && check.reexec_attempts() > 1 {
                        // observed once, not shown again by the re-executions: report the observation itself
                        if let Some(mut f) = first_fail.borrow_mut().take() {
                            f.violation.what = format!("{} [observed once; {} re-executions of the shrunk case did not show it again]", f.violation.what, check.reexec_attempts());
                            found = Some(f);
                        }
                    }
                    if found.is_some() {
                    } else if let Some(v) = out.violation {
                        found = Some(Found { violation: v, case, choices: minimal, seed: tseed });
                    } else if let Some(i) = out.infra {
                        stats.borrow_mut().infra = Some(i);
                    } else {
                        stats.borrow_mut().infra = Some("shrunk case did not reproduce (flaky oracle?)".to_string());
                    }
                }
                results.lock().unwrap().push((stats.into_inner(), found));
            })
            .expect("spawn");
        handles.push(h);
    }
    let mut died = false;
    for h in handles {
        if h.join().is_err() {
            died = true;
        }
    }
    let mut stats = Stats::default();
    let mut found = vec![];
    for (s, f) in Arc::try_unwrap(results).ok().unwrap().into_inner().unwrap() {
        stats.merge(s);
        if let Some(f) = f {
            found.push(f);
        }
    }
    if died && stats.infra.is_none() {
        stats.infra = Some("a runner thread panicked".to_string());
    }
    RunResult { stats, found, wall: t0.elapsed().as_secs_f64() }
}

/// Greedy stream shrinker (bounded number of oracle evaluations).
pub fn shrink_stream(check: &dyn Check, ctx: &mut Ctx, tier: Tier, data: Vec<u32>, sig: &str, budget: usize) -> Vec<u32> {
    let mut best = data;
    let mut spent = 0usize;
    let fails = |cand: &[u32], ctx: &mut Ctx, spent: &mut usize| -> bool {
        *spent += 1;
        let mut s = Src::new(cand);
        let case = check.generate(&mut s, tier);
        let out = check.exec(&case, ctx);
        matches!(&out.violation, Some(v) if v.signature == sig)
    };
    // 1. shortest failing prefix (binary search, then verify)
    let (mut lo, mut hi) = (0usize, best.len());
    while lo < hi && spent < budget {
        let mid = (lo + hi) / 2;
        if fails(&best[..mid], ctx, &mut spent) {
            hi = mid;
        } else {
            lo = mid + 1;
        }
    }
    if hi < best.len() && fails(&best[..hi], ctx, &mut spent) {
        best.truncate(hi);
    }
    // 2. zero aligned windows, large to small; repeat while progress
    let mut progress = true;
    while progress && spent < budget {
        progress = false;
        let mut w = (best.len() / 2).max(1);
        loop {
            let mut i = 0;
            while i < best.len() && spent < budget {
                let end = (i + w).min(best.len());
                if best[i..end].iter().any(|x| *x != 0) {
                    let mut cand = best.clone();
                    for x in &mut cand[i..end] {
                        *x = 0;
                    }
                    if fails(&cand, ctx, &mut spent) {
                        best = cand;
                        progress = true;
                    }
                }
                i += w;
            }
            if w == 1 {
                break;
            }
            w /= 2;
        }
        // drop trailing zeros (same meaning: exhausted stream yields 0)
        while best.last() == Some(&0) {
            best.pop();
        }
    }
    best
}

// ------------------------------------------------------------------------------------------------
// coverage-guided stage (thorough tier): libFuzzer over the choice stream, see fuzz/fuzz_targets/stream.rs
// ------------------------------------------------------------------------------------------------

pub fn fuzz_binary() -> String {
    format!("{}/harness/fuzz/target/x86_64-unknown-linux-gnu/release/stream", proc::verif_root())
}

fn stream_bytes(data: &[u32]) -> Vec<u8> {
    data.iter().flat_map(|x| x.to_le_bytes()).collect()
}
fn bytes_stream(data: &[u8]) -> Vec<u32> {
    data.chunks_exact(4).map(|c| u32::from_le_bytes([c[0], c[1], c[2], c[3]])).collect()
}

/// Runs `jobs` libFuzzer processes over one shared corpus (seeded with proptest-drawn streams), then judges every
/// stream they saved (violations found in-target, crash / timeout / oom artifacts) again through the ordinary
/// subprocess path with the ordinary known-finding tolerance; what still fails is shrunk and reported like any
/// other failure.  Returns (coverage report, infra note, found).
pub fn fuzz_stage(check: Arc<dyn Check>, seed: u64, node_path: &str, open: &BTreeSet<String>) -> (Value, Vec<Found>) {
    let id = check.id();
    let runs = std::env::var("VERIF_FUZZ_RUNS").ok().and_then(|s| s.parse().ok()).unwrap_or(check.fuzz_runs());
    if runs == 0 {
        return (Value::Null, vec![]);
    }
    let bin = fuzz_binary();
    if !std::path::Path::new(&bin).exists() {
        return (json!({"skipped": "the libFuzzer target is not built (cargo +nightly fuzz build failed or was not attempted; see work/build-fuzz.log)"}), vec![]);
    }
    let t0 = Instant::now();
    let dir = format!("{}/fuzz-{}", proc::work_dir(), id);
    let _ = std::fs::remove_dir_all(&dir);
    for d in ["corpus", "artifacts", "violations"] {
        let _ = std::fs::create_dir_all(format!("{}/{}", dir, d));
    }
    // starting corpus: streams drawn like the random stage draws them (a pure function of the seed)
    {
        let mut runner = TestRunner::new(Config { rng_seed: RngSeed::Fixed(seed ^ salt(id, 99)), rng_algorithm: RngAlgorithm::ChaCha, failure_persistence: None, ..Config::default() });
        let strategy = proptest::collection::vec(any::<u32>(), 0..=check.stream_len());
        for i in 0..96 {
            if let Ok(t) = strategy.new_tree(&mut runner) {
                let _ = std::fs::write(format!("{}/corpus/seed-{:03}", dir, i), stream_bytes(&t.current()));
            }
        }
    }
    let jobs: usize = std::env::var("VERIF_FUZZ_JOBS").ok().and_then(|s| s.parse().ok()).unwrap_or(8);
    let mut children = vec![];
    for j in 0..jobs {
        let log = std::fs::File::create(format!("{}/job-{}.log", dir, j)).ok();
        let mut cmd = std::process::Command::new(&bin);
        cmd.arg(format!("-runs={}", runs))
            .arg(format!("-seed={}", ((seed ^ salt(id, 200 + j)) % 0x7fff_fffe) + 1))
            .arg(format!("-max_len={}", check.stream_len() * 4))
            .arg("-len_control=0")
            .arg("-timeout=300")
            .arg("-rss_limit_mb=6000")
            .arg("-print_final_stats=1")
            .arg(format!("-artifact_prefix={}/artifacts/j{}-", dir, j))
            .arg(format!("{}/corpus", dir))
            .env("BEFFV_FUZZ_ID", id)
            .env("BEFFV_INPROC", "1")
            .env("BEFFV_FUZZ_DIR", &dir)
            .env("VERIF_ROOT", proc::verif_root())
            .stdout(std::process::Stdio::null());
        match log {
            Some(f) => {
                cmd.stderr(f);
            }
            None => {
                cmd.stderr(std::process::Stdio::null());
            }
        }
        if let Ok(c) = cmd.spawn() {
            children.push(c);
        }
    }
    // wall-clock budget: a campaign that is cut short is reported as such (never a verdict by itself)
    let budget = std::time::Duration::from_secs(std::env::var("VERIF_FUZZ_BUDGET_S").ok().and_then(|s| s.parse().ok()).unwrap_or(2400));
    let mut cut_short = 0;
    let mut abnormal = 0;
    for c in &mut children {
        loop {
            match c.try_wait() {
                Ok(Some(st)) => {
                    if !st.success() {
                        abnormal += 1;
                    }
                    break;
                }
                Ok(None) => {
                    if t0.elapsed() > budget {
                        let _ = c.kill();
                        let _ = c.wait();
                        cut_short += 1;
                        break;
                    }
                    std::thread::sleep(std::time::Duration::from_millis(200));
                }
                Err(_) => break,
            }
        }
    }
    // statistics written by the target
    let mut cases = 0u64;
    let mut evals = 0u64;
    let mut nontrivial: BTreeSet<u64> = BTreeSet::new();
    let mut labels: BTreeMap<String, u64> = BTreeMap::new();
    let mut known: BTreeMap<String, u64> = BTreeMap::new();
    let mut excluded: BTreeMap<String, u64> = BTreeMap::new();
    let mut in_target: BTreeMap<String, u64> = BTreeMap::new();
    let mut samples: Vec<Value> = vec![];
    let mut infra_cases = 0u64;
    let mut saved: Vec<(String, Vec<u32>)> = vec![];
    if let Ok(rd) = std::fs::read_dir(&dir) {
        let mut names: Vec<_> = rd.flatten().map(|e| e.path()).collect();
        names.sort();
        for pth in names {
            let name = pth.file_name().and_then(|n| n.to_str()).unwrap_or("").to_string();
            if !name.starts_with("stats-") {
                continue;
            }
            let v: Value = std::fs::read_to_string(&pth).ok().and_then(|t| serde_json::from_str(&t).ok()).unwrap_or(Value::Null);
            cases += v["cases"].as_u64().unwrap_or(0);
            evals += v["evals"].as_u64().unwrap_or(0);
            infra_cases += v["infra"].as_u64().unwrap_or(0);
            for x in v["nontrivial"].as_array().cloned().unwrap_or_default() {
                if let Some(n) = x.as_u64() {
                    nontrivial.insert(n);
                }
            }
            for (m, key) in [(&mut labels, "labels"), (&mut known, "known"), (&mut excluded, "excluded"), (&mut in_target, "violations")] {
                if let Some(o) = v[key].as_object() {
                    for (k, n) in o {
                        *m.entry(k.clone()).or_insert(0) += n.as_u64().unwrap_or(0);
                    }
                }
            }
            for smp in v["samples"].as_array().cloned().unwrap_or_default() {
                if samples.len() < 3 {
                    samples.push(smp);
                }
            }
        }
    }
    for sub in ["violations", "artifacts"] {
        if let Ok(rd) = std::fs::read_dir(format!("{}/{}", dir, sub)) {
            let mut names: Vec<_> = rd.flatten().map(|e| e.path()).collect();
            names.sort();
            for pth in names {
                let name = format!("{}/{}", sub, pth.file_name().and_then(|n| n.to_str()).unwrap_or(""));
                if sub == "violations" {
                    let v: Value = std::fs::read_to_string(&pth).ok().and_then(|t| serde_json::from_str(&t).ok()).unwrap_or(Value::Null);
                    let ch: Vec<u32> = serde_json::from_value(v["choices"].clone()).unwrap_or_default();
                    saved.push((name, ch));
                } else if let Ok(b) = std::fs::read(&pth) {
                    saved.push((name, bytes_stream(&b)));
                }
            }
        }
    }
    let corpus_size = std::fs::read_dir(format!("{}/corpus", dir)).map(|r| r.count()).unwrap_or(0);
    // coverage counters of the first job, for the record
    let cov_line = std::fs::read_to_string(format!("{}/job-0.log", dir))
        .ok()
        .and_then(|t| t.lines().rev().find(|l| l.contains(" cov: ")).map(|l| l.trim().to_string()))
        .unwrap_or_default();
    // every saved stream is judged again by the ordinary path (subprocess compiler with its watchdog, ordinary tolerance)
    let mut found: Vec<Found> = vec![];
    let mut rejudged = vec![];
    let mut seen_sig: BTreeSet<String> = BTreeSet::new();
    let mut ctx = Ctx::new(node_path, Tier::Thorough, open.clone());
    for (name, data) in saved.iter().take(40) {
        let mut s = Src::new(data);
        let case = check.generate(&mut s, Tier::Thorough);
        let out = check.exec(&case, &mut ctx);
        let verdict = if let Some(i) = &out.infra {
            format!("inconclusive: {}", i)
        } else if let Some(v) = &out.violation {
            if seen_sig.insert(v.signature.clone()) {
                ctx.shrinking = true;
                let budget = if v.signature.contains("hang") { 40 } else { 400 };
                let minimal = shrink_stream(check.as_ref(), &mut ctx, Tier::Thorough, data.clone(), &v.signature, budget);
                ctx.shrinking = false;
                let mut s2 = Src::new(&minimal);
                let case2 = check.generate(&mut s2, Tier::Thorough);
                let out2 = check.exec(&case2, &mut ctx);
                match out2.violation {
                    Some(v2) => found.push(Found { violation: v2, case: case2, choices: minimal, seed }),
                    None => found.push(Found { violation: v.clone(), case: case.clone(), choices: data.clone(), seed }),
                }
            }
            format!("violation: {}", v.signature)
        } else if !out.known.is_empty() {
            format!("listed finding: {}", out.known.join(", "))
        } else {
            "holds when judged again (a time or memory limit of the fuzzing process, not a verdict)".to_string()
        };
        rejudged.push(json!({"saved_input": name, "verdict": verdict}));
    }
    let _ = std::fs::remove_dir_all(&dir);
    let report = json!({
        "engine": "libFuzzer (cargo-fuzz, no sanitizer: beff is safe Rust) over the generators' choice stream; oracle = this check's own exec, compiler / engine in-process for coverage feedback",
        "processes": children.len(),
        "runs_per_process": runs,
        "executions": cases,
        "oracle_evaluations": evals,
        "distinct_nontrivial": nontrivial.len(),
        "corpus_units_at_end": corpus_size,
        "starting_corpus": 96,
        "final_coverage_line_job0": cov_line,
        "labels": labels,
        "known_findings_tolerated": known,
        "excluded_by_construction": excluded,
        "in_target_violation_signatures": in_target,
        "inconclusive_cases": infra_cases,
        "processes_cut_short_by_budget": cut_short,
        "processes_ended_abnormally": abnormal,
        "saved_inputs_judged_again": rejudged,
        "samples": samples,
        "wall_s": t0.elapsed().as_secs_f64(),
    });
    (report, found)
}

// ------------------------------------------------------------------------------------------------
// known findings
// ------------------------------------------------------------------------------------------------

#[derive(Debug, Clone, serde::Deserialize)]
pub struct KnownFinding {
    pub id: String,
    pub property: String,
    /// root-cause signature the checks compute for a mismatch
    pub matcher: String,
    pub what: String,
    /// replay file relative to /verif
    pub witness: String,
    /// "open" or "fixed"
    pub status: String,
    #[serde(default)]
    pub commit: Option<String>,
}

pub fn load_known_findings() -> Vec<KnownFinding> {
    let p = format!("{}/known_findings.json", proc::verif_root());
    match std::fs::read_to_string(&p) {
        Ok(s) => {
            // a file that does not parse must not silently turn every listed finding into an alarm
            let parsed: Result<Vec<KnownFinding>, String> =
                serde_json::from_str::<Value>(&s).map_err(|e| e.to_string()).and_then(|v| serde_json::from_value(v["findings"].clone()).map_err(|e| e.to_string()));
            match parsed {
                Ok(f) => f,
                Err(e) => {
                    eprintln!("INFRASTRUCTURE: {} does not parse: {}", p, e);
                    std::process::exit(2);
                }
            }
        }
        Err(_) => vec![],
    }
}

// ------------------------------------------------------------------------------------------------
// orchestration of one check
// ------------------------------------------------------------------------------------------------

pub fn write_replay(id: &str, f: &Found) -> String {
    let dir = format!("{}/replays/{}", proc::verif_root(), id);
    let _ = std::fs::create_dir_all(&dir);
    let body = json!({
        "property": id,
        "signature": f.violation.signature,
        "what": f.violation.what,
        "seed": f.seed,
        "choices": f.choices,
        "case": f.case,
        "observed": f.violation.detail,
    });
    let text = serde_json::to_string_pretty(&body).unwrap();
    let h = fp(&serde_json::to_string(&f.case).unwrap());
    let path = format!("{}/new-{:016x}.json", dir, h);
    let _ = std::fs::write(&path, text);
    path
}

pub fn run_check(check: Arc<dyn Check>, tier: Tier, seed: u64) -> i32 {
    let id = check.id();
    let t0 = Instant::now();
    let node_path = match proc::find_node() {
        Ok(p) => p,
        Err(e) => {
            eprintln!("INFRASTRUCTURE: {}", e);
            return 2;
        }
    };
    let _ = std::fs::create_dir_all(proc::work_dir());
    let findings: Vec<KnownFinding> = load_known_findings().into_iter().filter(|k| k.property == id).collect();
    let open: BTreeSet<String> = findings.iter().filter(|k| k.status == "open").map(|k| k.matcher.clone()).collect();
    let mut exit = 0;
    let mut violations = 0;
    let mut witness_notes: Vec<Value> = vec![];

    // 1. witnesses of listed findings, replayed strictly
    {
        let mut ctx = Ctx::new(&node_path, tier, BTreeSet::new());
        ctx.strict = true;
        for k in &findings {
            if k.witness.is_empty() {
                // fallback classifications (same root cause as a witnessed entry, seen through a coarser lens)
                continue;
            }
            let path = format!("{}/{}", proc::verif_root(), k.witness);
            let text = match std::fs::read_to_string(&path) {
                Ok(t) => t,
                Err(e) => {
                    eprintln!("INFRASTRUCTURE: cannot read witness {}: {}", path, e);
                    return 2;
                }
            };
            let v: Value = serde_json::from_str(&text).unwrap_or(Value::Null);
            let out = check.exec(&v["case"], &mut ctx);
            if let Some(i) = out.infra {
                eprintln!("INFRASTRUCTURE: witness {}: {}", k.id, i);
                return 2;
            }
            match (&out.violation, k.status.as_str()) {
                (Some(_), "open") if out.all_signatures.iter().any(|s| *s == k.matcher) => {
                    println!("KNOWN-FINDING: property={} {} [{}]", id, k.what, k.id);
                    witness_notes.push(json!({"finding": k.id, "status": "open", "reproduces": true}));
                }
                (Some(v), _) => {
                    // a fixed defect came back, or the witness now fails differently
                    println!("VIOLATION property={} replay={}", id, path);
                    println!("  witness {} ({}) fails with signature {}: {}", k.id, k.status, v.signature, v.what);
                    violations += 1;
                    exit = 1;
                }
                (None, st) => {
                    witness_notes.push(json!({"finding": k.id, "status": st, "reproduces": false}));
                }
            }
        }
    }

    // 2. deterministic sub-runs
    let mut stats = Stats::default();
    let mut found: Vec<Found> = vec![];
    {
        let mut ctx = Ctx::new(&node_path, tier, open.clone());
        for out in check.deterministic(&mut ctx, tier) {
            if let Some(i) = &out.infra {
                stats.infra = Some(i.clone());
                break;
            }
            stats.absorb(&out);
            if let Some(v) = out.violation {
                let case = out.sample.clone().unwrap_or(Value::Null);
                found.push(Found { violation: v, case, choices: vec![], seed });
            }
        }
    }

    // 3. random cases
    if stats.infra.is_none() {
        let rr = run_random(check.clone(), tier, seed, &node_path, &open);
        stats.merge(rr.stats);
        found.extend(rr.found);
    }

    if let Some(i) = &stats.infra {
        eprintln!("INFRASTRUCTURE: {}", i);
        // still write evidence? no: an inconclusive run is not evidence
        return 2;
    }

    // 4. coverage-guided stage (thorough tier only)
    let mut fuzz_report = Value::Null;
    if tier == Tier::Thorough || std::env::var("VERIF_FUZZ_RUNS").is_ok() {
        let (rep, f) = fuzz_stage(check.clone(), seed, &node_path, &open);
        if let Some(n) = rep["executions"].as_u64() {
            println!("{} coverage-guided stage: {} executions in {} processes, {} distinct non-trivial, {} saved inputs judged again", id, n, rep["processes"], rep["distinct_nontrivial"], rep["saved_inputs_judged_again"].as_array().map(|a| a.len()).unwrap_or(0));
        } else if let Some(sk) = rep["skipped"].as_str() {
            eprintln!("NOTE: coverage-guided stage skipped: {}", sk);
        }
        fuzz_report = rep;
        found.extend(f);
    }

    // distinct root causes only
    let mut seen = BTreeSet::new();
    for f in &found {
        if seen.insert(f.violation.signature.clone()) {
            let path = write_replay(id, f);
            println!("VIOLATION property={} replay={}", id, path);
            println!("  {}: {}", f.violation.signature, f.violation.what);
            violations += 1;
            exit = 1;
        }
    }

    // generator health
    let mut hollow = vec![];
    for (label, floor) in check.health() {
        let n = *stats.labels.get(label).unwrap_or(&0) as f64;
        let frac = if stats.cases == 0 { 0.0 } else { n / stats.cases as f64 };
        if frac < floor {
            hollow.push(format!("{}: {:.3} < {:.3}", label, frac, floor));
        }
    }
    if !hollow.is_empty() && exit == 0 {
        eprintln!("INFRASTRUCTURE: generator health below floor: {}", hollow.join("; "));
        return 2;
    }

    let wall = t0.elapsed().as_secs_f64();
    let evidence = json!({
        "property_id": id,
        "tier": tier.name(),
        "seed": seed,
        "level": "exploration",
        "coverage": {
            "evaluations": stats.evals.max(1),
            "cases": stats.cases,
            "distinct_nontrivial": stats.nontrivial.len(),
            "rule": check.rule(),
            "samples": stats.samples,
            "labels": stats.labels,
            "known_findings_tolerated": stats.known,
            "excluded_by_construction": stats.excluded,
            "witnesses": witness_notes,
            "coverage_guided_stage": fuzz_report,
            "exhaustive": false,
        },
        "assumptions": check.assumptions(),
        "wall_s": wall,
        "violations": violations,
    });
    let epath = format!("{}/evidence/{}.json", proc::verif_root(), id);
    let _ = std::fs::create_dir_all(format!("{}/evidence", proc::verif_root()));
    if let Err(e) = std::fs::write(&epath, serde_json::to_string_pretty(&evidence).unwrap()) {
        eprintln!("INFRASTRUCTURE: cannot write evidence: {}", e);
        return 2;
    }
    println!(
        "{} {} seed={} cases={} evaluations={} distinct_nontrivial={} known_tolerated={} wall={:.1}s exit={}",
        id,
        tier.name(),
        seed,
        stats.cases,
        stats.evals,
        stats.nontrivial.len(),
        stats.known.values().sum::<u64>(),
        wall,
        exit
    );
    exit
}

pub fn replay(check: Arc<dyn Check>, path: &str) -> i32 {
    let node_path = match proc::find_node() {
        Ok(p) => p,
        Err(e) => {
            eprintln!("INFRASTRUCTURE: {}", e);
            return 2;
        }
    };
    let text = match std::fs::read_to_string(path) {
        Ok(t) => t,
        Err(e) => {
            eprintln!("INFRASTRUCTURE: cannot read {}: {}", path, e);
            return 2;
        }
    };
    let v: Value = serde_json::from_str(&text).unwrap_or(Value::Null);
    let mut ctx = Ctx::new(&node_path, Tier::Quick, BTreeSet::new());
    ctx.strict = true;
    let out = check.exec(&v["case"], &mut ctx);
    if let Some(i) = out.infra {
        eprintln!("INFRASTRUCTURE: {}", i);
        return 2;
    }
    match out.violation {
        Some(v) => {
            println!("VIOLATION property={} replay={}", check.id(), path);
            println!("  {}: {}", v.signature, v.what);
            println!("  signatures: {:?}", out.all_signatures);
            println!("{}", serde_json::to_string_pretty(&v.detail).unwrap());
            1
        }
        None => {
            println!("replay of {} holds (no violation)", path);
            0
        }
    }
}
