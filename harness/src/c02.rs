//! C02 — emitted JSON Schema and validator agree on JSON documents.
//! Judge: python-jsonschema (Draft 2020-12) in a persistent subprocess, `pattern` evaluated by Node (ECMA-262),
//! custom `format`s asserted with the same definitions the validators were registered with.
use crate::c01::{compile_case, gen_typed_case, node_case, TypedCase};
use crate::den::{Env, GenCfg, D};
use crate::jsval::{inject_extra_key, JsVal};
use crate::member::{Mode, Ref, Tri};
use crate::render::RenderCfg;
use crate::runner::{fp, Check, Ctx, Outcome, Tier};
use crate::src::Src;
use serde::{Deserialize, Serialize};
use serde_json::{json, Map, Value};
use std::collections::BTreeSet;

#[derive(Debug, Clone, Serialize, Deserialize)]
pub struct CtxCfg {
    pub template: String,
    pub container: Option<String>,
    /// JSON pointer segments under which the harness places the exported definitions in the root document
    pub place: Vec<String>,
}

pub fn gen_ctx_cfg(s: &mut Src) -> CtxCfg {
    match s.below(7) {
        0 => CtxCfg { template: "#/$defs/{name}".into(), container: Some("$defs".into()), place: vec![] },
        1 => CtxCfg { template: "#/$defs/{name}".into(), container: None, place: vec!["$defs".into()] },
        2 => CtxCfg { template: "#/components/schemas/{name}".into(), container: Some("schemas".into()), place: vec!["components".into()] },
        3 => CtxCfg { template: "#/definitions/{name}".into(), container: Some("definitions".into()), place: vec![] },
        4 => CtxCfg { template: "#/components/schemas/{name}".into(), container: None, place: vec!["components".into(), "schemas".into()] },
        5 => CtxCfg { template: "#/x-types/{name}".into(), container: Some("x-types".into()), place: vec![] },
        _ => CtxCfg { template: "#/a/b/{name}".into(), container: None, place: vec!["a".into(), "b".into()] },
    }
}

/// returned schema + exported definitions -> one root document in which the template's pointers resolve
pub fn compose_root(returned: &Value, exported: &Value, cfg: &CtxCfg) -> Result<Value, String> {
    let mut root = match returned {
        Value::Object(m) => m.clone(),
        Value::Bool(_) => return Err("boolean schema at the root".into()),
        _ => return Err("returned schema is not an object".into()),
    };
    let exp = exported.as_object().ok_or("export is not an object")?;
    // walk/create the placement path
    fn place_at(m: &mut Map<String, Value>, path: &[String], content: &Map<String, Value>) -> Result<(), String> {
        if path.is_empty() {
            for (k, v) in content {
                if m.contains_key(k) {
                    return Err(format!("returned schema already has key {}", k));
                }
                m.insert(k.clone(), v.clone());
            }
            return Ok(());
        }
        let e = m.entry(path[0].clone()).or_insert_with(|| Value::Object(Map::new()));
        match e {
            Value::Object(inner) => place_at(inner, &path[1..], content),
            _ => Err("placement path blocked".into()),
        }
    }
    place_at(&mut root, &cfg.place, exp)?;
    Ok(Value::Object(root))
}

pub fn defs_of<'a>(exported: &'a Value, cfg: &CtxCfg) -> Option<&'a Map<String, Value>> {
    match &cfg.container {
        None => exported.as_object(),
        Some(k) => exported.get(k).and_then(|v| v.as_object()),
    }
}

/// JSON.stringify semantics for the parts that are JSON-able: undefined-valued properties are dropped.
pub fn jsonify(v: &JsVal) -> Option<Value> {
    Some(match v {
        JsVal::Arr(xs) => Value::Array(xs.iter().map(jsonify).collect::<Option<Vec<_>>>()?),
        JsVal::Obj(kv, crate::jsval::Proto::Plain) => {
            let mut m = Map::new();
            for (k, x) in kv {
                if k == "__proto__" {
                    return None;
                }
                if matches!(x, JsVal::Undef) {
                    continue;
                }
                m.insert(k.clone(), jsonify(x)?);
            }
            Value::Object(m)
        }
        other => other.to_json()?,
    })
}

pub fn null_free(v: &Value) -> bool {
    match v {
        Value::Null => false,
        Value::Array(a) => a.iter().all(null_free),
        Value::Object(o) => o.values().all(null_free),
        _ => true,
    }
}

fn collect_strings(v: &Value, out: &mut BTreeSet<String>) {
    match v {
        Value::String(s) => {
            out.insert(s.clone());
        }
        Value::Array(a) => a.iter().for_each(|x| collect_strings(x, out)),
        Value::Object(o) => {
            for (k, x) in o {
                out.insert(k.clone()); // propertyNames patterns
                collect_strings(x, out);
            }
        }
        _ => {}
    }
}
fn collect_kw(v: &Value, kw: &str, out: &mut BTreeSet<String>) {
    match v {
        Value::Array(a) => a.iter().for_each(|x| collect_kw(x, kw, out)),
        Value::Object(o) => {
            for (k, x) in o {
                if k == kw {
                    if let Some(s) = x.as_str() {
                        out.insert(s.to_string());
                    }
                }
                collect_kw(x, kw, out);
            }
        }
        _ => {}
    }
}

fn resolve_ptr<'a>(root: &'a Value, r: &str) -> Option<&'a Value> {
    let p = r.strip_prefix('#')?;
    if p.is_empty() {
        return Some(root);
    }
    root.pointer(p)
}

/// Documents derived from the *emitted schema* (not from the reference): tries to satisfy the schema; the judge
/// decides what they are.  `root` is the document `$ref`s point into.
pub fn gen_from_schema(sch: &Value, root: &Value, s: &mut Src, depth: usize) -> Value {
    const STRS: [&str; 9] = ["a", "b", "", "a-b", "abc", "ABC", "a1", "1", "xyz"];
    let arb = |s: &mut Src| -> Value {
        match s.below(6) {
            0 => json!("a"),
            1 => json!(1),
            2 => json!(true),
            3 => json!({}),
            4 => json!([]),
            _ => json!({"k": 1}),
        }
    };
    let o = match sch {
        Value::Bool(true) => return arb(s),
        Value::Object(o) => o,
        _ => return json!("no-instance"),
    };
    if depth == 0 {
        return arb(s);
    }
    if let Some(r) = o.get("$ref").and_then(|x| x.as_str()) {
        return match resolve_ptr(root, r) {
            Some(t) => gen_from_schema(t, root, s, depth - 1),
            None => json!("dangling"),
        };
    }
    if let Some(c) = o.get("const") {
        return c.clone();
    }
    if let Some(e) = o.get("enum").and_then(|x| x.as_array()) {
        if !e.is_empty() {
            return e[s.below(e.len())].clone();
        }
    }
    for kw in ["anyOf", "oneOf"] {
        if let Some(a) = o.get(kw).and_then(|x| x.as_array()) {
            if a.is_empty() {
                return arb(s);
            }
            let i = s.below(a.len());
            return gen_from_schema(&a[i], root, s, depth);
        }
    }
    if let Some(a) = o.get("allOf").and_then(|x| x.as_array()) {
        // object-ish merge: union of generated objects, later members fill what earlier ones left
        let mut acc: Option<Value> = None;
        for m in a {
            let v = gen_from_schema(m, root, s, depth);
            acc = Some(match (acc, v) {
                (Some(Value::Object(mut x)), Value::Object(y)) => {
                    for (k, vv) in y {
                        x.entry(k).or_insert(vv);
                    }
                    Value::Object(x)
                }
                (None, v) => v,
                (Some(x), _) => x,
            });
        }
        return acc.unwrap_or_else(|| arb(s));
    }
    let ty = o.get("type").and_then(|x| x.as_str()).unwrap_or("");
    match ty {
        "null" => Value::Null,
        "boolean" => json!(s.below(2) == 1),
        "number" | "integer" => {
            let f = o.get("format").and_then(|x| x.as_str()).unwrap_or("");
            if f.contains("int") || f.contains("nonneg") {
                json!(s.below(3))
            } else {
                [json!(0), json!(1), json!(-1), json!(1.5), json!(2)][s.below(5)].clone()
            }
        }
        "string" => {
            if let Some(p) = o.get("pattern").and_then(|x| x.as_str()) {
                // cannot invert a regex: literal text of the pattern stripped of metacharacters, or pool strings
                if s.below(3) > 0 {
                    let lit: String = p.chars().filter(|c| c.is_alphanumeric() || *c == '-').collect();
                    return json!(lit);
                }
            }
            json!(STRS[s.below(STRS.len())])
        }
        "array" => {
            let mut out = vec![];
            if let Some(pi) = o.get("prefixItems").and_then(|x| x.as_array()) {
                for it in pi {
                    out.push(gen_from_schema(it, root, s, depth - 1));
                }
            }
            match o.get("items") {
                Some(Value::Bool(false)) => {}
                Some(it) => {
                    for _ in 0..s.below(3) {
                        out.push(gen_from_schema(it, root, s, depth - 1));
                    }
                }
                None => {}
            }
            Value::Array(out)
        }
        "object" => {
            let mut m = Map::new();
            let req: Vec<String> =
                o.get("required").and_then(|x| x.as_array()).map(|a| a.iter().filter_map(|x| x.as_str().map(String::from)).collect()).unwrap_or_default();
            if let Some(props) = o.get("properties").and_then(|x| x.as_object()) {
                for (k, ps) in props {
                    if req.contains(k) || s.below(2) == 1 {
                        m.insert(k.clone(), gen_from_schema(ps, root, s, depth - 1));
                    }
                }
            }
            match o.get("additionalProperties") {
                Some(Value::Bool(false)) => {}
                Some(ap) => {
                    for _ in 0..s.below(3) {
                        let k = match o.get("propertyNames") {
                            Some(pn) => match gen_from_schema(pn, root, s, 1) {
                                Value::String(k) => k,
                                _ => "k".to_string(),
                            },
                            None => ["k", "z", "a"][s.below(3)].to_string(),
                        };
                        if !m.contains_key(&k) {
                            m.insert(k, gen_from_schema(ap, root, s, depth - 1));
                        }
                    }
                }
                None => {
                    // open object in the schema: an extra key is schema-valid, which is exactly what the property forbids
                    if s.below(2) == 1 {
                        m.insert("zz".into(), json!(1));
                    }
                }
            }
            Value::Object(m)
        }
        _ => arb(s),
    }
}

/// one-edit perturbations of a JSON document
pub fn perturb(v: &Value, s: &mut Src) -> Value {
    match v {
        Value::Object(o) => {
            let mut m = o.clone();
            match s.below(4) {
                0 => {
                    m.insert("zz".into(), json!(1));
                }
                1 => {
                    if let Some(k) = m.keys().next().cloned() {
                        m.remove(&k);
                    }
                }
                2 => {
                    if let Some(k) = m.keys().last().cloned() {
                        let inner = perturb(&m[&k], s);
                        m.insert(k, inner);
                    }
                }
                _ => {
                    if let Some(k) = m.keys().next().cloned() {
                        m.insert(k, Value::Null);
                    }
                }
            }
            Value::Object(m)
        }
        Value::Array(a) => {
            let mut a = a.clone();
            match s.below(3) {
                0 => a.push(json!(1)),
                1 => {
                    a.pop();
                }
                _ => {
                    if !a.is_empty() {
                        let i = s.below(a.len());
                        a[i] = perturb(&a[i], s);
                    }
                }
            }
            Value::Array(a)
        }
        Value::String(x) => json!(format!("{}x", x)),
        Value::Number(_) => json!(1.5),
        Value::Bool(b) => json!(!b),
        Value::Null => json!(0),
    }
}

pub fn reaches(env: &Env, d: &D, pred: &mut dyn FnMut(&D) -> bool) -> bool {
    fn go(env: &Env, d: &D, pred: &mut dyn FnMut(&D) -> bool, seen: &mut Vec<usize>) -> bool {
        if pred(d) {
            return true;
        }
        if let D::Ref(i) = d {
            if seen.contains(i) {
                return false;
            }
            seen.push(*i);
            return go(env, env.get(*i), pred, seen);
        }
        d.children().into_iter().any(|c| go(env, c, pred, seen))
    }
    go(env, d, pred, &mut vec![])
}
pub fn unprintable(env: &Env, d: &D) -> bool {
    // (a union with `any` among its members *is* any: a Date or bigint next to it is absorbed, and {} expresses the union)
    fn go(env: &Env, d: &D, seen: &mut Vec<usize>) -> bool {
        match d {
            D::BigInt | D::Date | D::TypedArray(_) | D::Map(_, _) | D::Set(_) => true,
            D::Ref(i) => {
                if seen.contains(i) {
                    return false;
                }
                seen.push(*i);
                go(env, env.get(*i), seen)
            }
            D::Union(ms) => {
                let r = crate::member::Ref::new(env, crate::member::Mode::Open);
                if ms.iter().any(|m| matches!(r.head(m), D::Any)) {
                    return false;
                }
                ms.iter().any(|c| go(env, c, seen))
            }
            _ => d.children().into_iter().any(|c| go(env, c, seen)),
        }
    }
    go(env, d, &mut vec![])
}
pub fn has_unprintable_value(v: &JsVal) -> bool {
    match v {
        JsVal::BigInt(_) | JsVal::Date(_) | JsVal::Map(_) | JsVal::Set(_) | JsVal::TypedArr(_, _) => true,
        JsVal::Arr(xs) => xs.iter().any(has_unprintable_value),
        JsVal::Obj(kv, _) => kv.iter().any(|(_, x)| has_unprintable_value(x)),
        _ => false,
    }
}
/// does `d` reach a named definition that lies on a reference cycle?
pub fn recursive(env: &Env, d: &D) -> bool {
    fn def_reaches(env: &Env, from: usize, target: usize, seen: &mut Vec<usize>) -> bool {
        let mut refs = vec![];
        env.get(from).any_node(&mut |n| {
            if let D::Ref(j) = n {
                refs.push(*j);
            }
            false
        });
        for j in refs {
            if j == target {
                return true;
            }
            if !seen.contains(&j) {
                seen.push(j);
                if def_reaches(env, j, target, seen) {
                    return true;
                }
            }
        }
        false
    }
    reaches(env, d, &mut |n| match n {
        D::Ref(i) => def_reaches(env, *i, *i, &mut vec![]),
        _ => false,
    })
}

#[derive(Debug, Clone, Serialize, Deserialize)]
pub struct C02Case {
    pub typed: TypedCase,
    pub cfgs: Vec<CtxCfg>,
    pub doc_stream: Vec<u32>,
}

pub fn c02_cfg(s: &mut Src) -> GenCfg {
    // one case in four may contain a leaf JSON Schema cannot express (the "throws" clause); the rest are printable
    let non_json = s.below(4) == 3;
    GenCfg { non_json, ..GenCfg::default() }
}

pub struct C02;

impl Check for C02 {
    fn fuzz_runs(&self) -> u64 {
        2500
    }
    fn id(&self) -> &'static str {
        "C02"
    }
    fn cases(&self, tier: Tier) -> u32 {
        match tier {
            Tier::Quick => 3000,
            Tier::Thorough => 60_000,
        }
    }
    fn stream_len(&self) -> usize {
        3000
    }
    fn threads(&self) -> usize {
        12
    }
    fn rule(&self) -> String {
        "case = typed program (as C01: <=3 named possibly recursive definitions, 1-2 root types, random TypeScript spellings) + 1-2 contextual printing configurations (refPathTemplate x container key, 7 shapes) + JSON documents per root from four sources: exact members built from the denotation, one-edit near misses, members with an injected undeclared key, and documents derived from the *emitted schema itself* (plus one-edit perturbations). Oracles: (a) python-jsonschema check_schema on the composed root and on every definition; (b) every $ref is a JSON pointer that resolves in returned-schema + export; (c) schema-valid => validate()==true and strict reference membership != No; (d) null-free and strict reference member == Yes => schema-valid; (e) a reachable Date/bigint/Map/Set/typed-array leaf <=> schema() and schemaWithContext() throw an Error. Flat mode judged for non-recursive roots only. Non-trivial = a printable root of depth>=2 (or with a named/utility spelling) for which the document set contained both schema-valid and schema-invalid documents in some mode; or an unprintable root whose printing threw in both modes. Distinct = hash of program text.".into()
    }
    fn assumptions(&self) -> Vec<String> {
        vec![
            "python-jsonschema 4.26 (Draft202012Validator) is the meaning of 'valid against the schema'; `pattern` is evaluated by Node's RegExp with the u flag (ECMA-262), custom `format` strings are asserted with the definitions the validators were registered with (a judge that ignored `format` would make every format type violate the forward direction by JSON Schema's own design)".into(),
            "the exported definitions are placed in the root document where the chosen refPathTemplate points (that is the user's side of the contract); `discriminator` is an annotation".into(),
            "reference verdicts are ternary; documents in the unspecified zone of the statement are not compared".into(),
        ]
    }
    fn health(&self) -> Vec<(&'static str, f64)> {
        vec![("loaded", 0.5), ("some_schema_valid", 0.3), ("some_schema_invalid", 0.3), ("printable", 0.4)]
    }
    fn generate(&self, s: &mut Src, _tier: Tier) -> Value {
        let cfg = c02_cfg(s);
        let mut typed = gen_typed_case(s, &cfg, RenderCfg::all(), Mode::Strict, 2, (8, 5, 0));
        // members with one undeclared key somewhere
        for (i, _) in typed.roots.clone().iter().enumerate() {
            let members: Vec<JsVal> = typed.values[i].iter().filter(|(_, l)| l == "member").map(|(v, _)| v.clone()).collect();
            for m in members.iter().take(4) {
                let e = inject_extra_key(m, s);
                typed.values[i].push((e, "extra_key".into()));
            }
        }
        // now and then one more parser: a record whose key type is a template literal (not plain string).  The harness'
        // denotations have string-keyed index signatures only, so this root is judged without the reference: its schema
        // is well-formed, its references resolve, and whatever the schema admits the validator accepts.
        if s.chance(1, 8) && typed.program.contains("\n}>();") {
            let key = *s.pick(&["`x-${string}`", "`${string}-id`", "`a${string}`"]);
            let (vt, vd) = match s.below(5) {
                0 => ("unknown", D::Any),
                1 => ("any", D::Any),
                2 => ("string", D::Str),
                3 => ("number", D::Num),
                _ => ("{ a: string }", D::obj(vec![("a", D::Str, false)])),
            };
            let spelling = if s.chance(1, 2) { format!("{{ [k: {}]: {} }}", key, vt) } else { format!("Record<{}, {}>", key, vt) };
            typed.program = typed.program.replacen("\n}>();", &format!("\n  PK: {};\n}}>();", spelling), 1);
            typed.roots.push(("PK".to_string(), D::Object { props: vec![], index: Some(Box::new(vd)) }));
            let o = |kv: Vec<(&str, JsVal)>| JsVal::Obj(kv.into_iter().map(|(k, v)| (k.to_string(), v)).collect(), crate::jsval::Proto::Plain);
            let leaf = |s: &mut Src| match s.below(3) {
                0 => JsVal::Str("a".into()),
                1 => JsVal::num("1"),
                _ => o(vec![("a", JsVal::Str("a".into()))]),
            };
            let mut vals = vec![(o(vec![]), "keyed".to_string())];
            for k in ["x-a", "foo", "a", "a-id", "1", "x-a-id"] {
                vals.push((o(vec![(k, leaf(s))]), "keyed".to_string()));
            }
            vals.push((o(vec![("x-a", leaf(s)), ("foo", leaf(s))]), "keyed".to_string()));
            typed.values.push(vals);
            typed.used.insert("keyed_record".to_string(), 1);
        }
        let n_cfg = s.range(1, 2);
        let cfgs = (0..n_cfg).map(|_| gen_ctx_cfg(s)).collect();
        let doc_stream: Vec<u32> = (0..160).map(|_| s.raw()).collect();
        serde_json::to_value(C02Case { typed, cfgs, doc_stream }).unwrap()
    }
    fn exec(&self, case: &Value, ctx: &mut Ctx) -> Outcome {
        let case: C02Case = match serde_json::from_value(case.clone()) {
            Ok(c) => c,
            Err(e) => return Outcome::infra(format!("bad case: {}", e)),
        };
        let t = &case.typed;
        let mut out = Outcome::default();
        for k in t.used.keys() {
            out.label(format!("spelling:{}", k));
        }
        let code = match compile_case(&t.program, &mut out, ctx, "C02") {
            Some(c) => c,
            None => return out,
        };
        // ---- 1. print schemas
        let mut queries = vec![];
        for (name, _) in &t.roots {
            queries.push(json!({"q":"schema","parser":name}));
            for c in &case.cfgs {
                queries.push(json!({"q":"schemaCtx","template":c.template,"container":c.container,"calls":[name, name]}));
            }
        }
        let per_root = 1 + case.cfgs.len();
        let resp = match node_case(ctx, Some(&code), queries) {
            Ok(r) => r,
            Err(e) => return Outcome::infra(e),
        };
        if let Some(le) = resp.get("loadError") {
            out.mismatch(ctx, "load_error", format!("emitted module does not load: {}", le), json!({"program": t.program, "loadError": le}));
            return out;
        }
        out.label("loaded");
        let mut any_nontrivial = false;
        let mut ds = Src::new(&case.doc_stream);
        for (i, (name, d)) in t.roots.iter().enumerate() {
            let unp = unprintable(&t.env, d);
            let rec = recursive(&t.env, d);
            let flat = &resp["results"][i * per_root];
            // modes: (label, root document)
            let mut modes: Vec<(String, Value, Vec<Value>)> = vec![];
            let mut threw_all = true;
            let mut threw_any = false;
            let mut printed: Vec<(String, bool, Value)> = vec![(format!("flat"), flat.get("threw").is_some(), flat.clone())];
            for (k, _) in case.cfgs.iter().enumerate() {
                let r = &resp["results"][i * per_root + 1 + k];
                let ret = &r["returned"][0];
                printed.push((format!("ctx{}", k), ret.get("threw").is_some() || r["exported"].get("threw").is_some(), r.clone()));
            }
            for (_, th, _) in &printed {
                threw_all &= *th;
                threw_any |= *th;
            }
            // a context that refused a type once refuses it again: the same parser printed a second time into the same
            // context must not come back with a schema (whose $ref would point at a definition that was never stored)
            for (m, _, raw) in &printed {
                if m == "flat" {
                    continue;
                }
                let (first, second) = (&raw["returned"][0], &raw["returned"][1]);
                if first.get("threw").is_some() && second.get("r").is_some() {
                    out.mismatch(
                        ctx,
                        "c02_refused_then_printed",
                        format!("{}: schemaWithContext threw for {} and, called again on the same context, returned a schema", name, name),
                        json!({"program": t.program, "parser": name, "mode": m, "first": first, "second": second, "exported": raw["exported"]}),
                    );
                }
            }
            // ---- (e) unprintable leaves must throw, printable types must print
            if unp {
                out.evals += 1;
                out.label("unprintable");
                // the leaf must sit in an inhabited position: confirmed by a generated member that carries it (an
                // intersection like {a: false} & {a: Date} is empty, and a compiler that drops it may print the rest)
                let confirmed = t.values[i].iter().any(|(v, l)| l == "member" && has_unprintable_value(v));
                if !confirmed {
                    out.label("unprintable_unconfirmed");
                }
                for (m, th, raw) in &printed {
                    if !*th && !confirmed {
                        continue;
                    }
                    if !*th {
                        out.mismatch_any(
                            ctx,
                            &sigs_for("c02_unprintable_leaf_printed", "c02_unprintable_leaf_printed", &t.env, d, t.used.contains_key("exclude")),
                            format!("{}: type of {} reaches a leaf JSON Schema cannot express, but {} printing returned a schema", name, name, m),
                            json!({"program": t.program, "parser": name, "type": d, "mode": m, "returned": raw}),
                        );
                    } else {
                        let th = if m == "flat" { &raw["threw"] } else if raw["returned"][0].get("threw").is_some() { &raw["returned"][0]["threw"] } else { &raw["exported"]["threw"] };
                        if th["isError"] != json!(true) {
                            out.mismatch(ctx, "c02_throw_not_error", format!("{}: schema printing threw a non-Error: {}", name, th), json!({"program": t.program, "threw": th}));
                        }
                    }
                }
                if threw_all && confirmed {
                    any_nontrivial = true;
                }
                continue;
            }
            out.label("printable");
            // a Date / bigint / Map ... that a union with `any` absorbs: the type is expressible, printing it and refusing
            // it are both within the statement (which speaks of types that *can* be printed and of types that cannot be
            // expressed)
            let absorbed_unprintable = reaches(&t.env, d, &mut |n| matches!(n, D::BigInt | D::Date | D::TypedArray(_) | D::Map(_, _) | D::Set(_)));
            if threw_any && absorbed_unprintable {
                out.label("printable_but_refused_absorbed_leaf");
                continue;
            }
            if threw_any {
                out.evals += 1;
                let which: Vec<&String> = printed.iter().filter(|p| p.1).map(|p| &p.0).collect();
                // `any` that went through the semantic engine (Exclude) is re-materialised as the union of the engine's
                // universe, Date/bigint/... included (C07 family)
                let sig = if t.used.contains_key("exclude") && reaches(&t.env, d, &mut |n| matches!(n, D::Any)) { "c02_printable_type_threw:any_through_exclude" } else { "c02_printable_type_threw" };
                out.mismatch(
                    ctx,
                    sig,
                    format!("{}: schema printing threw for a type with only JSON-expressible leaves ({:?})", name, which),
                    json!({"program": t.program, "parser": name, "type": d, "printed": printed.iter().map(|p| p.2.clone()).collect::<Vec<_>>()}),
                );
                continue;
            }
            if !rec {
                modes.push(("flat".into(), flat["r"].clone(), vec![]));
            } else {
                out.label("recursive_root");
            }
            for (k, c) in case.cfgs.iter().enumerate() {
                let r = &resp["results"][i * per_root + 1 + k];
                let ret = &r["returned"][0]["r"];
                let exp = &r["exported"]["r"];
                match compose_root(ret, exp, c) {
                    Ok(root) => {
                        let defs: Vec<Value> = defs_of(exp, c).map(|m| m.values().cloned().collect()).unwrap_or_default();
                        if defs_of(exp, c).is_none() {
                            out.mismatch(ctx, "c02_export_shape", format!("exportDefinitions() does not have the documented shape for container {:?}", c.container), json!({"program": t.program, "export": exp, "cfg": c}));
                        }
                        modes.push((format!("ctx:{}", c.template), root, defs));
                    }
                    Err(e) => {
                        out.mismatch(ctx, "c02_cannot_compose", format!("{}: cannot compose returned schema and export: {}", name, e), json!({"program": t.program, "returned": ret, "export": exp, "cfg": c}));
                    }
                }
            }
            // ---- 2. documents
            let mut docs: Vec<(Value, String)> = vec![];
            let mut seen = BTreeSet::new();
            let mut push = |docs: &mut Vec<(Value, String)>, v: Value, l: &str| {
                let k = v.to_string();
                if seen.insert(k) {
                    docs.push((v, l.to_string()));
                }
            };
            for (v, l) in &t.values[i] {
                if let Some(j) = jsonify(v) {
                    push(&mut docs, j, l);
                }
            }
            for (mi, (_, root, _)) in modes.iter().enumerate() {
                for _ in 0..(if mi == 0 { 5 } else { 3 }) {
                    let g = gen_from_schema(root, root, &mut ds, 5);
                    let p = perturb(&g, &mut ds);
                    push(&mut docs, g, "from_schema");
                    push(&mut docs, p, "from_schema_perturbed");
                }
            }
            if docs.is_empty() || modes.is_empty() {
                continue;
            }
            // ---- 3. validator verdicts + regex table
            let mut strings = BTreeSet::new();
            for (dv, _) in &docs {
                collect_strings(dv, &mut strings);
            }
            let mut patterns = BTreeSet::new();
            for (_, root, _) in &modes {
                collect_kw(root, "pattern", &mut patterns);
            }
            let tagged: Vec<Value> = docs.iter().map(|(dv, _)| JsVal::from_json(dv).to_tagged()).collect();
            // (the module is sent again: the worker may have been recycled since the first round trip)
            let (sf, nf) = crate::c01::formats_json();
            let r2 = match ctx.node(json!({"op":"case","code":code,"stringFormats":sf,"numberFormats":nf,"queries":[
                {"q":"validateMany","parser":name,"values":tagged,"optsList":[null]},
                {"q":"regexTable","patterns":patterns,"strings":strings}]}))
            {
                Ok(r) => r,
                Err(e) => return Outcome::infra(e.to_string()),
            };
            let vm = &r2["results"][0]["m"];
            let table = r2["results"][1]["table"].clone();
            if !vm.is_array() {
                return Outcome::infra(format!("worker returned no matrix: {}", r2["results"][0]));
            }
            let strict = Ref::new(&t.env, Mode::Strict);
            let open = Ref::new(&t.env, Mode::Open);
            let (mut n_valid, mut n_invalid) = (0, 0);
            for (mode, root, defs) in &modes {
                let jr = match ctx.judge(json!({"root": root, "docs": docs.iter().map(|x| x.0.clone()).collect::<Vec<_>>(), "patterns": table, "defs": defs})) {
                    Ok(r) => r,
                    Err(e) => return Outcome::infra(format!("judge: {}", e)),
                };
                if let Some(e) = jr.get("error") {
                    return Outcome::infra(format!("judge error: {}", e));
                }
                out.evals += 1;
                let detail = |extra: Value| json!({"program": t.program, "parser": name, "type": d, "mode": mode, "schema": root, "more": extra});
                if jr["schema_ok"] != json!(true) {
                    out.mismatch(ctx, "c02_not_a_schema", format!("{} [{}]: emitted document is not a well-formed Draft 2020-12 schema: {}", name, mode, jr["schema_err"]), detail(json!({})));
                    continue;
                }
                if let Some(bad) = jr["bad_defs"].as_array() {
                    if !bad.is_empty() {
                        out.mismatch(ctx, "c02_definition_not_a_schema", format!("{} [{}]: an exported definition is not a well-formed schema: {}", name, mode, bad[0]), detail(json!({"bad_defs": bad})));
                        continue;
                    }
                }
                if jr["unresolved_refs"].as_array().map(|a| !a.is_empty()).unwrap_or(false) {
                    out.mismatch(ctx, "c02_dangling_ref", format!("{} [{}]: emitted $ref does not resolve in returned schema + export: {}", name, mode, jr["unresolved_refs"]), detail(json!({})));
                    continue;
                }
                if jr["bad_patterns"].as_array().map(|a| !a.is_empty()).unwrap_or(false) {
                    out.mismatch(ctx, "c02_bad_pattern", format!("{} [{}]: emitted pattern is not an ECMA-262 regular expression: {}", name, mode, jr["bad_patterns"]), detail(json!({})));
                    continue;
                }
                let valid = match jr["valid"].as_array() {
                    Some(v) if v.len() == docs.len() => v,
                    _ => return Outcome::infra(format!("judge returned no verdicts: {}", jr)),
                };
                for (j, (doc, src)) in docs.iter().enumerate() {
                    let sv = match valid[j].as_bool() {
                        Some(b) => b,
                        None => {
                            out.label("judge_doc_error");
                            continue;
                        }
                    };
                    out.evals += 1;
                    if sv {
                        n_valid += 1;
                    } else {
                        n_invalid += 1;
                    }
                    let jv = JsVal::from_json(doc);
                    let got = match vm[j][0].as_i64() {
                        Some(1) => Some(true),
                        Some(0) => Some(false),
                        _ => None,
                    };
                    let ms = strict.member(d, &jv);
                    let mo = open.member(d, &jv);
                    out.label(format!("doc:{}", src));
                    if name == "PK" && t.used.contains_key("keyed_record") {
                        // judged without the reference (see generate): the forward direction only
                        out.label("keyed_record_doc");
                        if sv && got == Some(false) {
                            out.mismatch(
                                ctx,
                                "c02_schema_valid_validator_rejects:keyed_record",
                                format!("{} [{}]: document {} is valid against the emitted schema but validate() rejects it", name, mode, doc),
                                detail(json!({"doc": doc, "source": src})),
                            );
                        }
                        continue;
                    }
                    if sv {
                        if got == Some(false) {
                            // is the validator right to reject?  if the reference says the doc is a member the validator is
                            // wrong (C01's subject as well) - the statement is violated all the same: a document valid
                            // against the schema is not accepted
                            if mo == Tri::Yes {
                                out.label("validator_wrong_not_schema");
                                out.mismatch_any(
                                    ctx,
                                    &sigs_for(&format!("c02_schema_valid_member_validator_rejects{}", feature_suffix_used(&t.env, d, false)), "c02_schema_valid_member_validator_rejects", &t.env, d, t.used.contains_key("exclude")),
                                    format!("{} [{}]: document {} is valid against the emitted schema and a member of the type, but validate() rejects it", name, mode, doc),
                                    detail(json!({"doc": doc, "source": src, "reference_open": "Yes"})),
                                );
                                continue;
                            }
                            if mo == Tri::Unspec {
                                out.label("unspecified");
                                continue;
                            }
                            out.mismatch_any(
                                ctx,
                                &sigs_for(&format!("c02_schema_valid_validator_rejects{}", feature_suffix_used(&t.env, d, false)), "c02_schema_valid_validator_rejects", &t.env, d, t.used.contains_key("exclude")),
                                format!("{} [{}]: document {} is valid against the emitted schema but validate() rejects it", name, mode, doc),
                                detail(json!({"doc": doc, "source": src, "reference_open": format!("{:?}", mo)})),
                            );
                        } else if got == Some(true) && mo == Tri::Yes && ms == Tri::No {
                            out.mismatch_any(
                                ctx,
                                &sigs_for(&format!("c02_schema_allows_undeclared_key{}", feature_suffix_used(&t.env, d, false)), "c02_schema_allows_undeclared_key", &t.env, d, t.used.contains_key("exclude")),
                                format!("{} [{}]: document {} is valid against the emitted schema but carries a key the type does not declare", name, mode, doc),
                                detail(json!({"doc": doc, "source": src})),
                            );
                        }
                    } else if null_free(doc) && ms == Tri::Yes {
                        if got == Some(false) {
                            out.label("validator_wrong_not_schema");
                            continue;
                        }
                        // root cause: members of an allOf that could not be merged keep "additionalProperties": false
                        // each, so keys declared by one member are rejected by the others.  Decided by repairing
                        // exactly that in the emitted schema and judging the document again.
                        // the validators' (and therefore the schemas') `${number}` grammar is narrower than TypeScript's
                        // (listed finding tpl_number_grammar): is the document a member only by TypeScript's reading?
                        let narrow_tpl = crate::member::Ref::with_quirk(&t.env, Mode::Strict, "tpl_number_grammar");
                        if narrow_tpl.member(d, &jv) != Tri::Yes {
                            out.mismatch(
                                ctx,
                                "c02_member_schema_invalid:tpl_number_grammar",
                                format!("{} [{}]: exact member {} (by TypeScript's reading of ${{number}}) is not valid against the emitted schema", name, mode, doc),
                                detail(json!({"doc": doc, "source": src})),
                            );
                            continue;
                        }
                        let repaired = repair_unmerged_allof(root, root);
                        let mut sig = format!("c02_member_schema_invalid{}", feature_suffix_used(&t.env, d, false));
                        let mut through_engine = t.used.contains_key("exclude");
                        if &repaired != root {
                            if let Ok(j2) = ctx.judge(json!({"root": repaired, "docs": [doc], "patterns": table})) {
                                if j2["valid"][0] == json!(true) {
                                    sig = "c02_member_schema_invalid:unmerged_allof_closed_members".to_string();
                                    through_engine = false;
                                }
                            }
                        }
                        out.mismatch_any(
                            ctx,
                            &sigs_for(&sig, "c02_member_schema_invalid", &t.env, d, through_engine),
                            format!("{} [{}]: null-free exact member {} is not valid against the emitted schema", name, mode, doc),
                            detail(json!({"doc": doc, "source": src})),
                        );
                    }
                }
            }
            if n_valid > 0 {
                out.label("some_schema_valid");
            }
            if n_invalid > 0 {
                out.label("some_schema_invalid");
            }
            let structured = d.depth() >= 2 || !t.used.is_empty() || d.any_node(&mut |n| matches!(n, D::Ref(_)));
            if structured && n_valid > 0 && n_invalid > 0 {
                any_nontrivial = true;
                if out.sample.is_none() {
                    out.sample = Some(json!({"program": t.program, "schema": modes[0].1, "docs": docs.iter().take(4).map(|x| x.0.clone()).collect::<Vec<_>>()}));
                }
            }
        }
        if any_nontrivial {
            out.nontrivial = Some(fp(&t.program));
        }
        out
    }
}

/// the emitted schema with one thing changed: members of every `allOf` (>=2 members) lose `additionalProperties: false`,
/// at every depth and through references.  References are not inlined (recursive definitions would unfold without
/// end): every definition reached from such a member gets an open twin `<name>__open` next to it, and the members
/// refer to the twins.
pub fn repair_unmerged_allof(v: &Value, root: &Value) -> Value {
    let mut pending: Vec<String> = vec![];
    let mut out = repair_walk(v, &mut pending);
    let mut done: BTreeSet<String> = BTreeSet::new();
    while let Some(ptr) = pending.pop() {
        if !done.insert(ptr.clone()) {
            continue;
        }
        let target = match resolve_ptr(root, &ptr) {
            Some(t) => t.clone(),
            None => continue,
        };
        let twin = open_copy(&target, &mut pending);
        // insert next to the original (same container, key + "__open")
        let path = ptr.trim_start_matches('#');
        if let Some(cut) = path.rfind('/') {
            let (parent, last) = (&path[..cut], &path[cut + 1..]);
            let key = format!("{}__open", last.replace("~1", "/").replace("~0", "~"));
            let holder = if parent.is_empty() { Some(&mut out) } else { out.pointer_mut(parent) };
            if let Some(Value::Object(m)) = holder {
                m.insert(key, twin);
            }
        }
    }
    out
}
fn repair_walk(v: &Value, pending: &mut Vec<String>) -> Value {
    match v {
        Value::Array(a) => Value::Array(a.iter().map(|x| repair_walk(x, pending)).collect()),
        Value::Object(o) => {
            let mut m = Map::new();
            for (k, x) in o {
                if k == "allOf" && x.as_array().map(|a| a.len() >= 2).unwrap_or(false) {
                    // closedness anywhere inside an unmerged member is the same root cause: an intersection is
                    // taken property by property, at every depth
                    let members: Vec<Value> = x.as_array().unwrap().iter().map(|mem| open_copy(mem, pending)).collect();
                    m.insert(k.clone(), Value::Array(members));
                } else {
                    m.insert(k.clone(), repair_walk(x, pending));
                }
            }
            Value::Object(m)
        }
        other => other.clone(),
    }
}
/// `v` without `additionalProperties: false`, its local references redirected to the open twins (queued in `pending`)
fn open_copy(v: &Value, pending: &mut Vec<String>) -> Value {
    match v {
        Value::Array(a) => Value::Array(a.iter().map(|x| open_copy(x, pending)).collect()),
        Value::Object(o) => {
            let mut m = Map::new();
            for (k, x) in o {
                if k == "additionalProperties" && x == &Value::Bool(false) {
                    continue;
                }
                if k == "$ref" {
                    if let Some(r) = x.as_str() {
                        if r.starts_with("#/") && !r.ends_with("__open") {
                            pending.push(r.to_string());
                            m.insert(k.clone(), Value::String(format!("{}__open", r)));
                            continue;
                        }
                    }
                }
                // (a discriminator mapping lists references as plain strings; it is an annotation for the judge)
                m.insert(k.clone(), open_copy(x, pending));
            }
            Value::Object(m)
        }
        other => other.clone(),
    }
}

/// the plain signature, plus (for types that were re-materialised from the semantic engine) one per listed family of
/// engine findings whose trigger the type contains
fn sigs_for(plain: &str, base: &str, env: &Env, d: &D, through_engine: bool) -> Vec<String> {
    let mut v = vec![plain.to_string()];
    if through_engine {
        v.extend(crate::csem::engine_family_sigs(base, env, d, None).into_iter().filter(|s| s.contains(":engine:")));
    }
    v
}

/// root-cause key: which type features are in play (so that a listed finding does not mask a different defect)
pub fn feature_suffix(env: &Env, d: &D, _doc: &Value) -> String {
    feature_suffix_used(env, d, false)
}
/// `through_exclude`: the program spells part of the type with Exclude, i.e. the type was re-materialised from the
/// semantic engine and inherits its listed findings (C05/C07: `{}` absorbing union members, records over never, ...)
pub fn feature_suffix_used(env: &Env, d: &D, _through_exclude: bool) -> String {
    let mut f = vec![];
    if reaches(env, d, &mut |n| matches!(n, D::Inter(_))) {
        f.push("inter");
    }
    if reaches(env, d, &mut |n| matches!(n, D::Object { index: Some(_), .. })) {
        f.push("index");
    }
    if reaches(env, d, &mut |n| matches!(n, D::Tpl(_))) {
        f.push("tpl");
    }
    if reaches(env, d, &mut |n| matches!(n, D::Undefined | D::Void | D::Null)) {
        f.push("nullish");
    }
    if reaches(env, d, &mut |n| matches!(n, D::Any)) {
        f.push("any");
    }
    if f.is_empty() {
        String::new()
    } else {
        format!(":{}", f.join("+"))
    }
}
