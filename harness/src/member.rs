//! Reference membership: is a JavaScript value a member of a type denotation, under beff's stated
//! runtime conventions (null/undefined interchangeable, optional = absent or nullish, undeclared properties
//! ignored in default mode)?  The verdict is ternary: `Unspec` exactly where the property text does not pin
//! the answer, so that a check can never demand more than the statement.
use crate::den::{D, Env, Prop, TplPart};
use crate::jsval::{num_value, JsVal, Proto};
use crate::src::Src;

#[derive(Debug, Clone, Copy, PartialEq, Eq)]
pub enum Tri {
    Yes,
    No,
    Unspec,
}
use Tri::*;

impl Tri {
    pub fn and(self, o: Tri) -> Tri {
        match (self, o) {
            (No, _) | (_, No) => No,
            (Yes, Yes) => Yes,
            _ => Unspec,
        }
    }
    pub fn or(self, o: Tri) -> Tri {
        match (self, o) {
            (Yes, _) | (_, Yes) => Yes,
            (No, No) => No,
            _ => Unspec,
        }
    }
    pub fn from_bool(b: bool) -> Tri {
        if b { Yes } else { No }
    }
}

/// Mode of the reference.
#[derive(Debug, Clone, Copy, PartialEq, Eq)]
pub enum Mode {
    /// default mode: undeclared properties ignored
    Open,
    /// disallowExtraProperties: no undeclared key at any object position (C11)
    Strict,
}

pub fn format_ok_str(name: &str, s: &str) -> bool {
    match name {
        "lower" => s == s.to_lowercase(),
        "len3" => s.encode_utf16().count() >= 3,
        "aprefix" => s.starts_with('a'),
        "code" => s.encode_utf16().count() <= 4,
        _ => false,
    }
}
pub fn format_ok_num(name: &str, f: f64) -> bool {
    match name {
        "nonneg" => f >= 0.0,
        "int" => f.is_finite() && f == f.trunc(),
        "code" => f < 100.0,
        _ => false,
    }
}

/// TypeScript's rule for `${number}`: s !== "" && isFinite(+s).  We decide it exactly for the spellings
/// JS `Number()` and Rust agree on by construction; anything exotic is `Unspec`.
fn tpl_number(s: &str) -> Tri {
    if s.is_empty() {
        return No;
    }
    let b = s.as_bytes();
    // plain decimal: digits[.digits]
    let plain = {
        let mut i = 0;
        while i < b.len() && b[i].is_ascii_digit() {
            i += 1;
        }
        let int_digits = i;
        let mut ok = int_digits > 0;
        if ok && i < b.len() {
            if b[i] == b'.' {
                let st = i + 1;
                i += 1;
                while i < b.len() && b[i].is_ascii_digit() {
                    i += 1;
                }
                ok = i > st && i == b.len();
            } else {
                ok = false;
            }
        }
        ok
    };
    if plain {
        return Yes;
    }
    // contains a character that can never be part of a JS numeric string
    if s.chars().any(|c| !(c.is_ascii_digit() || "+-.eExXoObBInfinity \t\n_abcdefABCDEF".contains(c))) {
        return No;
    }
    // signed plain decimals, exponents: TypeScript says yes (isFinite(+s))
    let t = s.trim();
    if t == s {
        if let Some(rest) = s.strip_prefix('-').or_else(|| s.strip_prefix('+')) {
            if !rest.is_empty() && tpl_number(rest) == Yes {
                return Yes;
            }
        }
    }
    Unspec
}

fn is_plain_decimal(s: &str) -> bool {
    let mut parts = s.splitn(2, '.');
    let a = parts.next().unwrap_or("");
    let ok_a = !a.is_empty() && a.bytes().all(|b| b.is_ascii_digit());
    match parts.next() {
        None => ok_a,
        Some(b) => ok_a && !b.is_empty() && b.bytes().all(|b| b.is_ascii_digit()),
    }
}

/// All ways `s` can be matched by the template parts (backtracking; strings are short).
fn tpl_match(parts: &[TplPart], s: &str, plain_numbers_only: bool) -> Tri {
    if parts.is_empty() {
        return Tri::from_bool(s.is_empty());
    }
    let idxs: Vec<usize> = s.char_indices().map(|(i, _)| i).chain(std::iter::once(s.len())).collect();
    match &parts[0] {
        TplPart::Lit(l) => {
            if let Some(rest) = s.strip_prefix(l.as_str()) {
                tpl_match(&parts[1..], rest, plain_numbers_only)
            } else {
                No
            }
        }
        TplPart::OneOf(opts) => {
            let mut acc = No;
            for o in opts {
                if let Some(rest) = s.strip_prefix(o.as_str()) {
                    acc = acc.or(tpl_match(&parts[1..], rest, plain_numbers_only));
                }
            }
            acc
        }
        TplPart::Bool => {
            let mut acc = No;
            for o in ["true", "false"] {
                if let Some(rest) = s.strip_prefix(o) {
                    acc = acc.or(tpl_match(&parts[1..], rest, plain_numbers_only));
                }
            }
            acc
        }
        TplPart::Str => {
            let mut acc = No;
            for &i in &idxs {
                acc = acc.or(tpl_match(&parts[1..], &s[i..], plain_numbers_only));
                if acc == Yes {
                    break;
                }
            }
            acc
        }
        TplPart::Num => {
            let mut acc = No;
            for &i in &idxs {
                let mut head = tpl_number(&s[..i]);
                if plain_numbers_only && head != No && !is_plain_decimal(&s[..i]) {
                    head = No;
                }
                if head == No {
                    continue;
                }
                acc = acc.or(head.and(tpl_match(&parts[1..], &s[i..], plain_numbers_only)));
                if acc == Yes {
                    break;
                }
            }
            acc
        }
    }
}

/// Models of known defects of the implementation ("quirks").  The reference with exactly one quirk switched
/// on reproduces the implementation's *defective* answer; a mismatch is attributed to a known finding only
/// if such a model explains it (see c01::explain).  The unquirked reference is the only oracle.
pub const ALL_QUIRKS: &[&str] = &["strict_inter_per_member", "tpl_number_grammar"];

pub struct Ref<'a> {
    /// value generation only: at an intersection, produce a member of one randomly chosen operand
    pub relax_inter: std::cell::Cell<bool>,
    pub env: &'a Env,
    pub mode: Mode,
    pub quirk: Option<&'static str>,
    /// completion of the unspecified zone (only used when attributing a mismatch to a known defect model)
    pub unspec_as: Option<bool>,
    /// TypeScript's own reading of null/undefined (they differ; an optional property may be absent or
    /// undefined, not null).  Used where the compile-time engine is judged (C05-C07), not the validators.
    pub ts_nullish: bool,
    /// defect model strict_inter_per_member: discriminated unions over intersections are validated through merged branches
    /// (off where the type was re-materialised by the semantic engine, whose unions carry extra members such as undefined
    /// for optional properties, so that the compiler's discriminated-union detection does not see them the same way)
    pub du_model: bool,
}

impl<'a> Ref<'a> {
    pub fn new(env: &'a Env, mode: Mode) -> Self {
        Ref { relax_inter: std::cell::Cell::new(false), env, mode, quirk: None, unspec_as: None, ts_nullish: false, du_model: true }
    }
    pub fn with_quirk(env: &'a Env, mode: Mode, q: &'static str) -> Self {
        Ref { relax_inter: std::cell::Cell::new(false), env, mode, quirk: Some(q), unspec_as: None, ts_nullish: false, du_model: true }
    }
    #[allow(dead_code)]
    fn q(&self, name: &str) -> bool {
        self.quirk == Some(name)
    }

    pub fn member(&self, d: &D, v: &JsVal) -> Tri {
        self.member_fuel(d, v, 200)
    }

    fn member_fuel(&self, d: &D, v: &JsVal, fuel: usize) -> Tri {
        let r = self.member_inner(d, v, fuel);
        match (r, self.unspec_as) {
            (Unspec, Some(b)) => Tri::from_bool(b),
            _ => r,
        }
    }

    fn member_inner(&self, d: &D, v: &JsVal, fuel: usize) -> Tri {
        if fuel == 0 {
            return Unspec;
        }
        // an empty slot of a sparse array reads as undefined
        let v = if matches!(v, JsVal::Hole) { &JsVal::Undef } else { v };
        match d {
            D::Never => No,
            D::Any => Yes,
            D::Null if self.ts_nullish => Tri::from_bool(matches!(v, JsVal::Null)),
            D::Undefined | D::Void if self.ts_nullish => Tri::from_bool(matches!(v, JsVal::Undef)),
            D::Null | D::Undefined | D::Void => Tri::from_bool(v.is_nullish()),
            D::Bool => Tri::from_bool(matches!(v, JsVal::Bool(_))),
            D::BoolLit(b) => Tri::from_bool(matches!(v, JsVal::Bool(x) if x == b)),
            D::Num => Tri::from_bool(matches!(v, JsVal::Num(_))),
            D::NumLit(l) => match v {
                JsVal::Num(x) => Tri::from_bool(num_value(x) == num_value(l)),
                _ => No,
            },
            D::Str => Tri::from_bool(matches!(v, JsVal::Str(_))),
            D::StrLit(l) => Tri::from_bool(matches!(v, JsVal::Str(x) if x == l)),
            D::Tpl(parts) => match v {
                JsVal::Str(s) => tpl_match(parts, s, self.q("tpl_number_grammar")),
                _ => No,
            },
            D::StrFmt(chain) => match v {
                JsVal::Str(s) => Tri::from_bool(chain.iter().all(|f| format_ok_str(f, s))),
                _ => No,
            },
            D::NumFmt(chain) => match v {
                JsVal::Num(x) => Tri::from_bool(chain.iter().all(|f| format_ok_num(f, num_value(x)))),
                _ => No,
            },
            D::BigInt => Tri::from_bool(matches!(v, JsVal::BigInt(_))),
            D::Date => Tri::from_bool(matches!(v, JsVal::Date(_))),
            D::TypedArray(k) => Tri::from_bool(matches!(v, JsVal::TypedArr(x, _) if x == k)),
            D::Array(item) => match v {
                JsVal::Arr(xs) => {
                    let mut acc = Yes;
                    for x in xs {
                        acc = acc.and(self.member_fuel(item, x, fuel - 1));
                        if acc == No {
                            break;
                        }
                    }
                    acc
                }
                // a cyclic array is an array, but its elements cannot be enumerated here
                JsVal::CyclicArr => Unspec,
                _ => No,
            },
            D::Tuple(prefix, rest) => match v {
                JsVal::Arr(xs) => {
                    if xs.len() < prefix.len() {
                        // TypeScript: too short. beff reads the missing element as undefined; if the element
                        // type admits undefined the statement's "undefined ~ absent" reading is not pinned.
                        let mut acc = Yes;
                        for (i, p) in prefix.iter().enumerate() {
                            if i < xs.len() {
                                acc = acc.and(self.member_fuel(p, &xs[i], fuel - 1));
                            } else if self.member_fuel(p, &JsVal::Undef, fuel - 1) == No {
                                return No;
                            } else {
                                acc = acc.and(Unspec);
                            }
                        }
                        return if acc == No { No } else { Unspec };
                    }
                    let mut acc = Yes;
                    for (i, p) in prefix.iter().enumerate() {
                        acc = acc.and(self.member_fuel(p, &xs[i], fuel - 1));
                        if acc == No {
                            return No;
                        }
                    }
                    match rest {
                        None => {
                            if xs.len() > prefix.len() {
                                return No;
                            }
                        }
                        Some(r) => {
                            for x in &xs[prefix.len()..] {
                                acc = acc.and(self.member_fuel(r, x, fuel - 1));
                                if acc == No {
                                    return No;
                                }
                            }
                        }
                    }
                    acc
                }
                JsVal::CyclicArr => Unspec,
                _ => No,
            },
            D::Object { props, index } => self.object_member(props, index.as_deref(), v, fuel),
            D::Map(kt, vt) => match v {
                JsVal::Map(kv) => {
                    let mut acc = Yes;
                    for (k, x) in kv {
                        acc = acc.and(self.member_fuel(kt, k, fuel - 1)).and(self.member_fuel(vt, x, fuel - 1));
                        if acc == No {
                            break;
                        }
                    }
                    acc
                }
                _ => No,
            },
            D::Set(t) => match v {
                JsVal::Set(xs) => {
                    let mut acc = Yes;
                    for x in xs {
                        acc = acc.and(self.member_fuel(t, x, fuel - 1));
                        if acc == No {
                            break;
                        }
                    }
                    acc
                }
                _ => No,
            },
            D::Union(ms) => {
                // a union the compiler recognises as discriminated is validated through the merged shape of each
                // branch: the per-member reading of intersections does not apply to the branches themselves.
                // (The compiler decides that on the flattened member list; nested unions are flattened here too, so
                // that an inner union is never taken for a dispatch of its own.)
                if self.mode == Mode::Strict && self.q("strict_inter_per_member") && self.du_model {
                    if let Some(flat) = self.flat_union(ms) {
                        let shapes = self.du_shapes(&flat);
                        let mut acc = No;
                        for (mi, m) in flat.iter().enumerate() {
                            let r = match &shapes {
                                Some(sh) if matches!(m, D::Inter(_)) => self.member_fuel(&D::Object { props: sh[mi].clone(), index: None }, v, fuel - 1),
                                _ => self.member_fuel(m, v, fuel - 1),
                            };
                            acc = acc.or(r);
                            if acc == Yes {
                                break;
                            }
                        }
                        return acc;
                    }
                }
                let mut acc = No;
                for m in ms {
                    acc = acc.or(self.member_fuel(m, v, fuel - 1));
                    if acc == Yes {
                        break;
                    }
                }
                acc
            }
            D::Inter(ms) => {
                if self.q("inter_non_object") {
                    // defect model: AllOfRuntype.validate answers false unless typeof input === "object"
                    let objectish = matches!(
                        v,
                        JsVal::Null | JsVal::Obj(_, _) | JsVal::Arr(_) | JsVal::Date(_) | JsVal::Map(_) | JsVal::Set(_) | JsVal::TypedArr(_, _) | JsVal::Cyclic | JsVal::CyclicArr
                    );
                    if !objectish {
                        return No;
                    }
                }
                if self.mode == Mode::Strict && self.q("strict_inter_per_member") {
                    // defect model: every member of an intersection that is not merged at compile time (a named
                    // reference, or literal members with conflicting keys) judges 'extra' keys on its own
                    let unmerged = ms.len() >= 2;
                    if unmerged {
                        let mut acc = Yes;
                        for m in ms {
                            acc = acc.and(self.member_fuel(m, v, fuel - 1));
                            if acc == No {
                                break;
                            }
                        }
                        return acc;
                    }
                }
                if self.mode == Mode::Strict {
                    // declared keys of an intersection = union of the members' declared keys: judge the
                    // merged object when every member is an object type
                    if let Some(merged) = self.merge_objects(ms) {
                        return self.member_fuel(&merged, v, fuel - 1);
                    }
                }
                let mut acc = Yes;
                for m in ms {
                    acc = acc.and(self.member_fuel(m, v, fuel - 1));
                    if acc == No {
                        break;
                    }
                }
                if acc == No && self.mode == Mode::Strict {
                    // members that are not all object types (e.g. (A | null) & (B | null)): the declared keys are
                    // still the union over the members, which a member-by-member strict reading cannot see.
                    // Definite only when the open reading already rejects.
                    let mut open = Ref::new(self.env, Mode::Open);
                    open.unspec_as = self.unspec_as;
                    open.ts_nullish = self.ts_nullish;
                    if open.member_fuel(d, v, fuel - 1) != No {
                        return Unspec;
                    }
                }
                if acc == Yes && !self.ts_nullish && self.quirk.is_none() && !self.strict_nullish_variant_exists(d, v, fuel) {
                    // "TypeScript's membership read under the conventions" has two readings for an intersection whose
                    // members only agree on a nullish value of *different* kinds ({c: null} & {c?: string} at c):
                    // member by member under null ~ undefined the value is in, while the TypeScript type has no value
                    // there at all (null & (string | undefined) is never).  The statement does not pin which; a value
                    // that is a member under the conventions but none of whose null/undefined/absent respellings is a
                    // member under TypeScript's own reading is left out of the comparison.
                    return Unspec;
                }
                acc
            }
            D::Ref(i) => self.member_fuel(self.env.get(*i), v, fuel - 1),
        }
    }

    /// Is some respelling of `v` (each nullish property value / element independently null, undefined or, for
    /// properties, absent) definitely a member of `d` under TypeScript's own reading of null and undefined (whatever
    /// exactOptionalPropertyTypes is set to)?  Bounded: with more
    /// than 5 nullish positions the answer is "no" (which only widens the unspecified zone).
    fn strict_nullish_variant_exists(&self, d: &D, v: &JsVal, fuel: usize) -> bool {
        fn count(v: &JsVal) -> usize {
            match v {
                JsVal::Undef | JsVal::Null => 1,
                JsVal::Arr(xs) | JsVal::Set(xs) => xs.iter().map(count).sum(),
                JsVal::Obj(kv, _) => kv.iter().map(|(_, x)| count(x)).sum(),
                JsVal::Map(kv) => kv.iter().map(|(a, b)| count(a) + count(b)).sum(),
                _ => 0,
            }
        }
        // digits of `code` in base 3 choose the respelling of each nullish position, in traversal order
        fn build(v: &JsVal, code: &mut usize, in_obj: bool) -> Option<JsVal> {
            match v {
                JsVal::Undef | JsVal::Null => {
                    let c = *code % 3;
                    *code /= 3;
                    match c {
                        0 => Some(JsVal::Null),
                        1 => Some(JsVal::Undef),
                        _ => {
                            if in_obj {
                                None
                            } else {
                                Some(v.clone())
                            }
                        }
                    }
                }
                JsVal::Arr(xs) => Some(JsVal::Arr(xs.iter().map(|x| build(x, code, false).unwrap()).collect())),
                JsVal::Set(xs) => Some(JsVal::Set(xs.iter().map(|x| build(x, code, false).unwrap()).collect())),
                JsVal::Map(kv) => Some(JsVal::Map(kv.iter().map(|(a, b)| (build(a, code, false).unwrap(), build(b, code, false).unwrap())).collect())),
                JsVal::Obj(kv, p) => Some(JsVal::Obj(kv.iter().filter_map(|(k, x)| build(x, code, true).map(|y| (k.clone(), y))).collect(), p.clone())),
                other => Some(other.clone()),
            }
        }
        let n = count(v);
        if n == 0 {
            return true;
        }
        if n > 5 {
            return false;
        }
        let mut strict = Ref::new(self.env, self.mode);
        strict.ts_nullish = true;
        strict.du_model = self.du_model;
        let total = 3usize.pow(n as u32);
        for code in 0..total {
            let mut c = code;
            if let Some(x) = build(v, &mut c, false) {
                // a definite yes only: `c?: T` against an explicit undefined depends on exactOptionalPropertyTypes, and a
                // required `c: undefined` against an absent c on whether absent is undefined - neither is pinned
                if strict.member_fuel(d, &x, fuel.saturating_sub(1).max(1)) == Yes {
                    return true;
                }
            }
        }
        false
    }

    /// What the compiler extracts from a union member when it looks for a discriminated union (printer.rs,
    /// extract_object_shape): an object type without index signature, a reference to one, or an intersection of
    /// such whose same-named properties are declared identically or are both required string-literal unions one of
    /// which contains the other (the narrower one is kept).
    fn du_shape(&self, d: &D, depth: usize) -> Option<Vec<Prop>> {
        if depth > 12 {
            return None;
        }
        match self.head(d) {
            D::Object { props, index: None } => Some(props.clone()),
            D::Inter(ms) => {
                let mut acc: Vec<Prop> = vec![];
                for m in ms {
                    let shape = self.du_shape(m, depth + 1)?;
                    for p in shape {
                        match acc.iter().position(|q| q.key == p.key) {
                            None => acc.push(p),
                            Some(i) => {
                                // (declarations that are the same type may still be spelled differently, which the
                                // compiler's syntactic comparison tells apart: only the literal case is modelled, every
                                // other shared key leaves the question open, i.e. the per-member reading stays possible)
                                if acc[i].optional || p.optional {
                                    return None;
                                }
                                let (l, r) = (self.string_consts(&acc[i].ty, 0)?, self.string_consts(&p.ty, 0)?);
                                if l.iter().all(|x| r.contains(x)) {
                                    // left is narrower: keep
                                } else if r.iter().all(|x| l.contains(x)) {
                                    acc[i] = p;
                                } else {
                                    return None;
                                }
                            }
                        }
                    }
                }
                Some(acc)
            }
            _ => None,
        }
    }
    fn string_consts(&self, d: &D, depth: usize) -> Option<Vec<String>> {
        if depth > 12 {
            return None;
        }
        match self.head(d) {
            D::StrLit(s) => Some(vec![s.clone()]),
            D::Union(ms) => {
                let mut out = vec![];
                for m in ms {
                    out.extend(self.string_consts(m, depth + 1)?);
                }
                Some(out)
            }
            D::Never => Some(vec![]),
            _ => None,
        }
    }
    /// the members of a union with nested unions and references to unions expanded, `never` dropped
    fn flat_union(&self, ms: &[D]) -> Option<Vec<D>> {
        fn flat<'x>(r: &Ref<'x>, d: &D, out: &mut Vec<D>, depth: usize) -> bool {
            if depth > 12 {
                return false;
            }
            match r.head(d) {
                D::Union(inner) => inner.iter().all(|x| flat(r, x, out, depth + 1)),
                D::Never => true,
                other => {
                    out.push(other.clone());
                    true
                }
            }
        }
        let mut out = vec![];
        for m in ms {
            if !flat(self, m, &mut out, 0) {
                return None;
            }
        }
        Some(out)
    }
    /// the shapes of the (flattened) members of a union when the compiler turns it into a discriminated dispatch
    fn du_shapes(&self, flat_members: &[D]) -> Option<Vec<Vec<Prop>>> {
        if flat_members.len() < 2 {
            return None;
        }
        let shapes: Vec<Vec<Prop>> = flat_members.iter().map(|m| self.du_shape(m, 0)).collect::<Option<Vec<_>>>()?;
        let mut keys: Vec<&String> = shapes.iter().flat_map(|s| s.iter().map(|p| &p.key)).collect();
        keys.sort();
        keys.dedup();
        let is_du = keys.iter().any(|k| {
            let decls: Vec<&Prop> = shapes.iter().filter_map(|s| s.iter().find(|p| p.key == **k)).collect();
            decls.len() == shapes.len()
                && decls.iter().any(|p| (&p.ty, p.optional) != (&decls[0].ty, decls[0].optional))
                && decls.iter().all(|p| !p.optional)
                && decls.iter().all(|p| self.string_consts(&p.ty, 0).map(|v| !v.is_empty()).unwrap_or(false))
        });
        if is_du { Some(shapes) } else { None }
    }

    /// Resolve references at the head of a type.
    pub fn head<'b>(&'b self, d: &'b D) -> &'b D {
        let mut cur = d;
        let mut n = 0;
        while let D::Ref(i) = cur {
            cur = self.env.get(*i);
            n += 1;
            if n > 50 {
                break;
            }
        }
        cur
    }

    /// If all members are (references to) object types, the object type with all their properties
    /// (shared keys get the intersection of their types); index signatures are kept when unique.
    pub fn merge_objects(&self, ms: &[D]) -> Option<D> {
        // flatten nested intersections of objects
        let mut members: Vec<(Vec<Prop>, Option<Box<D>>)> = vec![];
        fn flatten<'x>(r: &Ref<'x>, m: &D, out: &mut Vec<(Vec<Prop>, Option<Box<D>>)>, depth: usize) -> bool {
            if depth > 20 {
                return false;
            }
            match r.head(m) {
                D::Object { props, index } => {
                    out.push((props.clone(), index.clone()));
                    true
                }
                D::Inter(inner) => inner.iter().all(|x| flatten(r, x, out, depth + 1)),
                _ => false,
            }
        }
        for m in ms {
            if !flatten(self, m, &mut members, 0) {
                return None;
            }
        }
        let mut keys: Vec<String> = vec![];
        for (ps, _) in &members {
            for p in ps {
                if !keys.contains(&p.key) {
                    keys.push(p.key.clone());
                }
            }
        }
        let mut props: Vec<Prop> = vec![];
        for k in keys {
            // every member constrains the key: through its declaration, or through its index signature
            let mut tys: Vec<D> = vec![];
            let mut optional = true;
            for (ps, ix) in &members {
                match ps.iter().find(|p| p.key == k) {
                    Some(p) => {
                        if !tys.contains(&p.ty) {
                            tys.push(p.ty.clone());
                        }
                        optional = optional && p.optional;
                    }
                    None => {
                        if let Some(ix) = ix {
                            if !tys.contains(ix) {
                                tys.push((**ix).clone());
                            }
                        }
                    }
                }
            }
            let ty = if tys.len() == 1 { tys.pop().unwrap() } else { D::Inter(tys) };
            props.push(Prop { key: k, ty, optional });
        }
        let mut ixs: Vec<D> = vec![];
        for (_, ix) in &members {
            if let Some(ix) = ix {
                if !ixs.contains(ix) {
                    ixs.push((**ix).clone());
                }
            }
        }
        let index = match ixs.len() {
            0 => None,
            1 => Some(Box::new(ixs.pop().unwrap())),
            _ => Some(Box::new(D::Inter(ixs))),
        };
        Some(D::Object { props, index })
    }

    fn object_member(&self, props: &[Prop], index: Option<&D>, v: &JsVal, fuel: usize) -> Tri {
        let (kv, proto) = match v {
            JsVal::Obj(kv, proto) => (kv, proto),
            // cyclic plain object {a:1, self: <itself>}
            JsVal::Cyclic => {
                // judge on what we know: keys a (=1) and self (an object); anything deeper is unspecified
                let mut acc = Yes;
                for p in props {
                    let t = match p.key.as_str() {
                        "a" => self.member_fuel(&p.ty, &JsVal::num("1"), fuel - 1),
                        "self" => Unspec,
                        _ => {
                            if p.optional {
                                Yes
                            } else {
                                let r = self.member_fuel(&p.ty, &JsVal::Undef, fuel - 1);
                                if r == No { No } else { Unspec }
                            }
                        }
                    };
                    acc = acc.and(t);
                }
                if acc == No {
                    return No;
                }
                return Unspec;
            }
            // non-plain objects: the statement does not pin how builtin instances relate to object types,
            // except that a required property that is certainly missing rules the value out
            JsVal::Arr(_) | JsVal::CyclicArr | JsVal::Func | JsVal::Date(_) | JsVal::Map(_) | JsVal::Set(_) | JsVal::TypedArr(_, _) => {
                // ... a builtin instance has no property named like our plain vocabulary keys
                for p in props {
                    let builtin_member = matches!(p.key.as_str(), "0" | "1" | "2" | "length" | "size" | "name" | "byteLength")
                        || crate::jsval::HOSTILE.contains(&p.key.as_str());
                    if !p.optional && !builtin_member && self.member_fuel(&p.ty, &JsVal::Undef, fuel - 1) == No {
                        return No;
                    }
                }
                return Unspec;
            }
            _ => return No,
        };
        let _ = proto;
        let class_like = *proto == Proto::Class;
        let mut acc = Yes;
        for p in props {
            let found = kv.iter().find(|(k, _)| *k == p.key).map(|(_, x)| x);
            let t = match found {
                Some(x) => {
                    if p.optional && self.ts_nullish && matches!(x, JsVal::Undef) {
                        // compile-time reading: whether `a?: T` admits an explicit undefined is a TypeScript option
                        // (exactOptionalPropertyTypes); the engine tells absent from undefined. Not pinned by the
                        // statement unless T admits undefined itself.
                        match self.member_fuel(&p.ty, x, fuel - 1) {
                            Yes => Yes,
                            _ => Unspec,
                        }
                    } else if p.optional && !self.ts_nullish && x.is_nullish() {
                        Yes
                    } else {
                        self.member_fuel(&p.ty, x, fuel - 1)
                    }
                }
                None => {
                    if p.optional && *proto != Proto::Null && crate::jsval::HOSTILE.contains(&p.key.as_str()) {
                        // no own property, but `value.constructor` / `value.toString` is there all the same (inherited):
                        // TypeScript itself relates `{}` to `{ toString?: number }` through the inherited member. Not pinned.
                        Unspec
                    } else if p.optional {
                        Yes
                    } else if crate::jsval::HOSTILE.contains(&p.key.as_str()) {
                        // inherited from Object.prototype: not pinned
                        Unspec
                    } else {
                        // required but absent: TypeScript says no; beff reads `undefined`.  Only pinned when the
                        // property type rejects undefined.
                        match self.member_fuel(&p.ty, &JsVal::Undef, fuel - 1) {
                            No => No,
                            _ => Unspec,
                        }
                    }
                }
            };
            acc = acc.and(t);
            if acc == No {
                return No;
            }
        }
        // other keys
        for (k, x) in kv {
            if props.iter().any(|p| p.key == *k) {
                continue;
            }
            match index {
                Some(it) => {
                    acc = acc.and(self.member_fuel(it, x, fuel - 1));
                }
                None => {
                    if self.mode == Mode::Strict {
                        acc = acc.and(No);
                    }
                }
            }
            if acc == No {
                return No;
            }
        }
        if class_like && acc == Yes {
            // class instances carry inherited members (method) - membership of own-enumerable view is what
            // beff judges and what structural typing says; keep the verdict
        }
        acc
    }

    // ------------------------------------------------------------------------------------------
    // value generation directed by the type
    // ------------------------------------------------------------------------------------------

    /// A member of `d` by construction (None when no member could be built, e.g. `never`).
    pub fn gen_member(&self, d: &D, s: &mut Src, depth: usize) -> Option<JsVal> {
        let fuel = std::cell::Cell::new(400usize);
        self.gen_member_f(d, s, depth, &fuel)
    }

    fn gen_member_f(&self, d: &D, s: &mut Src, depth: usize, fuel: &std::cell::Cell<usize>) -> Option<JsVal> {
        use crate::jsval::{arbitrary, NUM_POOL, STR_POOL};
        if fuel.get() == 0 {
            return None;
        }
        fuel.set(fuel.get() - 1);
        match d {
            D::Never => None,
            D::Any => Some(arbitrary(s, 2)),
            D::Null | D::Undefined | D::Void => Some(if s.below(2) == 0 { JsVal::Null } else { JsVal::Undef }),
            D::Bool => Some(JsVal::Bool(s.below(2) == 1)),
            D::BoolLit(b) => Some(JsVal::Bool(*b)),
            D::Num => Some(JsVal::Num(s.pick(&NUM_POOL).to_string())),
            D::NumLit(l) => Some(JsVal::Num(l.clone())),
            D::Str => Some(JsVal::Str(s.pick(&STR_POOL).to_string())),
            D::StrLit(l) => Some(JsVal::Str(l.clone())),
            D::Tpl(parts) => {
                let mut out = String::new();
                for p in parts {
                    match p {
                        TplPart::Lit(l) => out.push_str(l),
                        TplPart::Str => out.push_str(*s.pick(&["", "a", "xyz", "a-b", "1", "\n", "é"])),
                        TplPart::Num => out.push_str(*s.pick(&["1", "0", "42", "1.5", "007"])),
                        TplPart::Bool => out.push_str(*s.pick(&["true", "false"])),
                        TplPart::OneOf(o) => out.push_str(&o[s.below(o.len())]),
                    }
                }
                Some(JsVal::Str(out))
            }
            D::StrFmt(chain) => {
                let start = s.below(STR_POOL.len());
                for i in 0..STR_POOL.len() {
                    let c = STR_POOL[(start + i) % STR_POOL.len()];
                    if chain.iter().all(|f| format_ok_str(f, c)) {
                        return Some(JsVal::str(c));
                    }
                }
                None
            }
            D::NumFmt(chain) => {
                let start = s.below(NUM_POOL.len());
                for i in 0..NUM_POOL.len() {
                    let c = NUM_POOL[(start + i) % NUM_POOL.len()];
                    if chain.iter().all(|f| format_ok_num(f, num_value(c))) {
                        return Some(JsVal::num(c));
                    }
                }
                None
            }
            D::BigInt => Some(JsVal::BigInt(s.pick(&["10", "0", "-5"]).to_string())),
            D::Date => Some(JsVal::Date(if s.chance(1, 5) { None } else { Some(1700000000000) })),
            D::TypedArray(k) => Some(JsVal::TypedArr(*k, vec![1, 2])),
            D::Array(item) => {
                let n = if depth == 0 { 0 } else { s.range(0, 3) };
                let mut out = vec![];
                for _ in 0..n {
                    match self.gen_member_f(item, s, depth.saturating_sub(1), fuel) {
                        Some(x) => out.push(x),
                        None => break,
                    }
                }
                Some(JsVal::Arr(out))
            }
            D::Tuple(prefix, rest) => {
                let mut out = vec![];
                for p in prefix {
                    out.push(self.gen_member_f(p, s, depth.saturating_sub(1), fuel)?);
                }
                if let Some(r) = rest {
                    let n = if depth == 0 { 0 } else { s.range(0, 2) };
                    for _ in 0..n {
                        match self.gen_member_f(r, s, depth.saturating_sub(1), fuel) {
                            Some(x) => out.push(x),
                            None => break,
                        }
                    }
                }
                Some(JsVal::Arr(out))
            }
            D::Object { props, index } => {
                let mut kv: Vec<(String, JsVal)> = vec![];
                for p in props {
                    if p.optional {
                        match if depth == 0 { 0 } else { s.below(5) } {
                            0 => continue,
                            1 => {
                                kv.push((p.key.clone(), JsVal::Undef));
                                continue;
                            }
                            2 => {
                                kv.push((p.key.clone(), JsVal::Null));
                                continue;
                            }
                            _ => match self.gen_member_f(&p.ty, s, depth.saturating_sub(1), fuel) {
                                Some(x) => kv.push((p.key.clone(), x)),
                                None => continue,
                            },
                        }
                    } else {
                        kv.push((p.key.clone(), self.gen_member_f(&p.ty, s, depth.saturating_sub(1), fuel)?));
                    }
                }
                match index {
                    Some(it) => {
                        let n = if depth == 0 { 0 } else { s.range(0, 2) };
                        for _ in 0..n {
                            let k = s.pick(&["z", "y", "a", "toString", "1"]).to_string();
                            if kv.iter().any(|(x, _)| *x == k) || props.iter().any(|p| p.key == k) {
                                continue;
                            }
                            if let Some(x) = self.gen_member_f(it, s, depth.saturating_sub(1), fuel) {
                                kv.push((k, x));
                            }
                        }
                    }
                    None => {
                        // undeclared keys are ignored in default mode; in strict mode they decide
                        if self.mode == Mode::Open && s.chance(1, 4) {
                            let k = s.pick(&["z", "extra", "constructor", "__proto__", "toString"]).to_string();
                            if !kv.iter().any(|(x, _)| *x == k) && !props.iter().any(|p| p.key == k) {
                                kv.push((k, crate::jsval::arbitrary_leaf(s)));
                            }
                        }
                    }
                }
                // shuffle key order a little
                if kv.len() > 1 && s.chance(1, 2) {
                    let i = s.below(kv.len());
                    kv.swap(0, i);
                }
                let proto = if s.chance(1, 10) { Proto::Null } else { Proto::Plain };
                Some(JsVal::Obj(kv, proto))
            }
            D::Map(kt, vt) => {
                let n = if depth == 0 { 0 } else { s.range(0, 2) };
                let mut kv: Vec<(JsVal, JsVal)> = vec![];
                for _ in 0..n {
                    let k = self.gen_member_f(kt, s, depth.saturating_sub(1), fuel);
                    let v = self.gen_member_f(vt, s, depth.saturating_sub(1), fuel);
                    if let (Some(k), Some(v)) = (k, v) {
                        let k = crate::jsval::same_value_zero_canon(k);
                        if !kv.iter().any(|(x, _)| *x == k) {
                            kv.push((k, v));
                        }
                    }
                }
                Some(JsVal::Map(kv))
            }
            D::Set(t) => {
                let n = if depth == 0 { 0 } else { s.range(0, 2) };
                let mut out: Vec<JsVal> = vec![];
                for _ in 0..n {
                    if let Some(x) = self.gen_member_f(t, s, depth.saturating_sub(1), fuel) {
                        let x = crate::jsval::same_value_zero_canon(x);
                        if !out.contains(&x) {
                            out.push(x);
                        }
                    }
                }
                Some(JsVal::Set(out))
            }
            D::Union(ms) => {
                let start = s.below(ms.len().max(1));
                for i in 0..ms.len() {
                    if let Some(x) = self.gen_member_f(&ms[(start + i) % ms.len()], s, depth, fuel) {
                        return Some(x);
                    }
                }
                None
            }
            D::Inter(ms) => {
                if self.relax_inter.get() {
                    // near miss by construction: a member of ONE operand only (the conjunction is what is being tested)
                    let i = s.below(ms.len());
                    return self.gen_member_f(&ms[i], s, depth, fuel);
                }
                if let Some(merged) = self.merge_objects(ms) {
                    let x = self.gen_member_f(&merged, s, depth, fuel)?;
                    return Some(x);
                }
                let x = self.gen_member_f(&ms[0], s, depth, fuel)?;
                if ms[1..].iter().all(|m| self.member(m, &x) == Yes) {
                    Some(x)
                } else {
                    None
                }
            }
            D::Ref(i) => {
                if depth == 0 {
                    // avoid unbounded unfolding: try once with depth 0 semantics
                    self.gen_member_f(self.env.get(*i), s, 0, fuel)
                } else {
                    self.gen_member_f(self.env.get(*i), s, depth - 1, fuel)
                }
            }
        }
    }
}

#[cfg(test)]
mod tests {
    use super::*;
    #[test]
    fn tpl() {
        assert_eq!(tpl_match(&[TplPart::Lit("a".into()), TplPart::Str], "xa", false), No);
        assert_eq!(tpl_match(&[TplPart::Lit("a".into()), TplPart::Str], "a\nb", false), Yes);
        assert_eq!(tpl_match(&[TplPart::Num], "1.5", false), Yes);
        assert_eq!(tpl_match(&[TplPart::Num], "-1", false), Yes);
        assert_eq!(tpl_match(&[TplPart::Num], "1abc", false), No);
        assert_eq!(tpl_match(&[TplPart::Num, TplPart::Lit("-".into()), TplPart::Bool], "1-true", false), Yes);
    }
}
