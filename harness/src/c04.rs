//! C04 — compilation is total: code or located diagnostics, never a panic or a hang.
use crate::compile::{CompileFail, CompileOut, Project};
use crate::runner::{fp, Check, Ctx, Outcome, Tier};
use crate::src::Src;
use serde::{Deserialize, Serialize};
use serde_json::{json, Value};
use std::sync::OnceLock;

// ------------------------------------------------------------------------------------------------
// corpus: the repository's own test programs, extracted at run time
// ------------------------------------------------------------------------------------------------
fn repo_root() -> String {
    std::env::var("BEFF_REPO").unwrap_or_else(|_| "/repo".to_string())
}

pub fn corpus() -> &'static Vec<String> {
    static C: OnceLock<Vec<String>> = OnceLock::new();
    C.get_or_init(|| {
        let mut out: Vec<String> = vec![];
        let tests = format!("{}/packages/beff-core/tests", repo_root());
        let mut files: Vec<_> = std::fs::read_dir(&tests).map(|rd| rd.flatten().map(|e| e.path()).collect()).unwrap_or_default();
        files.sort();
        for f in files {
            if f.extension().map(|e| e == "rs").unwrap_or(false) {
                if let Ok(text) = std::fs::read_to_string(&f) {
                    let mut rest = text.as_str();
                    while let Some(i) = rest.find("r#\"") {
                        let after = &rest[i + 3..];
                        match after.find("\"#") {
                            Some(j) => {
                                let body = &after[..j];
                                // programs, not expected-output snapshots
                                if body.contains("buildParsers") && body.len() < 6000 {
                                    out.push(body.to_string());
                                }
                                rest = &after[j + 2..];
                            }
                            None => break,
                        }
                    }
                }
            }
        }
        // e2e sources
        let e2e = format!("{}/e2e-tests", repo_root());
        let mut dirs: Vec<_> = std::fs::read_dir(&e2e).map(|rd| rd.flatten().map(|e| e.path()).collect()).unwrap_or_default();
        dirs.sort();
        for d in dirs {
            let src = d.join("src");
            let mut fs: Vec<_> = std::fs::read_dir(&src).map(|rd| rd.flatten().map(|e| e.path()).collect()).unwrap_or_default();
            fs.sort();
            for f in fs {
                if f.extension().map(|e| e == "ts").unwrap_or(false) {
                    if let Ok(text) = std::fs::read_to_string(&f) {
                        if text.len() < 8000 {
                            out.push(text);
                        }
                    }
                }
            }
        }
        out
    })
}

fn tokenize(s: &str) -> Vec<String> {
    let cs: Vec<char> = s.chars().collect();
    let mut out = vec![];
    let mut i = 0;
    while i < cs.len() {
        let c = cs[i];
        if c.is_whitespace() {
            let st = i;
            while i < cs.len() && cs[i].is_whitespace() {
                i += 1;
            }
            out.push(cs[st..i].iter().collect());
        } else if c.is_alphanumeric() || c == '_' || c == '$' {
            let st = i;
            while i < cs.len() && (cs[i].is_alphanumeric() || cs[i] == '_' || cs[i] == '$') {
                i += 1;
            }
            out.push(cs[st..i].iter().collect());
        } else if c == '"' || c == '\'' || c == '`' {
            let st = i;
            i += 1;
            while i < cs.len() && cs[i] != c && cs[i] != '\n' {
                if cs[i] == '\\' {
                    i += 1;
                }
                i += 1;
            }
            i = (i + 1).min(cs.len());
            out.push(cs[st..i].iter().collect());
        } else {
            out.push(c.to_string());
            i += 1;
        }
    }
    out
}

const DICT: [&str; 70] = [
    "type", "interface", "enum", "const", "export", "import", "from", "default", "extends", "keyof", "typeof", "infer", "readonly", "unique", "symbol",
    "string", "number", "boolean", "bigint", "never", "any", "unknown", "void", "null", "undefined", "object", "this", "as", "in", "is", "new",
    "Record", "Partial", "Required", "Pick", "Omit", "Exclude", "Array", "ReadonlyArray", "Readonly", "Map", "Set", "Date", "Uint8Array", "StringFormat",
    "NumberFormat", "StringFormatExtends", "namespace", "declare", "class", "function", "abstract", "satisfies",
    "<", ">", "{", "}", "[", "]", "(", ")", "|", "&", "?", ":", ";", ",", "=", "=>", "...",
];

fn mutate_tokens(base: &str, other: &str, s: &mut Src) -> String {
    let mut toks = tokenize(base);
    if toks.is_empty() {
        return base.to_string();
    }
    let n = s.range(1, 4);
    for _ in 0..n {
        if toks.is_empty() {
            break;
        }
        let i = s.below(toks.len());
        match s.below(8) {
            0 => {
                toks.remove(i);
            }
            1 => {
                let t = toks[i].clone();
                toks.insert(i, t);
            }
            2 => {
                let j = s.below(toks.len());
                toks.swap(i, j);
            }
            3 | 4 => {
                toks[i] = s.pick(&DICT).to_string();
            }
            5 => {
                toks.insert(i, s.pick(&DICT).to_string());
            }
            6 => {
                // splice a window of another program
                let ot = tokenize(other);
                if !ot.is_empty() {
                    let a = s.below(ot.len());
                    let len = s.range(1, 12).min(ot.len() - a);
                    for (k, t) in ot[a..a + len].iter().enumerate() {
                        toks.insert((i + k).min(toks.len()), t.clone());
                    }
                }
            }
            _ => {
                // identifier swap: replace by another identifier of the same program
                let ids: Vec<String> = toks.iter().filter(|t| t.chars().next().map(|c| c.is_alphabetic()).unwrap_or(false)).cloned().collect();
                if !ids.is_empty() {
                    toks[i] = ids[s.below(ids.len())].clone();
                }
            }
        }
    }
    toks.concat()
}

fn mutate_bytes(base: &str, s: &mut Src) -> String {
    let mut b: Vec<u8> = base.as_bytes().to_vec();
    let n = s.range(1, 3);
    for _ in 0..n {
        if b.is_empty() {
            break;
        }
        let i = s.below(b.len());
        match s.below(4) {
            0 => {
                b.remove(i);
            }
            1 => b[i] = *s.pick(b"<>{}[]()|&?:;,='\"`\\/*-+.0a\n\t\x00\xff"),
            2 => b.truncate(i),
            _ => {
                let x = b[i];
                b.insert(i, x);
            }
        }
    }
    String::from_utf8_lossy(&b).to_string()
}

// ------------------------------------------------------------------------------------------------
// wild grammar: the whole TypeScript type syntax, supported or not
// ------------------------------------------------------------------------------------------------
const NAMES: [&str; 8] = ["A", "B", "C", "G", "I", "E", "Missing", "ns"];
// (values: constants, an enum, and the names the wild imports bind: the default import D and the namespaces ns / ns2)
const VALS: [&str; 9] = ["c1", "c2", "obj", "arr", "fnv", "E", "D", "ns", "ns2"];

fn wild_ty(s: &mut Src, depth: usize) -> String {
    if depth == 0 {
        return match s.below(26) {
            0 => "string".into(),
            1 => "number".into(),
            2 => "boolean".into(),
            3 => "bigint".into(),
            4 => "symbol".into(),
            5 => "null".into(),
            6 => "undefined".into(),
            7 => "void".into(),
            8 => "never".into(),
            9 => "any".into(),
            10 => "unknown".into(),
            11 => "object".into(),
            12 => "this".into(),
            13 => "unique symbol".into(),
            14 => s.pick(&["\"a\"", "'b'", "1", "-1", "1.5", "1e21", "0x10", "true", "false", "10n", "`t`", "\"a-b\"", "\"\"", "\"/\"", "\"\\\\\"", "\"\\n\"", "\"'\"", "'\"'", "\"</script>\"", "\"\\u2028\"", "`\\``"]).to_string(),
            15 => {
                // literal chunks carry every character that is special in a regular expression, a JS string or a
                // regex literal: the emitted validator is a regex literal built from them
                const CHUNKS: [&str; 28] = [
                    "x", "y", "", "/", "a/b", "\\\\", "\\`", "'", "\"", "$", "{", "}", "(", ")", "[", "]", "|", "*", "+", "?", ".", "^", "\\n", "\\u{1F600}", "é", "</script>", "\\${", "-",
                ];
                let a = *s.pick(&CHUNKS);
                let b = *s.pick(&CHUNKS);
                let hole = *s.pick(&["string", "number", "boolean", "A", "\"a\"|\"b\"", "bigint", "null", "{a:1}", "\"/\" | \"|\""]);
                format!("`{}${{{}}}{}`", a, hole, b)
            }
            16 => s.pick(&NAMES).to_string(),
            17 => format!("typeof {}", s.pick(&VALS)),
            18 => format!("typeof {}.{}", s.pick(&VALS), s.pick(&["k", "a", "length", "M", "x"])),
            19 => format!("{}.{}", s.pick(&["E", "ns", "A", "obj", "D", "ns2", "ns.ns2", "D.ns"]), s.pick(&["M", "X", "a", "T", "A", "B", "c1", "E"])),
            20 => "Date".into(),
            21 => s.pick(&["Uint8Array", "Float64Array", "BigInt64Array"]).to_string(),
            22 => format!("StringFormat<{}>", s.pick(&["\"lower\"", "\"nope\"", "string", "1"])),
            23 => format!("NumberFormat<{}>", s.pick(&["\"int\"", "\"nope\"", "A"])),
            24 => "Function".into(),
            _ => "Object".into(),
        };
    }
    let d = depth - 1;
    match s.below(34) {
        0 | 1 => wild_ty(s, 0),
        2 => format!("{}[]", wild_ty(s, d)),
        3 => format!("Array<{}>", wild_ty(s, d)),
        4 => format!("[{}, {}]", wild_ty(s, d), wild_ty(s, d)),
        5 => format!("[{}, ...{}[]]", wild_ty(s, d), wild_ty(s, d)),
        6 => format!("[{}?, ...{}]", wild_ty(s, d), wild_ty(s, d)),
        7 => format!("[a: {}, b?: {}]", wild_ty(s, d), wild_ty(s, d)),
        8 => format!("[...{}, {}]", wild_ty(s, d), wild_ty(s, d)),
        9 => format!("{} | {}", wild_ty(s, d), wild_ty(s, d)),
        10 => format!("{} & {}", wild_ty(s, d), wild_ty(s, d)),
        11 => format!("({})", wild_ty(s, d)),
        12 => wild_obj(s, d),
        13 => format!("{}<{}>", s.pick(&["G", "A", "Array", "Partial", "Required", "Readonly", "Set", "Missing"]), wild_ty(s, d)),
        14 => format!("{}<{}, {}>", s.pick(&["Record", "Pick", "Omit", "Exclude", "Map", "G", "StringFormatExtends", "NumberFormatExtends"]), wild_ty(s, d), wild_ty(s, d)),
        15 => format!("{}<{}>", s.pick(&["Record", "Pick", "Omit", "Exclude", "Map", "Array"]), vec![wild_ty(s, d); s.below(4)].join(", ")),
        16 => format!("keyof {}", wild_ty(s, d)),
        17 => format!("{}[{}]", wild_ty(s, d), wild_ty(s, d)),
        18 => format!("{}[{}]", wild_ty(s, d), s.pick(&["\"a\"", "number", "0", "\"k\"", "keyof A", "string"])),
        19 => format!("{} extends {} ? {} : {}", wild_ty(s, d), wild_ty(s, d), wild_ty(s, d), wild_ty(s, d)),
        20 => format!("{} extends infer U ? U : {}", wild_ty(s, d), wild_ty(s, d)),
        21 => format!("{{ [K in {}]{}: {} }}", wild_ty(s, d), s.pick(&["", "?", "-?", "+?"]), wild_ty(s, d)),
        22 => format!("{{ readonly [K in keyof {}]: {}[K] }}", s.pick(&NAMES), s.pick(&NAMES)),
        23 => format!("{{ [K in {} as `x${{K}}`]: {} }}", wild_ty(s, d), wild_ty(s, d)),
        24 => format!("({}: {}) => {}", s.pick(&["a", "...r"]), wild_ty(s, d), wild_ty(s, d)),
        25 => format!("new () => {}", wild_ty(s, d)),
        26 => format!("readonly {}[]", wild_ty(s, d)),
        27 => format!("unique {}", wild_ty(s, d)),
        28 => format!("import(\"./{}\").{}", s.pick(&["a", "b", "missing", "entry"]), s.pick(&NAMES)),
        29 => format!("typeof import(\"./{}\")", s.pick(&["a", "b", "missing"])),
        30 => format!("import(\"./{}\")", s.pick(&["a", "b", "missing"])),
        31 => format!("(x: any) => x is {}", wild_ty(s, d)),
        32 => format!("Set<{}>", wild_ty(s, d)),
        _ => format!("Map<{}, {}>", wild_ty(s, d), wild_ty(s, d)),
    }
}

fn wild_obj(s: &mut Src, d: usize) -> String {
    let n = s.range(0, 4);
    let mut ms = vec![];
    for _ in 0..n {
        let k = s.pick(&["a", "b", "\"a-b\"", "0", "k", "[Symbol.iterator]", "readonly c", "\"\""]);
        ms.push(match s.below(12) {
            0..=4 => format!("{}{}: {}", k, s.pick(&["", "?"]), wild_ty(s, d)),
            5 => format!("[key: {}]: {}", s.pick(&["string", "number", "symbol", "`a${string}`", "A", "\"a\"|\"b\""]), wild_ty(s, d)),
            6 => format!("{}(): {}", k, wild_ty(s, d)),
            7 => format!("get {}(): {}", k, wild_ty(s, d)),
            8 => format!("set {}(v: {})", k, wild_ty(s, d)),
            9 => format!("(): {}", wild_ty(s, d)),
            10 => format!("new (): {}", wild_ty(s, d)),
            _ => k.to_string(),
        });
    }
    { let sep = *s.pick(&["; ", ", ", "\n"]); format!("{{ {} }}", ms.join(sep)) }
}

fn wild_expr(s: &mut Src, depth: usize) -> String {
    if depth == 0 {
        return s.pick(&["1", "\"a\"", "true", "null", "undefined", "10n", "/re/", "c1", "E.M", "obj.k", "`t${c1}`", "-1", "1 + 2", "\"a\" + \"b\"", "() => 1", "[]", "{}", "Symbol()", "new Date()"]).to_string();
    }
    let d = depth - 1;
    match s.below(8) {
        0 => format!("[{}, ...{}]", wild_expr(s, d), wild_expr(s, d)),
        1 => format!("{{ a: {}, \"a-b\": {}, ...{} }}", wild_expr(s, d), wild_expr(s, d), wild_expr(s, d)),
        2 => format!("{} as const", wild_expr(s, d)),
        3 => format!("{} satisfies {}", wild_expr(s, d), wild_ty(s, d)),
        4 => format!("{{ [{}]: 1, 2: 3, get x() {{ return 1 }}, m() {{}} }}", wild_expr(s, d)),
        5 => format!("{}.{}", wild_expr(s, d), s.pick(&["k", "a", "length"])),
        6 => format!("{}[{}]", wild_expr(s, d), wild_expr(s, d)),
        _ => wild_expr(s, 0),
    }
}

fn wild_decl(s: &mut Src, name: &str) -> String {
    let exp = *s.pick(&["", "export ", "export ", "export default ", "declare ", "export declare "]);
    match s.below(15) {
        0..=3 => {
            let params = *s.pick(&["", "<T>", "<T, U>", "<T extends string>", "<T = string>"]);
            let d = s.range(0, 3);
            format!("{}type {}{} = {};", exp.replace("default ", ""), name, params, wild_ty(s, d))
        }
        4 | 5 => format!(
            "{}interface {}{} {} {}",
            exp.replace("declare ", ""),
            name,
            s.pick(&["", "<T>"]),
            s.pick(&["", "extends A", "extends B, C", "extends Missing", "extends G<string>", "extends ns.T", "extends Array<string>"]),
            wild_obj(s, 2)
        ),
        6 => format!(
            "{}enum {} {{ {} }}",
            exp.replace("default ", "").replace("declare ", ""),
            name,
            s.pick(&["M = \"a\", N = 1", "M, N", "\"a-b\" = 1, M = 2", "M = 1 << 2", "M = `t`", "M = \"a\", N = M", ""])
        ),
        7 | 8 => format!("{}const {} = {};", exp.replace("default ", "").replace("declare ", ""), s.pick(&VALS), wild_expr(s, 2)),
        9 => format!("declare const {}: {};", s.pick(&VALS), wild_ty(s, 2)),
        10 => format!("export namespace ns {{ export type T = {}; export const v = 1; }}", wild_ty(s, 1)),
        11 => format!("{}class {} {{ a: string = \"\"; }}", exp.replace("declare ", ""), name),
        12 => format!("export default {};", s.pick(&["A", "c1", "{ a: 1 }", "1", "E"])),
        13 => {
            // export lists of local names: a type, a value or an enum under its own name, another one, or `default`
            let what = *s.pick(&["A", "B", "I", "E", "c1", "obj", "fnv", "ns", "Missing"]);
            match s.below(3) {
                0 => format!("export {{ {} as default }};", what),
                1 => format!("export {{ {} as {} }};", what, s.pick(&["A", "Z", "c1", "D"])),
                _ => format!("export {{ {} }};", what),
            }
        }
        _ => format!("{}function {}() {{ return 1; }}", exp.replace("declare ", ""), s.pick(&["fnv", "f2"])),
    }
}

fn wild_imports(s: &mut Src, others: &[&str]) -> String {
    let mut out = String::new();
    let n = s.range(0, 3);
    for _ in 0..n {
        let m = s.pick(others);
        out.push_str(&match s.below(9) {
            0 => format!("import {{ {} }} from \"./{}\";\n", s.pick(&NAMES), m),
            1 => format!("import {{ {} as {} }} from \"./{}\";\n", s.pick(&NAMES), s.pick(&NAMES), m),
            2 => format!("import type {{ {} }} from \"./{}\";\n", s.pick(&NAMES), m),
            3 => format!("import * as ns from \"./{}\";\n", m),
            4 => format!("import D from \"./{}\";\n", m),
            5 => format!("export * from \"./{}\";\n", m),
            6 => format!("export * as ns2 from \"./{}\";\n", m),
            7 => format!("export {{ {} as {} }} from \"./{}\";\n", s.pick(&NAMES), s.pick(&["default", "A", "Z"]), m),
            _ => format!("import D, {{ {} }} from \"./{}\";\n", s.pick(&NAMES), m),
        });
    }
    out
}

fn wild_build(s: &mut Src) -> String {
    match s.below(12) {
        0..=6 => {
            let n = s.range(1, 3);
            let ms: Vec<String> = (0..n)
                .map(|i| {
                    let d = s.range(0, 3);
                    format!("P{}: {}", i, wild_ty(s, d))
                })
                .collect();
            format!("parse.buildParsers<{{ {} }}>();", ms.join("; "))
        }
        7 => "parse.buildParsers<{ A: A }>(); parse.buildParsers<{ B: B }>();".into(),
        8 => "parse.buildParsers();".into(),
        9 => format!("buildParsers<{}>();", wild_ty(s, 1)),
        10 => format!("parse.buildParsers<{{ \"a-b\": string; m(): void; [k: string]: {} }}>();", wild_ty(s, 1)),
        _ => format!("parse.buildParsers<{{ P0: {} }}, string>();", wild_ty(s, 1)),
    }
}

/// semantic operators (Exclude, keyof, indexed access, conditional) over small well-formed operands: the
/// family where computed types (negations, excluded literals, tuple indexes) reach the printer
fn sem_operand(s: &mut Src, depth: usize) -> String {
    if depth == 0 {
        return s
            .pick(&[
                "string", "number", "boolean", "null", "undefined", "\"a\"", "\"b\"", "1", "2", "true", "bigint", "Date", "never", "unknown",
                "\"a\" | \"b\"", "1 | 2", "string | number", "string[]", "[string, number]", "[number, ...string[]]", "{ a: string }",
                "{ a: string; b?: number }", "{ a: 1 } | { a: 2; b: string }", "Record<string, number>", "Record<\"a\" | \"b\", number>",
                "{ [k: string]: boolean }", "T0", "T1", "StringFormat<\"lower\">", "`a${string}`", "Uint8Array", "Map<string, number>", "Set<string>",
                "Array<{ a: T0 }>", "readonly [T0, T1]", "`${\"\"}`", "`${\"\" | \"b\"}`",
                // recursive named types of every container kind (declared by sem_file), incl. ones without finite values
                "R0", "R1", "R2", "R4", "R5", "R6", "R7", "R0 | null", "R1 | string", "[R2, R1]",
                // ... and ones whose own body mentions them inside an intersection, a utility type or a discriminated union
                "R8", "R9", "R10", "R11", "R8 | null", "R9 | string", "R11 | null",
            ])
            .to_string();
    }
    let d = depth - 1;
    match s.below(10) {
        0 | 1 => format!("Exclude<{}, {}>", sem_operand(s, d), sem_operand(s, d)),
        2 => format!("keyof {}", paren(sem_operand(s, d))),
        3 => format!("{}[{}]", paren(sem_operand(s, d)), s.pick(&["\"a\"", "\"b\"", "number", "0", "1", "string", "keyof T0", "\"a\" | \"b\""])),
        4 => format!("{} extends {} ? {} : {}", paren(sem_operand(s, d)), sem_operand(s, d), sem_operand(s, d), sem_operand(s, d)),
        5 => format!("{} | {}", sem_operand(s, d), sem_operand(s, d)),
        6 => format!("{} & {}", paren(sem_operand(s, d)), paren(sem_operand(s, d))),
        7 => format!("{}<{}>", s.pick(&["Partial", "Required", "Readonly"]), sem_operand(s, d)),
        8 => format!("{}<{}, {}>", s.pick(&["Pick", "Omit", "Record"]), sem_operand(s, d), s.pick(&["\"a\"", "\"a\" | \"b\"", "string", "keyof T0", "K0"])),
        _ => format!("{{ [K in {}]: {} }}", sem_operand(s, d), sem_operand(s, d)),
    }
}
fn paren(t: String) -> String {
    format!("({})", t)
}
fn sem_file(s: &mut Src) -> String {
    let mut out = String::new();
    out.push_str(&format!("type T0 = {};\n", sem_operand(s, 1)));
    out.push_str(&format!("type T1 = {};\n", sem_operand(s, 1)));
    out.push_str("type K0 = \"a\" | \"b\";\ntype K1 = K0;\n");
    out.push_str("type R0 = [string, R0];\ntype R1 = { next: R1 | null; v: string };\ntype R2 = [R3];\ntype R3 = [R2];\ntype R4 = R4[];\ntype R5 = { [k: string]: R5 };\ntype R6 = Map<string, R6>;\ntype R7 = { a: R7 } | { b: R0 };\n");
    out.push_str("type R8 = { v: string; children: (R8 & { parent: string })[] };\ntype R9 = { a: R9 | null } & { b: string };\ntype R10 = { p?: Partial<R10>; q: number };\ntype R11 = { kind: \"n\"; left: R11; right: R11 } | { kind: \"l\"; v: number };\n");
    let n = s.range(1, 3);
    let mut ps = vec![];
    for i in 0..n {
        let d = s.range(1, 3);
        ps.push(format!("P{}: {}", i, sem_operand(s, d)));
    }
    out.push_str(&format!("parse.buildParsers<{{ {} }}>();\n", ps.join("; ")));
    out
}

/// a long library module exporting an enum and constants whose initialisers are partly outside what typeof can read,
/// and a short entry that reads them by value: whatever is reported has to be located in the file it is about
fn cross_module_values(s: &mut Src) -> Vec<(String, String)> {
    const INITS: [&str; 14] = ["1 << 0", "-1", "\"x\".length", "1", "\"s\"", "A + 1", "`t${1}`", "~0", "(1)", "Math.max(1, 2)", "1 + 2", "\"a\" + \"b\"", "foo()", "2"];
    const VALUES: [&str; 12] = ["1", "\"v\"", "new Date()", "() => 1", "1 + 2", "[1, ...[2]]", "foo()", "unknownName", "{ n: -1 }", "null", "Flags.A", "`t${\"x\"}`"];
    let mut lib = String::new();
    for i in 0..s.range(0, 30) {
        lib.push_str(&format!("// padding line {} so that positions in this file do not fit into the entry\n", i));
    }
    let members: Vec<String> = ["A", "B", "C"].iter().map(|m| if s.chance(1, 5) { m.to_string() } else { format!("{} = {}", m, s.pick(&INITS)) }).collect();
    lib.push_str(&format!("export enum Flags {{ {} }}\n", members.join(", ")));
    lib.push_str(&format!("export const obj = {{ k: {}, j: {} }}{};\n", s.pick(&VALUES), s.pick(&VALUES), if s.chance(1, 2) { " as const" } else { "" }));
    if s.chance(1, 2) {
        lib.push_str(&format!("export default {};\n", s.pick(&VALUES)));
    }
    let mut entry = String::new();
    entry.push_str(if s.chance(1, 4) { "import * as lib from \"./e\";\nconst Flags = lib.Flags;\nconst obj = lib.obj;\n" } else { "import { Flags, obj } from \"./e\";\n" });
    if s.chance(1, 3) {
        entry.push_str("import d from \"./e\";\n");
    }
    entry.push_str(&format!("const v = Flags.{};\n", s.pick(&["A", "B", "C", "Z"])));
    let reads = ["typeof v", "typeof obj", "typeof Flags.A", "typeof Flags.B", "typeof obj.k", "typeof obj.j", "Flags", "Flags.C", "typeof Flags", "typeof d", "keyof typeof obj"];
    let n = s.range(1, 4);
    let ps: Vec<String> = (0..n).map(|i| format!("P{}: {}", i, s.pick(&reads))).collect();
    entry.push_str(&format!("parse.buildParsers<{{ {} }}>();\n", ps.join("; ")));
    vec![("entry.ts".to_string(), entry), ("e.ts".to_string(), lib)]
}

/// every kind of declaration (type, interface, constant, enum, function) exported under every export form (own name,
/// renamed, as default through a list, `export default`, `export *`, `export * as` - also of the file itself), and every
/// binding an importer can make of them read in every position: as a type, as a qualified type, through typeof, through
/// typeof of a member.  Most combinations are errors; none may crash.
fn export_kinds_by_use_positions(s: &mut Src) -> Vec<(String, String)> {
    const DECLS: [(&str, &str); 6] = [
        ("A", "type A = { a: string };"),
        ("I", "interface I { a: number }"),
        ("c1", "const c1 = { a: 1, A: 2 } as const;"),
        ("E", "enum E { M = \"m\", N = 1 }"),
        ("fnv", "function fnv() { return 1; }"),
        ("G", "type G<T> = { g: T };"),
    ];
    let mut a = String::new();
    for (_, d) in DECLS.iter() {
        if s.chance(5, 6) {
            a.push_str(d);
            a.push('\n');
        }
    }
    let names = ["A", "I", "c1", "E", "fnv", "G", "Missing"];
    for _ in 0..s.range(1, 4) {
        let x = *s.pick(&names);
        a.push_str(&match s.below(9) {
            0 => format!("export {{ {} as default }};\n", x),
            1 => format!("export default {};\n", x),
            2 => format!("export {{ {} }};\n", x),
            3 => format!("export {{ {} as {} }};\n", x, s.pick(&["Y", "A", "c1", "default"])),
            4 => "export * as self from \"./a\";\n".to_string(),
            5 => "export * as nsb from \"./b\";\n".to_string(),
            6 => "export * from \"./b\";\n".to_string(),
            7 => format!("export {{ {} as {} }} from \"./b\";\n", s.pick(&["default", "A", "c1", "Y"]), s.pick(&["default", "Y", "Z"])),
            _ => "export * from \"./a\";\n".to_string(),
        });
    }
    let mut b = String::new();
    b.push_str("export type A = { b: string };\nexport const c1 = { b: 1 } as const;\n");
    for _ in 0..s.range(0, 2) {
        b.push_str(&match s.below(5) {
            0 => "export * from \"./a\";\n".to_string(),
            1 => "export * as nsa from \"./a\";\n".to_string(),
            2 => format!("export default {};\n", s.pick(&["A", "c1", "1"])),
            3 => format!("export {{ {} as default }};\n", s.pick(&["A", "c1"])),
            _ => "export { default } from \"./a\";\n".to_string(),
        });
    }
    let mut entry = String::new();
    entry.push_str(*s.pick(&["import D from \"./a\";\n", "import { default as D } from \"./a\";\n", "import D from \"./b\";\n"]));
    entry.push_str(*s.pick(&["import * as ns from \"./a\";\n", "import * as ns from \"./b\";\n"]));
    entry.push_str("import { Y, Z } from \"./a\";\n");
    let heads = ["D", "ns", "ns.self", "ns.self.self", "ns.nsb", "ns.nsa", "ns.nsb.nsa", "Y", "Z", "ns.D", "ns.default"];
    let tails = ["", ".A", ".a", ".c1", ".E", ".E.M", ".I", ".G", ".default", ".Y"];
    let n = s.range(1, 4);
    let ps: Vec<String> = (0..n)
        .map(|i| {
            let h = *s.pick(&heads);
            let t = *s.pick(&tails);
            let use_ = match s.below(5) {
                0 | 1 => format!("typeof {}{}", h, t),
                2 => format!("{}{}", h, t),
                3 => format!("{}{}<string>", h, t),
                _ => format!("keyof typeof {}{}", h, t),
            };
            format!("P{}: {}", i, use_)
        })
        .collect();
    entry.push_str(&format!("parse.buildParsers<{{ {} }}>();\n", ps.join("; ")));
    vec![("entry.ts".to_string(), entry), ("a.ts".to_string(), a), ("b.ts".to_string(), b)]
}

/// mapped types whose body does something different for every key: a diagnostic that names the key, or a semantic
/// computation over recursive types (which numbers the helper types it introduces).  The result must not depend on the
/// order in which the keys happen to be visited.
pub fn mapped_type_per_key(s: &mut Src) -> Vec<(String, String)> {
    let mut keys: Vec<&str> = vec!["a", "b", "c", "d"];
    let n = s.range(2, 4);
    while keys.len() > n {
        let i = s.below(keys.len());
        keys.remove(i);
    }
    let r = s.below(keys.len());
    keys.rotate_left(r);
    let union = keys.iter().map(|k| format!("\"{}\"", k)).collect::<Vec<_>>().join(" | ");
    let mut out = String::new();
    out.push_str("type NodeA = { v: string; next: NodeA | null };\ntype NodeB = { l: NodeB | null; r: number };\ntype NodeC = [NodeC | null, boolean];\ntype NodeD = { [k: string]: NodeD } | null;\n");
    out.push_str("type Src = { a: NodeA | null; b: NodeB | null; c: NodeC | null; d: NodeD | string };\n");
    let body = match s.below(5) {
        0 => {
            // every key fails with its own message
            let mut t = String::from("never");
            for k in keys.iter().rev() {
                t = format!("K extends \"{}\" ? Missing_{} : {}", k, k, t);
            }
            t
        }
        1 => "Exclude<Src[K], null>".to_string(),
        2 => "Exclude<Src[K], null | string> | K".to_string(),
        3 => "{ k: K; v: Exclude<Src[K], null> }".to_string(),
        _ => "K extends \"a\" ? Exclude<Src[K], null> : Missing_other".to_string(),
    };
    out.push_str(&format!("type Keys = {};\ntype M = {{ [K in Keys]{}: {} }};\n", union, if s.chance(1, 4) { "?" } else { "" }, body));
    if s.chance(1, 3) {
        out.push_str(&format!("type M2 = {{ [K in {} | Keys]: Exclude<Src[K], null> }};\n", union));
        out.push_str("parse.buildParsers<{ P0: M; P1: M2 }>();\n");
    } else {
        out.push_str("parse.buildParsers<{ P0: M }>();\n");
    }
    vec![("entry.ts".to_string(), out)]
}

/// the same type name declared in several files of a directory grid (a/x.ts, a/y.ts, b/x.ts, b/y.ts), generic or not,
/// all reaching one buildParsers call: generated names have to stay distinct whatever the paths share
fn same_name_in_directories(s: &mut Src) -> Vec<(String, String)> {
    let grid = ["a/x", "a/y", "b/x", "b/y", "a/b/x", "x"];
    let n = s.range(2, grid.len());
    let mut picked: Vec<&str> = vec![];
    for g in grid {
        if picked.len() < n && s.chance(3, 4) {
            picked.push(g);
        }
    }
    while picked.len() < 2 {
        picked.push(grid[picked.len()]);
    }
    let name = *s.pick(&["Box", "A", "Item"]);
    let generic = s.chance(2, 3);
    let mut files = vec![];
    let mut entry = String::new();
    let mut ps = vec![];
    for (i, g) in picked.iter().enumerate() {
        let body = if generic {
            match s.below(3) {
                0 => format!("export type {}<T> = {{ v: T; tag: \"{}\" }};\n", name, g),
                1 => format!("export interface {}<T> {{ v: T; tag: \"{}\" }}\n", name, g),
                _ => format!("export type {}<T> = [T, \"{}\"];\n", name, g),
            }
        } else {
            format!("export type {} = {{ tag: \"{}\" }};\n", name, g)
        };
        files.push((format!("{}.ts", g), body));
        entry.push_str(&format!("import {{ {} as N{} }} from \"./{}\";\n", name, i, g));
        let arg = *s.pick(&["string", "string", "number", "N0<string>"]);
        ps.push(if generic { format!("P{}: N{}<{}>", i, i, arg) } else { format!("P{}: N{}", i, i) });
    }
    entry.push_str(&format!("parse.buildParsers<{{ {} }}>();\n", ps.join("; ")));
    let mut out = vec![("entry.ts".to_string(), entry)];
    out.extend(files);
    out
}

fn wild_file(s: &mut Src, others: &[&str], with_build: bool) -> String {
    let mut out = wild_imports(s, others);
    let n = s.range(0, 5);
    for _ in 0..n {
        let name = *s.pick(&NAMES);
        out.push_str(&wild_decl(s, name));
        out.push('\n');
    }
    if with_build {
        out.push_str(&wild_build(s));
        out.push('\n');
    }
    out
}

/// Rough text analysis: does some file declare type aliases that reach themselves without passing through an
/// object/array/tuple/generic constructor (`type T = T`, `type A = "x" | A`, `type A = B; type B = A | 1`)?
/// TypeScript rejects such programs; beff's alias-following helpers have no cycle guard (known finding).
pub fn has_unguarded_alias_cycle(p: &Project) -> bool {
    use std::collections::{BTreeMap, BTreeSet};
    for (_, text) in &p.files {
        let toks: Vec<String> = tokenize(text).into_iter().filter(|t| !t.trim().is_empty()).collect();
        let mut edges: BTreeMap<String, BTreeSet<String>> = BTreeMap::new();
        let mut i = 0;
        while i < toks.len() {
            if toks[i] == "type" && i + 2 < toks.len() && toks[i + 1].chars().next().map(|c| c.is_alphabetic() || c == '_' || c == '$').unwrap_or(false) {
                let name = toks[i + 1].clone();
                let mut j = i + 2;
                // skip type parameters
                if j < toks.len() && toks[j] == "<" {
                    let mut d = 0;
                    while j < toks.len() {
                        if toks[j] == "<" {
                            d += 1;
                        } else if toks[j] == ">" {
                            d -= 1;
                            if d == 0 {
                                j += 1;
                                break;
                            }
                        }
                        j += 1;
                    }
                }
                if j < toks.len() && toks[j] == "=" {
                    j += 1;
                    let mut depth = 0i32;
                    let mut prev = String::new();
                    // type arguments of utility types that look *through* their operand are transparent too
                    let mut angle_stack: Vec<bool> = vec![];
                    while j < toks.len() {
                        let t = &toks[j];
                        match t.as_str() {
                            // parentheses are transparent: `(T) & X` is still unguarded
                            "(" | ")" => {}
                            "<" => {
                                let transparent = matches!(prev.as_str(), "Readonly" | "Partial" | "Required" | "Pick" | "Omit" | "Exclude" | "Record");
                                angle_stack.push(transparent);
                                if !transparent {
                                    depth += 1;
                                }
                            }
                            ">" => {
                                if !angle_stack.pop().unwrap_or(false) {
                                    depth -= 1;
                                }
                            }
                            "{" | "[" => depth += 1,
                            "}" | "]" => depth -= 1,
                            ";" if depth <= 0 => break,
                            _ => {}
                        }
                        if depth < 0 {
                            break;
                        }
                        if depth == 0 && (t == "type" || t == "interface" || t == "parse" || t == "const" || t == "enum" || t == "export" || t == "declare" || t == "class" || t == "function" || t == "import") {
                            break;
                        }
                        if depth == 0 && t.chars().next().map(|c| c.is_alphabetic() || c == '_' || c == '$').unwrap_or(false) && prev != "." && prev != "typeof" && prev != "keyof" {
                            // an identifier followed by `<` or `[` is a constructor application: guarded
                            let next = toks.get(j + 1).map(|x| x.as_str()).unwrap_or("");
                            let utility = matches!(t.as_str(), "Readonly" | "Partial" | "Required" | "Pick" | "Omit" | "Exclude" | "Record" | "keyof" | "readonly" | "extends" | "infer");
                            // `name:` is a parameter/member name only right after `(`, `,` or `...`; after `?` it is the
                            // true branch of a conditional type
                            let is_label = next == ":" && matches!(prev.as_str(), "(" | "," | "..." | "{" | ";" | "readonly");
                            // `T[]` is the array constructor (guarded); `T["k"]` is an indexed access (transparent)
                            let is_array = next == "[" && toks.get(j + 2).map(|x| x == "]").unwrap_or(false);
                            if !utility && !is_label && !is_array && next != "<" && next != "." && next != "=>" {
                                edges.entry(name.clone()).or_default().insert(t.clone());
                            }
                        }
                        prev = t.clone();
                        j += 1;
                    }
                }
                i = j;
            } else if toks[i] == "interface" && i + 2 < toks.len() && toks[i + 1].chars().next().map(|c| c.is_alphabetic() || c == '_' || c == '$').unwrap_or(false) {
                // `interface B extends B, C {}`: the extends clause is followed without a guard as well
                let name = toks[i + 1].clone();
                let mut j = i + 2;
                let mut in_extends = false;
                let mut angle = 0i32;
                while j < toks.len() && toks[j] != "{" && toks[j] != ";" {
                    match toks[j].as_str() {
                        "extends" => in_extends = true,
                        "<" => angle += 1,
                        ">" => angle -= 1,
                        t if in_extends && angle == 0 && t.chars().next().map(|c| c.is_alphabetic() || c == '_' || c == '$').unwrap_or(false) => {
                            edges.entry(name.clone()).or_default().insert(t.to_string());
                        }
                        _ => {}
                    }
                    j += 1;
                }
                i = j;
            } else {
                i += 1;
            }
        }
        // cycle detection
        for start in edges.keys() {
            let mut stack = vec![start.clone()];
            let mut seen: BTreeSet<String> = BTreeSet::new();
            while let Some(n) = stack.pop() {
                for m in edges.get(&n).into_iter().flatten() {
                    if m == start {
                        return true;
                    }
                    if seen.insert(m.clone()) {
                        stack.push(m.clone());
                    }
                }
            }
        }
    }
    false
}

#[derive(Debug, Clone, Serialize, Deserialize)]
pub struct C04Case {
    pub project: Project,
    pub kind: String,
}

pub struct C04;

pub fn validate_diag_locations(p: &Project, out: &CompileOut, unparseable: &dyn Fn(&str) -> bool) -> Vec<String> {
    let mut problems = vec![];
    for d in &out.diags {
        let file = p.files.iter().find(|(n, _)| *n == d.file);
        let (name, content) = match file {
            Some(f) => f,
            None => {
                // a diagnostic about a file that is not part of the project is acceptable only for the
                // (possibly missing) entry point itself
                if d.file != p.entry {
                    problems.push(format!("diagnostic names {:?}, which is not a file of the project", d.file));
                }
                continue;
            }
        };
        if !d.full {
            if !unparseable(name) {
                problems.push(format!("diagnostic without a location for {:?}, a file that exists and parses: {}", name, d.message));
            }
            continue;
        }
        let lines: Vec<&str> = content.split('\n').collect();
        let nlines = lines.len();
        if !(1 <= d.line_lo && d.line_lo <= d.line_hi && d.line_hi <= nlines) {
            problems.push(format!("diagnostic line range {}..{} outside {:?} ({} lines)", d.line_lo, d.line_hi, name, nlines));
            continue;
        }
        let len_lo = lines[d.line_lo - 1].chars().count();
        let len_hi = lines[d.line_hi - 1].chars().count();
        if d.col_lo > len_lo || d.col_hi > len_hi {
            problems.push(format!("diagnostic column {}/{} beyond its line ({} / {} chars) in {:?}", d.col_lo, d.col_hi, len_lo, len_hi, name));
        }
        if d.line_lo == d.line_hi && d.col_lo > d.col_hi {
            problems.push(format!("diagnostic range is reversed: col {} > {}", d.col_lo, d.col_hi));
        }
    }
    problems
}

impl C04 {
    pub fn gen_case(&self, s: &mut Src) -> C04Case {
        let corp = corpus();
        let sf: Vec<String> = match s.below(3) {
            0 => vec![],
            1 => vec!["lower".into()],
            _ => crate::den::STRING_FORMATS.iter().map(|x| x.to_string()).chain(["password".to_string(), "User".to_string()]).collect(),
        };
        let nf: Vec<String> = match s.below(3) {
            0 => vec![],
            1 => vec!["int".into()],
            _ => crate::den::NUMBER_FORMATS.iter().map(|x| x.to_string()).chain(["age".to_string()]).collect(),
        };
        let kind = s.weighted(&[4, 4, 2, 3, 1, 4, 2, 1, 3, 1]);
        let (files, kind_name): (Vec<(String, String)>, &str) = match kind {
            0 => (vec![("entry.ts".to_string(), wild_file(s, &["a", "b", "missing"], true))], "wild_single"),
            1 if !corp.is_empty() => {
                let a = &corp[s.below(corp.len())];
                let b = &corp[s.below(corp.len())];
                (vec![("entry.ts".to_string(), mutate_tokens(a, b, s))], "corpus_token_mutation")
            }
            2 if !corp.is_empty() => {
                let a = &corp[s.below(corp.len())];
                (vec![("entry.ts".to_string(), mutate_bytes(a, s))], "corpus_byte_mutation")
            }
            3 => {
                let mut files = vec![("entry.ts".to_string(), wild_file(s, &["a", "b", "missing", "entry"], true))];
                let ext_a = *s.pick(&["a.ts", "a.ts", "a.d.ts", "a.tsx", "a/index.ts"]);
                files.push((ext_a.to_string(), wild_file(s, &["b", "entry", "a", "missing"], false)));
                if s.chance(2, 3) {
                    files.push(("b.ts".to_string(), wild_file(s, &["a", "entry", "b"], false)));
                }
                (files, "wild_multi")
            }
            5 => (vec![("entry.ts".to_string(), sem_file(s))], "semantic_operators"),
            6 => (cross_module_values(s), "cross_module_values"),
            7 => (same_name_in_directories(s), "same_name_in_directories"),
            8 => (export_kinds_by_use_positions(s), "export_kinds_by_use_positions"),
            9 => (mapped_type_per_key(s), "mapped_type_per_key"),
            _ => {
                let txt = if corp.is_empty() { String::new() } else { corp[s.below(corp.len())].clone() };
                (vec![("entry.ts".to_string(), txt)], "corpus_verbatim")
            }
        };
        let entry = if s.chance(1, 40) { "nofile.ts".to_string() } else { "entry.ts".to_string() };
        C04Case { project: Project { files, entry, string_formats: sf, number_formats: nf }, kind: kind_name.to_string() }
    }
}

impl Check for C04 {
    fn fuzz_runs(&self) -> u64 {
        60000
    }
    fn id(&self) -> &'static str {
        "C04"
    }
    fn cases(&self, tier: Tier) -> u32 {
        match tier {
            Tier::Quick => 24_000,
            Tier::Thorough => 600_000,
        }
    }
    fn stream_len(&self) -> usize {
        1200
    }
    fn rule(&self) -> String {
        "inputs: (1) a grammar over the whole TypeScript type syntax and the value expressions typeof can reach, supported or not (function/constructor types, infer, this, unique symbol, optional/named tuple members, accessors, method/call/construct signatures, enums without initialisers or with string member names, namespaces, classes, wrong generic arities, unknown names, two default exports, several buildParsers shapes); (2) token-level and byte-level mutations and splices of the repository's own test corpus (r#\"...\"# programs of packages/beff-core/tests/*.rs and e2e-tests/*/src/*.ts, extracted at run time); (3) 2-3 file projects with missing files, import cycles, export-star cycles, .d.ts/.tsx/index.ts; (4) random format settings. Oracle: the compile subprocess answers within 10 s (re-run alone with 60 s before a hang is called), no panic/abort; errors.is_empty() <=> emit_code() is Ok; every diagnostic names a project file and, when the file parses, carries a line/column range inside it; every success imports in Node against the client runtime and buildParsers yields a parser for each requested name. Non-trivial = the entry parses as a module and reaches the frontend (a buildParsers<...> call with type arguments) or the project has >=2 files. Distinct = hash(project).".into()
    }
    fn assumptions(&self) -> Vec<String> {
        vec![
            "termination is judged with a wall-clock bound (10 s, then 60 s alone; typical case 5 ms)".into(),
            "the compile worker runs with a 16 MiB stack (the shipped wasm artefact has less)".into(),
            "a diagnostic without location is accepted only for a file that is missing or does not parse".into(),
        ]
    }
    fn health(&self) -> Vec<(&'static str, f64)> {
        vec![("reached_frontend", 0.3), ("success", 0.03), ("diagnostics", 0.2)]
    }
    fn generate(&self, s: &mut Src, _tier: Tier) -> Value {
        serde_json::to_value(self.gen_case(s)).unwrap()
    }
    fn exec(&self, case: &Value, ctx: &mut Ctx) -> Outcome {
        let case: C04Case = match serde_json::from_value(case.clone()) {
            Ok(c) => c,
            Err(e) => return Outcome::infra(format!("bad case: {}", e)),
        };
        let mut out = Outcome::default();
        out.evals = 1;
        out.label(format!("kind:{}", case.kind));
        let detail = json!({"project": case.project});
        if !ctx.strict && has_unguarded_alias_cycle(&case.project) {
            // known finding (alias-cycle-crash / alias-cycle-hang): each such input costs a process restart or
            // a 70 s wait, so they are excluded by construction and the witnesses are replayed instead
            out.excluded.push(("unguarded_alias_cycle".to_string(), 1));
            out.label("excluded_alias_cycle");
            return out;
        }
        let first_bound = if ctx.shrinking { 3 } else if ctx.strict { 5 } else { 10 };
        let res = match ctx.compiler.compile(&case.project, first_bound) {
            Err(CompileFail::Timeout) => {
                if ctx.shrinking {
                    // candidates of an already confirmed hang: the short bound is enough to steer the shrinker
                    let sig = if has_unguarded_alias_cycle(&case.project) { "compile_hang:unguarded_alias_cycle" } else { "compile_hang" };
                    out.mismatch(ctx, sig, "compilation did not terminate (short bound while shrinking)", detail);
                    return out;
                }
                // termination is this property's subject: re-run alone with a generous bound
                match ctx.compiler.compile(&case.project, if ctx.strict { 15 } else { 60 }) {
                    Err(CompileFail::Timeout) => {
                        let sig = if has_unguarded_alias_cycle(&case.project) { "compile_hang:unguarded_alias_cycle" } else { "compile_hang" };
                        out.mismatch(ctx, sig, "compilation did not terminate within 60 s", detail);
                        return out;
                    }
                    other => other,
                }
            }
            other => other,
        };
        let c = match res {
            Ok(c) => c,
            Err(CompileFail::Crashed(st)) => {
                let sig = if has_unguarded_alias_cycle(&case.project) { "compile_crash:unguarded_alias_cycle" } else { "compile_crash" };
                out.mismatch(ctx, sig, format!("compiler process died ({}): stack overflow or abort", st), detail);
                return out;
            }
            Err(CompileFail::Timeout) => unreachable!(),
            Err(CompileFail::Infra(e)) => return Outcome::infra(e),
        };
        if let Some(p) = &c.panic {
            let site = crate::c01::panic_site(p);
            out.mismatch(ctx, &format!("panic:{}", site), format!("compiler panicked: {}", p), json!({"project": case.project, "panic": p}));
            return out;
        }
        let entry_text = case.project.files.iter().find(|(n, _)| *n == case.project.entry).map(|(_, t)| t.as_str()).unwrap_or("");
        let reached = entry_text.contains("buildParsers<") && (!c.diags.is_empty() || c.code.is_some());
        if reached {
            out.label("reached_frontend");
        }
        if reached || case.project.files.len() >= 2 {
            out.nontrivial = Some(fp(&serde_json::to_string(&case.project).unwrap()));
            out.sample = Some(json!({"kind": case.kind, "project": case.project, "diagnostics": c.diags.iter().map(|d| d.message.clone()).collect::<Vec<_>>(), "emitted": c.code.is_some()}));
        }
        // code or at least one diagnostic
        if c.diags.is_empty() && c.code.is_none() {
            out.mismatch(ctx, "neither_code_nor_diagnostic", format!("no diagnostics but emit_code failed: {:?}", c.emit_err), detail.clone());
            return out;
        }
        if !c.diags.is_empty() {
            out.label("diagnostics");
            // which project files do not parse on their own? (compile each alone: a parse failure shows as
            // 'cannot find file' without location)
            let mut bad_files: Vec<String> = vec![];
            for d in c.diags.iter().filter(|d| !d.full) {
                let text = case.project.files.iter().find(|(n, _)| *n == d.file).map(|(_, t)| t.clone());
                match text {
                    None => bad_files.push(d.file.clone()),
                    Some(t) => {
                        let probe = Project { files: vec![(d.file.clone(), t)], entry: d.file.clone(), string_formats: vec![], number_formats: vec![] };
                        match ctx.compiler.compile(&probe, 20) {
                            Ok(r) => {
                                if r.diags.iter().any(|x| !x.full && x.message.to_lowercase().contains("find file")) {
                                    bad_files.push(d.file.clone());
                                }
                            }
                            Err(CompileFail::Infra(e)) => return Outcome::infra(e),
                            Err(_) => {}
                        }
                    }
                }
            }
            let unparseable = |name: &str| -> bool { bad_files.iter().any(|b| b == name) };
            for p in validate_diag_locations(&case.project, &c, &unparseable) {
                let sig = if p.contains("not a file of the project") {
                    "diag_foreign_file"
                } else if p.contains("without a location") {
                    "diag_without_location"
                } else {
                    "diag_range_outside_file"
                };
                out.mismatch(ctx, sig, p, json!({"project": case.project, "diagnostics": c.diags}));
            }
            return out;
        }
        out.label("success");
        let code = c.code.clone().unwrap();
        let req = json!({"op":"case","code":code,"queries":[],"stringFormats":case.project.string_formats,"numberFormats":case.project.number_formats});
        let resp = match ctx.node(req) {
            Ok(r) => r,
            Err(e) => return Outcome::infra(e.to_string()),
        };
        if let Some(le) = resp.get("loadError") {
            let msg = le["message"].as_str().unwrap_or("").to_string();
            // a format the settings require but this harness has no implementation for is not a load failure of the module
            if msg.starts_with("Missing custom format") {
                out.label("format_impl_missing_skipped");
                return out;
            }
            out.mismatch(ctx, &format!("load_error:{}", crate::c01::diag_class(&msg)), format!("successful compilation, but the module does not load against the client runtime: {}", msg), json!({"project": case.project, "code": code, "loadError": le}));
            return out;
        }
        let got: Vec<String> = resp["parsers"].as_array().map(|a| a.iter().filter_map(|x| x.as_str().map(|s| s.to_string())).collect()).unwrap_or_default();
        let mut want = c.decoder_names.clone();
        want.sort();
        want.dedup();
        let mut got_sorted = got.clone();
        got_sorted.sort();
        if want != got_sorted {
            out.mismatch(ctx, "parsers_missing", format!("requested parsers {:?} but the module built {:?}", want, got_sorted), json!({"project": case.project, "code": code}));
        }
        out
    }
}
