//! Bridge to beff-core's semantic subtyping engine (public API only) plus the independent evaluators used as
//! oracles: `sem_member` (value in SemType, over the engine's own atom tables) and `rt_member` (value in a
//! materialised Runtype).  Everything that calls the engine runs inside the subprocess worker, because the
//! engine may loop or overflow its stack on exactly the inputs we are looking for.
use crate::den::{D, Env, TYPED_ARRAYS};
use crate::jsval::{num_value, JsVal};
use beff_core::ast::json::N;
use beff_core::ast::runtype::{
    IndexedProperty, Optionality, Runtype, RuntypeConst, RuntypeKind, TplLitType, TplLitTypeItem, TypedArrayKind,
};
use beff_core::subtyping::bdd::{Atom, Bdd};
use beff_core::subtyping::semtype::{SemType, SemTypeContext, SemTypeOps};
use beff_core::subtyping::subtype::{NumberRepresentationOrFormat, ProperSubtype, StringLitOrFormat, SubTypeTag, VoidUndefinedSubtype};
use beff_core::subtyping::to_schema::semtype_to_runtypes;
use beff_core::subtyping::ToSemType;
use beff_core::{BffFileName, NamedSchema, RuntypeName, RuntypeUUID, TypeAddress};
use serde_json::{json, Value};
use std::collections::BTreeMap;
use std::rc::Rc;

pub fn uuid_of(name: &str) -> RuntypeUUID {
    RuntypeUUID {
        ty: RuntypeName::Address(TypeAddress { file: BffFileName::new("entry.ts".to_string()), name: name.to_string() }),
        type_arguments: vec![],
    }
}

pub fn typed_array_kind(i: usize) -> TypedArrayKind {
    TypedArrayKind::all()[i % 11]
}

pub fn to_runtype(env: &Env, d: &D) -> Runtype {
    match d {
        D::Never => Runtype::never(),
        D::Any => Runtype::any(),
        D::Null => Runtype::null(),
        D::Undefined => Runtype::undefined(),
        D::Void => Runtype::void(),
        D::Bool => Runtype::boolean(),
        D::BoolLit(b) => Runtype::const_(RuntypeConst::Bool(*b)),
        D::Num => Runtype::number(),
        D::NumLit(n) => Runtype::const_(RuntypeConst::parse_f64(n.parse::<f64>().unwrap_or(0.0))),
        D::Str => Runtype::string(),
        D::StrLit(s) => Runtype::single_string_const(s),
        D::Tpl(_) | D::StrFmt(_) | D::NumFmt(_) => Runtype::string(), // outside the format-free fragment (not generated)
        D::BigInt => Runtype::bigint(),
        D::Date => Runtype::date(),
        D::TypedArray(k) => Runtype::typed_array(typed_array_kind(*k)),
        D::Array(x) => Runtype::array(Box::new(to_runtype(env, x))),
        D::Tuple(p, r) => Runtype::tuple(p.iter().map(|x| to_runtype(env, x)).collect(), r.as_ref().map(|x| Box::new(to_runtype(env, x)))),
        D::Object { props, index } => {
            let vs: BTreeMap<String, Optionality<Runtype>> = props
                .iter()
                .map(|p| {
                    let t = to_runtype(env, &p.ty);
                    (p.key.clone(), if p.optional { t.optional() } else { t.required() })
                })
                .collect();
            Runtype::new(RuntypeKind::Object {
                vs,
                indexed_properties: index.as_ref().map(|ix| Box::new(IndexedProperty { key: Runtype::string(), value: to_runtype(env, ix).required() })),
            })
        }
        D::Map(k, v) => Runtype::map(Box::new(to_runtype(env, k)), Box::new(to_runtype(env, v))),
        D::Set(x) => Runtype::set(Box::new(to_runtype(env, x))),
        D::Union(ms) => Runtype::any_of(ms.iter().map(|m| to_runtype(env, m)).collect()),
        D::Inter(ms) => Runtype::all_of(ms.iter().map(|m| to_runtype(env, m)).collect()),
        D::Ref(i) => Runtype::ref_(uuid_of(&env.defs[*i].0)),
    }
}

pub fn named_schemas(env: &Env) -> Vec<NamedSchema> {
    env.defs.iter().map(|(n, d)| NamedSchema { name: uuid_of(n), schema: to_runtype(env, d) }).collect()
}

// ------------------------------------------------------------------------------------------------
// independent membership in a semantic type
// ------------------------------------------------------------------------------------------------

/// how record atoms treat keys they do not mention
#[derive(Clone, Copy, PartialEq, Eq, Debug)]
pub enum Reading {
    Open,
    Exact,
    /// the engine's own reading: record atoms are exact where they occur positively and open where they occur
    /// under a negation ("every exact value of the first type is a value of the second read structurally")
    Polar,
}

fn tag_of(v: &JsVal) -> Option<SubTypeTag> {
    Some(match v {
        JsVal::Bool(_) => SubTypeTag::Boolean,
        JsVal::Num(_) => SubTypeTag::Number,
        JsVal::Str(_) => SubTypeTag::String,
        JsVal::Null => SubTypeTag::Null,
        JsVal::Undef => SubTypeTag::VoidUndefined,
        JsVal::Obj(_, _) => SubTypeTag::Mapping,
        JsVal::Arr(_) => SubTypeTag::List,
        JsVal::BigInt(_) => SubTypeTag::BigInt,
        JsVal::Date(_) => SubTypeTag::Date,
        JsVal::TypedArr(_, _) => SubTypeTag::TypedArray,
        JsVal::Map(_) => SubTypeTag::Map,
        JsVal::Set(_) => SubTypeTag::Set,
        _ => return None,
    })
}

fn proper_tag(p: &ProperSubtype) -> SubTypeTag {
    match p {
        ProperSubtype::Boolean(_) => SubTypeTag::Boolean,
        ProperSubtype::Number { .. } => SubTypeTag::Number,
        ProperSubtype::String { .. } => SubTypeTag::String,
        ProperSubtype::Mapping(_) => SubTypeTag::Mapping,
        ProperSubtype::List(_) => SubTypeTag::List,
        ProperSubtype::VoidUndefined { .. } => SubTypeTag::VoidUndefined,
        ProperSubtype::TypedArray { .. } => SubTypeTag::TypedArray,
        ProperSubtype::Map(_) => SubTypeTag::Map,
        ProperSubtype::Set(_) => SubTypeTag::Set,
    }
}

pub struct SemEval<'a> {
    pub ctx: &'a SemTypeContext,
    pub reading: Reading,
    pub fuel: std::cell::Cell<usize>,
    /// the "absent optional property" tag read as the value `undefined` (right for a type that left its record through
    /// T["k"]; wrong for the set operations themselves, where it would hide a universe that lost `undefined`)
    pub optional_reads_undefined: bool,
}

impl<'a> SemEval<'a> {
    pub fn new(ctx: &'a SemTypeContext, reading: Reading) -> Self {
        SemEval { ctx, reading, fuel: std::cell::Cell::new(20_000), optional_reads_undefined: false }
    }

    /// None = cannot be decided by this evaluator (value kind outside the fragment, fuel exhausted)
    pub fn member(&self, s: &SemType, v: &JsVal) -> Option<bool> {
        self.member_p(s, v, true)
    }

    fn exact_here(&self, pol: bool) -> bool {
        match self.reading {
            Reading::Open => false,
            Reading::Exact => true,
            Reading::Polar => pol,
        }
    }

    pub fn member_p(&self, s: &SemType, v: &JsVal, pol: bool) -> Option<bool> {
        if self.fuel.get() == 0 {
            return None;
        }
        self.fuel.set(self.fuel.get() - 1);
        let tag = tag_of(v)?;
        if s.all & tag.code() != 0 {
            return Some(true);
        }
        // the "absent optional property" tag reads as `undefined` once it leaves its record (T["k"] for k?: ...)
        if self.optional_reads_undefined && matches!(v, JsVal::Undef) && s.all & SubTypeTag::OptionalProp.code() != 0 {
            return Some(true);
        }
        for p in &s.subtype_data {
            if proper_tag(p) != tag {
                continue;
            }
            return match (&**p, v) {
                (ProperSubtype::Boolean(b), JsVal::Bool(x)) => Some(b == x),
                (ProperSubtype::Number { allowed, values }, JsVal::Num(x)) => {
                    let f = num_value(x);
                    let mut any = false;
                    for val in values {
                        match val {
                            NumberRepresentationOrFormat::Lit(n) => {
                                if n.to_f64() == f {
                                    any = true;
                                }
                            }
                            NumberRepresentationOrFormat::Format(_) => return None,
                        }
                    }
                    Some(if *allowed { any } else { !any })
                }
                (ProperSubtype::String { allowed, values }, JsVal::Str(x)) => {
                    let mut any = false;
                    for val in values {
                        match val {
                            StringLitOrFormat::Tpl(TplLitType(items)) => match items.as_slice() {
                                [TplLitTypeItem::StringConst(c)] => {
                                    if c == x {
                                        any = true;
                                    }
                                }
                                _ => return None,
                            },
                            StringLitOrFormat::Format(_) => return None,
                        }
                    }
                    Some(if *allowed { any } else { !any })
                }
                (ProperSubtype::VoidUndefined { .. }, JsVal::Undef) => {
                    // `void` is not a set of values in TypeScript (void and undefined are kept apart although both
                    // are inhabited only by `undefined`): a partially present void/undefined tag is not a
                    // value-level question, the evaluator does not decide it
                    None
                }
                (ProperSubtype::TypedArray { allowed, values }, JsVal::TypedArr(k, _)) => {
                    let any = values.iter().any(|x| *x == typed_array_kind(*k));
                    Some(if *allowed { any } else { !any })
                }
                (ProperSubtype::Mapping(bdd), JsVal::Obj(_, _)) => {
                    if self.reading == Reading::Polar && pol {
                        self.bdd_paths(bdd, v, &mut vec![], &mut vec![], 0)
                    } else {
                        self.bdd(bdd, v, 0, pol)
                    }
                }
                (ProperSubtype::List(bdd), JsVal::Arr(_)) => self.bdd(bdd, v, 0, pol),
                (ProperSubtype::Map(bdd), JsVal::Map(_)) => self.bdd(bdd, v, 0, pol),
                (ProperSubtype::Set(bdd), JsVal::Set(_)) => self.bdd(bdd, v, 0, pol),
                _ => None,
            };
        }
        Some(false)
    }

    fn bdd(&self, b: &Bdd, v: &JsVal, depth: usize, pol: bool) -> Option<bool> {
        if depth > 200 {
            return None;
        }
        match b {
            Bdd::True => Some(true),
            Bdd::False => Some(false),
            Bdd::Node { atom, left, middle, right } => {
                // (atom AND left) OR middle OR (NOT atom AND right)
                if self.bdd(middle, v, depth + 1, pol)? {
                    return Some(true);
                }
                // positive occurrence: membership under the current polarity; negated occurrence: under the flipped one
                if self.atom(atom, v, pol)? && self.bdd(left, v, depth + 1, pol)? {
                    return Some(true);
                }
                if !self.atom(atom, v, !pol)? && self.bdd(right, v, depth + 1, pol)? {
                    return Some(true);
                }
                Some(false)
            }
        }
    }

    /// Polar reading of a record diagram: every path is a conjunction of positive and negated atoms; the value
    /// must satisfy the positive atoms, carry no key beyond what they declare *together* (exactness is a property
    /// of the merged record, as in the engine's intersect_mapping), and fail every negated atom read openly.
    fn bdd_paths(&self, b: &Bdd, v: &JsVal, pos: &mut Vec<Atom>, neg: &mut Vec<Atom>, depth: usize) -> Option<bool> {
        if depth > 200 {
            return None;
        }
        match b {
            Bdd::False => Some(false),
            Bdd::True => self.conj(pos, neg, v),
            Bdd::Node { atom, left, middle, right } => {
                if self.bdd_paths(middle, v, pos, neg, depth + 1)? {
                    return Some(true);
                }
                pos.push(*atom);
                let l = self.bdd_paths(left, v, pos, neg, depth + 1);
                pos.pop();
                if l? {
                    return Some(true);
                }
                neg.push(*atom);
                let r = self.bdd_paths(right, v, pos, neg, depth + 1);
                neg.pop();
                r
            }
        }
    }

    fn conj(&self, pos: &[Atom], neg: &[Atom], v: &JsVal) -> Option<bool> {
        let kv = match v {
            JsVal::Obj(kv, _) => kv,
            _ => return None,
        };
        // positive atoms: constraints hold (open on keys, nested types positive)
        let open_positive = SemEval { ctx: self.ctx, reading: Reading::Polar, fuel: std::cell::Cell::new(self.fuel.get()), optional_reads_undefined: self.optional_reads_undefined };
        for p in pos {
            if !open_positive.atom_with(p, v, true, false)? {
                return Some(false);
            }
        }
        // exactness of the merged record
        if !pos.is_empty() {
            for (k, _) in kv {
                let mut admitted = false;
                for p in pos {
                    if let Atom::Mapping(i) = p {
                        let m = self.ctx.mapping_definitions.get(*i)?.as_ref()?.clone();
                        if m.vs.contains_key(k) {
                            admitted = true;
                        } else if let Some(ip) = &m.indexed_properties {
                            if self.member_p(&ip.key, &JsVal::Str(k.clone()), true)? {
                                admitted = true;
                            }
                        }
                    }
                }
                if !admitted {
                    return Some(false);
                }
            }
        }
        for n in neg {
            if self.atom(n, v, false)? {
                return Some(false);
            }
        }
        Some(true)
    }

    fn atom(&self, a: &Atom, v: &JsVal, pol: bool) -> Option<bool> {
        let exact = self.exact_here(pol);
        self.atom_with(a, v, pol, exact)
    }

    fn atom_with(&self, a: &Atom, v: &JsVal, pol: bool, exact: bool) -> Option<bool> {
        match (a, v) {
            (Atom::Mapping(i), JsVal::Obj(kv, _)) => {
                let m = self.ctx.mapping_definitions.get(*i)?.as_ref()?.clone();
                for (k, t) in &m.vs {
                    match kv.iter().find(|(x, _)| x == k) {
                        Some((_, x)) => {
                            // an explicit `undefined` is not part of the engine's value universe for properties
                            if matches!(x, JsVal::Undef) {
                                if !t.has_optional() && !self.member_p(t, x, pol)? {
                                    return Some(false);
                                }
                            } else if !self.member_p(t, x, pol)? {
                                return Some(false);
                            }
                        }
                        None => {
                            if !t.has_optional() {
                                return Some(false);
                            }
                        }
                    }
                }
                for (k, x) in kv {
                    if m.vs.contains_key(k) {
                        continue;
                    }
                    match &m.indexed_properties {
                        Some(ip) => {
                            let key_ok = self.member_p(&ip.key, &JsVal::Str(k.clone()), pol)?;
                            if key_ok {
                                if !self.member_p(&ip.value, x, pol)? {
                                    return Some(false);
                                }
                            } else if exact {
                                return Some(false);
                            }
                        }
                        None => {
                            if exact {
                                return Some(false);
                            }
                        }
                    }
                }
                Some(true)
            }
            (Atom::List(i), JsVal::Arr(xs)) => {
                let l = self.ctx.list_definitions.get(*i)?.as_ref()?.clone();
                if xs.len() < l.prefix_items.len() {
                    return Some(false);
                }
                for (p, x) in l.prefix_items.iter().zip(xs.iter()) {
                    if !self.member_p(p, x, pol)? {
                        return Some(false);
                    }
                }
                for x in &xs[l.prefix_items.len()..] {
                    if !self.member_p(&l.items, x, pol)? {
                        return Some(false);
                    }
                }
                Some(true)
            }
            (Atom::Map(i), JsVal::Map(kv)) => {
                let m = self.ctx.map_definitions.get(*i)?.as_ref()?.clone();
                let ip = m.indexed_properties.as_ref()?;
                for (k, x) in kv {
                    if !self.member_p(&ip.key, k, pol)? || !self.member_p(&ip.value, x, pol)? {
                        return Some(false);
                    }
                }
                Some(true)
            }
            (Atom::Set(i), JsVal::Set(xs)) => {
                let l = self.ctx.set_definitions.get(*i)?.as_ref()?.clone();
                for x in xs {
                    if !self.member_p(&l.items, x, pol)? {
                        return Some(false);
                    }
                }
                Some(true)
            }
            // an atom of another kind than the value: the diagram for this tag only contains atoms of its kind
            _ => Some(false),
        }
    }
}

// ------------------------------------------------------------------------------------------------
// independent membership in a materialised Runtype (incl. StNot / AllOf / AnyOf)
// ------------------------------------------------------------------------------------------------
pub struct RtEval<'a> {
    pub defs: &'a [NamedSchema],
    pub reading: Reading,
    pub fuel: std::cell::Cell<usize>,
}

impl<'a> RtEval<'a> {
    pub fn new(defs: &'a [NamedSchema], reading: Reading) -> Self {
        RtEval { defs, reading, fuel: std::cell::Cell::new(20_000) }
    }
    pub fn member(&self, t: &Runtype, v: &JsVal) -> Option<bool> {
        self.member_p(t, v, true)
    }
    fn exact_here(&self, pol: bool) -> bool {
        match self.reading {
            Reading::Open => false,
            Reading::Exact => true,
            Reading::Polar => pol,
        }
    }
    pub fn member_p(&self, t: &Runtype, v: &JsVal, pol: bool) -> Option<bool> {
        if self.fuel.get() == 0 {
            return None;
        }
        self.fuel.set(self.fuel.get() - 1);
        let exact = self.exact_here(pol);
        // only the value kinds of the semantic universe
        tag_of(v)?;
        Some(match &t.kind {
            RuntypeKind::Never => false,
            RuntypeKind::Any => true,
            RuntypeKind::Null => matches!(v, JsVal::Null),
            RuntypeKind::Undefined | RuntypeKind::Void => matches!(v, JsVal::Undef),
            RuntypeKind::Boolean => matches!(v, JsVal::Bool(_)),
            RuntypeKind::String => matches!(v, JsVal::Str(_)),
            RuntypeKind::Number => matches!(v, JsVal::Num(_)),
            RuntypeKind::Const(RuntypeConst::Bool(b)) => matches!(v, JsVal::Bool(x) if x == b),
            RuntypeKind::Const(RuntypeConst::Number(n)) => matches!(v, JsVal::Num(x) if num_value(x) == n.to_f64()),
            RuntypeKind::TplLitType(TplLitType(items)) => match items.as_slice() {
                [TplLitTypeItem::StringConst(c)] => matches!(v, JsVal::Str(x) if x == c),
                _ => return None,
            },
            RuntypeKind::StringWithFormat(_) | RuntypeKind::NumberWithFormat(_) | RuntypeKind::Function => return None,
            RuntypeKind::AnyArrayLike => matches!(v, JsVal::Arr(_)),
            RuntypeKind::Date => matches!(v, JsVal::Date(_)),
            RuntypeKind::BigInt => matches!(v, JsVal::BigInt(_)),
            RuntypeKind::TypedArray(k) => matches!(v, JsVal::TypedArr(x, _) if typed_array_kind(*x) == *k),
            RuntypeKind::Array(item) => match v {
                JsVal::Arr(xs) => {
                    for x in xs {
                        if !self.member_p(item, x, pol)? {
                            return Some(false);
                        }
                    }
                    true
                }
                _ => false,
            },
            RuntypeKind::Tuple { prefix_items, items } => match v {
                JsVal::Arr(xs) => {
                    if xs.len() < prefix_items.len() {
                        return Some(false);
                    }
                    for (p, x) in prefix_items.iter().zip(xs.iter()) {
                        if !self.member_p(p, x, pol)? {
                            return Some(false);
                        }
                    }
                    match items {
                        None => xs.len() == prefix_items.len(),
                        Some(r) => {
                            for x in &xs[prefix_items.len()..] {
                                if !self.member_p(r, x, pol)? {
                                    return Some(false);
                                }
                            }
                            true
                        }
                    }
                }
                _ => false,
            },
            RuntypeKind::Object { vs, indexed_properties } => match v {
                JsVal::Obj(kv, _) => {
                    for (k, t) in vs {
                        match kv.iter().find(|(x, _)| x == k) {
                            Some((_, x)) => {
                                if matches!(x, JsVal::Undef) && !t.is_required() {
                                    continue;
                                }
                                if !self.member_p(t.inner(), x, pol)? {
                                    return Some(false);
                                }
                            }
                            None => {
                                if t.is_required() {
                                    return Some(false);
                                }
                            }
                        }
                    }
                    for (k, x) in kv {
                        if vs.contains_key(k) {
                            continue;
                        }
                        match indexed_properties {
                            Some(ip) => {
                                if self.member_p(&ip.key, &JsVal::Str(k.clone()), pol)? {
                                    if !self.member_p(ip.value.inner(), x, pol)? {
                                        return Some(false);
                                    }
                                } else if exact {
                                    return Some(false);
                                }
                            }
                            None => {
                                if exact {
                                    return Some(false);
                                }
                            }
                        }
                    }
                    true
                }
                _ => false,
            },
            RuntypeKind::Map(kt, vt) => match v {
                JsVal::Map(kv) => {
                    for (k, x) in kv {
                        if !self.member_p(kt, k, pol)? || !self.member_p(vt, x, pol)? {
                            return Some(false);
                        }
                    }
                    true
                }
                _ => false,
            },
            RuntypeKind::Set(t) => match v {
                JsVal::Set(xs) => {
                    for x in xs {
                        if !self.member_p(t, x, pol)? {
                            return Some(false);
                        }
                    }
                    true
                }
                _ => false,
            },
            RuntypeKind::AnyOf(ms) => {
                for m in ms {
                    if self.member_p(m, v, pol)? {
                        return Some(true);
                    }
                }
                false
            }
            RuntypeKind::AllOf(ms) => {
                if exact && matches!(v, JsVal::Obj(_, _)) {
                    // exactness belongs to the merged record: members are read openly, then the keys are
                    // checked against everything the object members declare together
                    let open = RtEval { defs: self.defs, reading: Reading::Open, fuel: std::cell::Cell::new(self.fuel.get()) };
                    for m in ms {
                        let ok = if self.is_object_like(m) { open.member_shallow_open(self, m, v, pol)? } else { self.member_p(m, v, pol)? };
                        if !ok {
                            return Some(false);
                        }
                    }
                    if let JsVal::Obj(kv, _) = v {
                        let mut any_object = false;
                        for (k, _) in kv {
                            let mut admitted = false;
                            for m in ms {
                                if let Some((vs, ip)) = self.object_parts(m) {
                                    any_object = true;
                                    if vs.contains_key(k) {
                                        admitted = true;
                                    } else if let Some(ip) = ip {
                                        if self.member_p(&ip.key, &JsVal::Str(k.clone()), pol)? {
                                            admitted = true;
                                        }
                                    }
                                }
                            }
                            if any_object && !admitted {
                                return Some(false);
                            }
                        }
                    }
                    return Some(true);
                }
                for m in ms {
                    if !self.member_p(m, v, pol)? {
                        return Some(false);
                    }
                }
                true
            }
            RuntypeKind::StNot(inner) => !self.member_p(inner, v, !pol)?,
            RuntypeKind::Ref(r) => {
                let target = self.defs.iter().find(|d| d.name == *r)?;
                self.member_p(&target.schema, v, pol)?
            }
        })
    }
}

impl<'a> RtEval<'a> {
    fn resolve<'b>(&'b self, t: &'b Runtype) -> &'b Runtype {
        let mut cur = t;
        let mut n = 0;
        while let RuntypeKind::Ref(r) = &cur.kind {
            match self.defs.iter().find(|d| d.name == *r) {
                Some(d) => cur = &d.schema,
                None => break,
            }
            n += 1;
            if n > 30 {
                break;
            }
        }
        cur
    }
    fn is_object_like(&self, t: &Runtype) -> bool {
        matches!(self.resolve(t).kind, RuntypeKind::Object { .. })
    }
    #[allow(clippy::type_complexity)]
    fn object_parts<'b>(&'b self, t: &'b Runtype) -> Option<(&'b BTreeMap<String, Optionality<Runtype>>, Option<&'b IndexedProperty>)> {
        match &self.resolve(t).kind {
            RuntypeKind::Object { vs, indexed_properties } => Some((vs, indexed_properties.as_deref())),
            _ => None,
        }
    }
    /// the object member `t` of an intersection: its own constraints hold, other keys are not its business;
    /// nested types keep the caller's (polar) reading
    fn member_shallow_open(&self, polar: &RtEval, t: &Runtype, v: &JsVal, pol: bool) -> Option<bool> {
        let (vs, ip) = polar.object_parts(t)?;
        let kv = match v {
            JsVal::Obj(kv, _) => kv,
            _ => return Some(false),
        };
        for (k, ty) in vs {
            match kv.iter().find(|(x, _)| x == k) {
                Some((_, x)) => {
                    if matches!(x, JsVal::Undef) && !ty.is_required() {
                        continue;
                    }
                    if !polar.member_p(ty.inner(), x, pol)? {
                        return Some(false);
                    }
                }
                None => {
                    if ty.is_required() {
                        return Some(false);
                    }
                }
            }
        }
        if let Some(ip) = ip {
            for (k, x) in kv {
                if vs.contains_key(k) {
                    continue;
                }
                if polar.member_p(&ip.key, &JsVal::Str(k.clone()), pol)? && !polar.member_p(ip.value.inner(), x, pol)? {
                    return Some(false);
                }
            }
        }
        let _ = self;
        Some(true)
    }
}

pub fn contains_not_or_empty_union(t: &Runtype) -> Option<&'static str> {
    match &t.kind {
        // the listed finding (c07-negation-materialised) is a *bare* negation (a union member or the whole type); a negation
        // left inside an intersection is what remove_nots_of_intersections_and_empty_of_union exists to remove
        RuntypeKind::StNot(_) => Some("StNot"),
        RuntypeKind::AnyOf(ms) => {
            if ms.is_empty() {
                return Some("empty AnyOf");
            }
            ms.iter().find_map(contains_not_or_empty_union)
        }
        RuntypeKind::AllOf(ms) => {
            if ms.iter().any(|m| matches!(m.kind, RuntypeKind::StNot(_))) {
                return Some("StNot inside an intersection");
            }
            ms.iter().find_map(contains_not_or_empty_union)
        }
        RuntypeKind::Array(x) | RuntypeKind::Set(x) => contains_not_or_empty_union(x),
        RuntypeKind::Map(a, b) => contains_not_or_empty_union(a).or_else(|| contains_not_or_empty_union(b)),
        RuntypeKind::Tuple { prefix_items, items } => prefix_items.iter().find_map(contains_not_or_empty_union).or_else(|| items.as_ref().and_then(|x| contains_not_or_empty_union(x))),
        RuntypeKind::Object { vs, indexed_properties } => vs
            .values()
            .find_map(|v| contains_not_or_empty_union(v.inner()))
            .or_else(|| indexed_properties.as_ref().and_then(|ip| contains_not_or_empty_union(&ip.key).or_else(|| contains_not_or_empty_union(ip.value.inner())))),
        _ => None,
    }
}

pub fn collect_refs(t: &Runtype, out: &mut Vec<RuntypeUUID>) {
    match &t.kind {
        RuntypeKind::Ref(r) => out.push(r.clone()),
        RuntypeKind::AnyOf(ms) | RuntypeKind::AllOf(ms) => ms.iter().for_each(|m| collect_refs(m, out)),
        RuntypeKind::Array(x) | RuntypeKind::Set(x) | RuntypeKind::StNot(x) => collect_refs(x, out),
        RuntypeKind::Map(a, b) => {
            collect_refs(a, out);
            collect_refs(b, out)
        }
        RuntypeKind::Tuple { prefix_items, items } => {
            prefix_items.iter().for_each(|m| collect_refs(m, out));
            if let Some(i) = items {
                collect_refs(i, out)
            }
        }
        RuntypeKind::Object { vs, indexed_properties } => {
            vs.values().for_each(|v| collect_refs(v.inner(), out));
            if let Some(ip) = indexed_properties {
                collect_refs(&ip.key, out);
                collect_refs(ip.value.inner(), out);
            }
        }
        _ => {}
    }
}

// ------------------------------------------------------------------------------------------------
// worker side: requests evaluated next to the engine
// ------------------------------------------------------------------------------------------------

fn res_bool(r: anyhow::Result<bool>) -> Value {
    match r {
        Ok(b) => json!(b),
        Err(e) => json!({"err": e.to_string()}),
    }
}

pub fn handle_sem(req: &Value) -> Value {
    if req["sem"].as_str() == Some("watch") {
        return crate::c14::handle_watch(req);
    }
    let env: Env = match serde_json::from_value(req["env"].clone()) {
        Ok(e) => e,
        Err(e) => return json!({"error": e.to_string()}),
    };
    let defs = named_schemas(&env);
    let refs: Vec<&NamedSchema> = defs.iter().collect();
    let kind = req["sem"].as_str().unwrap_or("");
    if kind == "watch" {
        return crate::c14::handle_watch(req);
    }
    match kind {
        "subtype" => {
            let a: D = serde_json::from_value(req["a"].clone()).unwrap();
            let b: D = serde_json::from_value(req["b"].clone()).unwrap();
            let mut ctx = SemTypeContext::new();
            let sa = to_runtype(&env, &a).to_sem_type(&refs, &mut ctx);
            let sb = to_runtype(&env, &b).to_sem_type(&refs, &mut ctx);
            match (sa, sb) {
                (Ok(sa), Ok(sb)) => {
                    let ab = sa.is_subtype(&sb, &mut ctx);
                    let ba = sb.is_subtype(&sa, &mut ctx);
                    let same = sa.is_same_type(&sb, &mut ctx);
                    // the same question asked again in a fresh context (memo tables must not matter)
                    let mut ctx2 = SemTypeContext::new();
                    let again = match (to_runtype(&env, &a).to_sem_type(&refs, &mut ctx2), to_runtype(&env, &b).to_sem_type(&refs, &mut ctx2)) {
                        (Ok(x), Ok(y)) => res_bool(x.is_subtype(&y, &mut ctx2)),
                        _ => json!({"err": "conversion failed"}),
                    };
                    json!({"ab": res_bool(ab), "ba": res_bool(ba), "same": res_bool(same), "ab_fresh": again})
                }
                (Err(e), _) | (_, Err(e)) => json!({"convert_err": e.to_string()}),
            }
        }
        "setops" => {
            let x: D = serde_json::from_value(req["x"].clone()).unwrap();
            let y: D = serde_json::from_value(req["y"].clone()).unwrap();
            let values: Vec<JsVal> = serde_json::from_value(req["values"].clone()).unwrap_or_default();
            let mut ctx = SemTypeContext::new();
            let sx = to_runtype(&env, &x).to_sem_type(&refs, &mut ctx);
            let sy = to_runtype(&env, &y).to_sem_type(&refs, &mut ctx);
            let (sx, sy) = match (sx, sy) {
                (Ok(a), Ok(b)) => (a, b),
                (Err(e), _) | (_, Err(e)) => return json!({"convert_err": e.to_string()}),
            };
            let ops: Vec<(&str, anyhow::Result<Rc<SemType>>)> = vec![
                ("union", sx.union(&sy)),
                ("intersect", sx.intersect(&sy)),
                ("diff", sx.diff(&sy)),
                ("diff_rev", sy.diff(&sx)),
                ("complement", sx.complement()),
                ("double_complement", sx.complement().and_then(|c| c.complement())),
                ("de_morgan", sx.complement().and_then(|cx| sy.complement().and_then(|cy| cx.intersect(&cy))).and_then(|z| z.complement())),
                // mixed polarity, in both operand orders (negative operand on the left / on the right / on both sides)
                ("intersect_cx_y", sx.complement().and_then(|cx| cx.intersect(&sy))),
                ("intersect_x_cy", sy.complement().and_then(|cy| sx.intersect(&cy))),
                ("diff_cx_cy", sx.complement().and_then(|cx| sy.complement().and_then(|cy| cx.diff(&cy)))),
                ("union_cx_y", sx.complement().and_then(|cx| cx.union(&sy))),
                ("union_x_cy", sy.complement().and_then(|cy| sx.union(&cy))),
                ("diff_x_cy", sy.complement().and_then(|cy| sx.diff(&cy))),
            ];
            let mut problems: Vec<Value> = vec![];
            let mut evals = 0u64;
            let mut separating = 0u64;
            let mut op_errs: Vec<String> = vec![];
            for reading in [Reading::Open, Reading::Exact] {
                let ev = SemEval::new(&ctx, reading);
                for v in &values {
                    let (mx, my) = match (ev.member(&sx, v), ev.member(&sy, v)) {
                        (Some(a), Some(b)) => (a, b),
                        _ => continue,
                    };
                    if mx != my {
                        separating += 1;
                    }
                    for (name, r) in &ops {
                        let r = match r {
                            Ok(r) => r,
                            Err(e) => {
                                if reading == Reading::Open && !op_errs.contains(&format!("{}: {}", name, e)) {
                                    op_errs.push(format!("{}: {}", name, e));
                                }
                                continue;
                            }
                        };
                        let expect = match *name {
                            "union" | "de_morgan" => mx || my,
                            "intersect" => mx && my,
                            "diff" => mx && !my,
                            "diff_rev" => my && !mx,
                            "complement" => !mx,
                            "double_complement" => mx,
                            "intersect_cx_y" | "diff_cx_cy" => !mx && my,
                            "intersect_x_cy" => mx && !my,
                            "union_cx_y" => !mx || my,
                            "union_x_cy" => mx || !my,
                            "diff_x_cy" => mx && my,
                            _ => unreachable!(),
                        };
                        if let Some(got) = ev.member(r, v) {
                            evals += 1;
                            if got != expect {
                                problems.push(json!({"op": name, "reading": format!("{:?}", reading), "value": v, "in_x": mx, "in_y": my, "in_result": got, "expected": expect}));
                            }
                        }
                    }
                }
            }
            json!({"problems": problems, "evals": evals, "separating": separating, "op_errs": op_errs})
        }
        "materialize" => {
            let x: D = serde_json::from_value(req["x"].clone()).unwrap();
            let y: D = serde_json::from_value(req["y"].clone()).unwrap();
            let op = req["op"].as_str().unwrap_or("diff");
            let values: Vec<JsVal> = serde_json::from_value(req["values"].clone()).unwrap_or_default();
            let mut ctx = SemTypeContext::new();
            let sx = to_runtype(&env, &x).to_sem_type(&refs, &mut ctx);
            let sy = to_runtype(&env, &y).to_sem_type(&refs, &mut ctx);
            let (sx, sy) = match (sx, sy) {
                (Ok(a), Ok(b)) => (a, b),
                (Err(e), _) | (_, Err(e)) => return json!({"convert_err": e.to_string()}),
            };
            let s: anyhow::Result<Rc<SemType>> = match op {
                "diff" => sx.diff(&sy),
                "intersect" => sx.intersect(&sy),
                "union" => sx.union(&sy),
                "keyof" => ctx.keyof(sx.clone()),
                "indexed" => ctx.indexed_access(sx.clone(), sy.clone()),
                _ => return json!({"error": "bad op"}),
            };
            let s = match s {
                Ok(s) => s,
                Err(e) => return json!({"op_err": e.to_string()}),
            };
            let empty = match s.is_empty(&mut ctx) {
                Ok(b) => b,
                Err(e) => return json!({"op_err": e.to_string()}),
            };
            let mut counter = 0usize;
            let name = uuid_of("AnyName");
            // the frontend's own sequence: semtype_to_runtypes, register the tail, remove_nots_...
            let (head, tail) = if empty {
                (NamedSchema { name: name.clone(), schema: Runtype::never() }, vec![])
            } else {
                match semtype_to_runtypes(&mut ctx, &s, &name, &mut counter) {
                    Ok(x) => x,
                    Err(e) => return json!({"materialize_err": e.to_string()}),
                }
            };
            let mut all_defs: Vec<NamedSchema> = defs.clone();
            let mut problems: Vec<String> = vec![];
            for t in &tail {
                if all_defs.iter().any(|d| d.name == t.name) {
                    problems.push(format!("helper type {:?} is defined twice", t.name.ty));
                }
                all_defs.push(t.clone());
            }
            let all_refs: Vec<&NamedSchema> = all_defs.iter().collect();
            let cleaned = match head.schema.clone().remove_nots_of_intersections_and_empty_of_union(&all_refs, &mut ctx) {
                Ok(c) => c,
                Err(e) => return json!({"clean_err": e.to_string()}),
            };
            let has_not = |t: &Runtype| contains_not_or_empty_union(t).map(|u| u.starts_with("StNot")).unwrap_or(false);
            let dropped_negation = has_not(&head.schema) && !has_not(&cleaned);
            // (c) printable
            let unprintable = contains_not_or_empty_union(&cleaned).or_else(|| tail.iter().find_map(|t| contains_not_or_empty_union(&t.schema)));
            // (d) every Ref resolves to exactly one definition
            let mut refs_used = vec![];
            collect_refs(&cleaned, &mut refs_used);
            for t in &tail {
                collect_refs(&t.schema, &mut refs_used);
            }
            for r in &refs_used {
                let n = all_defs.iter().filter(|d| d.name == *r).count();
                if n != 1 {
                    problems.push(format!("reference {:?} resolves to {} definitions", r.ty, n));
                }
            }
            // (a) round trip through the engine
            let mut roundtrip = Value::Null;
            if unprintable.is_none() {
                let mut ctx2 = SemTypeContext::new();
                let back = cleaned.to_sem_type(&all_refs, &mut ctx2);
                let sx2 = to_runtype(&env, &x).to_sem_type(&all_refs, &mut ctx2);
                let sy2 = to_runtype(&env, &y).to_sem_type(&all_refs, &mut ctx2);
                if let (Ok(back), Ok(sx2), Ok(sy2)) = (back, sx2, sy2) {
                    let s2 = match op {
                        "diff" => sx2.diff(&sy2),
                        "intersect" => sx2.intersect(&sy2),
                        "union" => sx2.union(&sy2),
                        "keyof" => ctx2.keyof(sx2.clone()),
                        "indexed" => ctx2.indexed_access(sx2.clone(), sy2.clone()),
                        _ => unreachable!(),
                    };
                    if let Ok(s2) = s2 {
                        roundtrip = res_bool(back.is_same_type(&s2, &mut ctx2));
                    }
                }
            }
            // (b) value level: the materialised type against the semantic type
            let mut value_problems: Vec<Value> = vec![];
            let mut evals = 0u64;
            let mut separating = 0u64;
            let mut in_count = 0u64;
            // the engine prunes with "exact positive, open negative" emptiness: the open reading is the one under
            // which a semantic type and its simplified materialisation must coincide value by value
            for reading in [Reading::Polar] {
                let mut sev = SemEval::new(&ctx, reading);
                sev.optional_reads_undefined = true;
                let rev = RtEval::new(&all_defs, reading);
                for v in &values {
                    let ms = match sev.member(&s, v) {
                        Some(b) => b,
                        None => continue,
                    };
                    if let Some(mr) = rev.member(&cleaned, v) {
                        evals += 1;
                        if ms {
                            in_count += 1;
                        }
                        if let (Some(a), Some(b)) = (sev.member(&sx, v), sev.member(&sy, v)) {
                            if a != b {
                                separating += 1;
                            }
                        }
                        if mr != ms {
                            value_problems.push(json!({"reading": format!("{:?}", reading), "value": v, "in_semantic_type": ms, "in_materialised_type": mr}));
                        }
                    }
                }
            }
            let same_as_operand = {
                let a = s.is_same_type(&sx, &mut ctx).unwrap_or(false);
                let b = s.is_same_type(&sy, &mut ctx).unwrap_or(false);
                a || b
            };
            let dbg = {
                let names: Vec<&RuntypeUUID> = all_defs.iter().map(|d| &d.name).collect();
                let mut m = BTreeMap::new();
                let c = beff_core::ast::runtype::DebugPrintCtx { all_names: &names, type_with_args_names: &mut m };
                cleaned.debug_print(&c)
            };
            json!({
                "empty": empty, "same_as_operand": same_as_operand, "unprintable": unprintable, "problems": problems,
                "roundtrip": roundtrip, "value_problems": value_problems, "evals": evals, "separating": separating,
                "in_count": in_count, "tail": tail.len(), "printed": dbg, "dropped_negation": dropped_negation,
                "debug_semtype": if req["debug"].as_bool().unwrap_or(false) { format!("{:?}", s) } else { String::new() }
            })
        }
        _ => json!({"error": "unknown sem request"}),
    }
}

#[allow(dead_code)]
pub fn n_of(s: &str) -> N {
    N::parse_f64(s.parse::<f64>().unwrap_or(0.0))
}
#[allow(dead_code)]
pub fn typed_array_name(i: usize) -> &'static str {
    TYPED_ARRAYS[i % 11]
}


// ------------------------------------------------------------------------------------------------
// C06 layer 1: decision diagrams built with the engine's own BddOps, judged against a truth table
// ------------------------------------------------------------------------------------------------
use crate::csem::BExpr;
use beff_core::subtyping::bdd::BddOps;
use beff_core::subtyping::dnf::{bdd_to_dnf, dnf_to_bdd};

fn build_bexpr(e: &BExpr) -> Rc<Bdd> {
    match e {
        BExpr::Atom(i) => Rc::new(Bdd::from_atom(Atom::Mapping(*i))),
        BExpr::True => Rc::new(Bdd::True),
        BExpr::False => Rc::new(Bdd::False),
        BExpr::Union(a, b) => build_bexpr(a).union(&build_bexpr(b)),
        BExpr::Inter(a, b) => build_bexpr(a).intersect(&build_bexpr(b)),
        BExpr::Diff(a, b) => build_bexpr(a).diff(&build_bexpr(b)),
        BExpr::Compl(a) => build_bexpr(a).complement(),
    }
}

fn eval_bdd(b: &Bdd, assignment: u32) -> bool {
    match b {
        Bdd::True => true,
        Bdd::False => false,
        Bdd::Node { atom, left, middle, right } => {
            let i = match atom {
                Atom::Mapping(i) | Atom::List(i) | Atom::Map(i) | Atom::Set(i) => *i,
            };
            let a = assignment & (1 << i) != 0;
            (a && eval_bdd(left, assignment)) || eval_bdd(middle, assignment) || (!a && eval_bdd(right, assignment))
        }
    }
}


/// returns a description of the first disagreement
pub fn check_bexpr(e: &BExpr, natoms: usize) -> Option<(String, u32)> {
    let bdd = build_bexpr(e);
    let dnf = bdd_to_dnf(&bdd);
    let back = dnf_to_bdd(&dnf);
    for asg in 0..(1u32 << natoms) {
        let want = e.eval(asg);
        if eval_bdd(&bdd, asg) != want {
            return Some(("bdd_ops".into(), asg));
        }
        let dnf_val = dnf.iter().any(|c| {
            c.positive.iter().all(|a| eval_bdd(&Bdd::from_atom(*a), asg)) && c.negative.iter().all(|a| !eval_bdd(&Bdd::from_atom(*a), asg))
        });
        if dnf_val != want {
            return Some(("bdd_to_dnf".into(), asg));
        }
        if eval_bdd(&back, asg) != want {
            return Some(("dnf_to_bdd".into(), asg));
        }
    }
    None
}

