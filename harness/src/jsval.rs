//! JavaScript values as the harness sees them; shipped to the Node worker as tagged JSON.
use crate::src::Src;
use serde::{Deserialize, Serialize};
use serde_json::{json, Value};

#[derive(Debug, Clone, PartialEq, Serialize, Deserialize)]
pub enum Proto {
    Plain,
    Null,
    Class,
}

#[derive(Debug, Clone, PartialEq, Serialize, Deserialize)]
pub enum JsVal {
    Undef,
    Null,
    Bool(bool),
    /// numbers are kept as JS source text: "1", "-0", "NaN", "Infinity", "1.5", "1e21"
    Num(String),
    Str(String),
    BigInt(String),
    /// None = invalid Date
    Date(Option<i64>),
    Arr(Vec<JsVal>),
    Obj(Vec<(String, JsVal)>, Proto),
    Map(Vec<(JsVal, JsVal)>),
    Set(Vec<JsVal>),
    TypedArr(usize, Vec<i32>),
    Func,
    Sym,
    /// `o = {a:1}; o.self = o`
    Cyclic,
    /// `a = [1]; a.push(a)`
    CyclicArr,
    /// an empty slot of a sparse array (`[1, , 3]`): only ever an element of `Arr`; reads as undefined
    Hole,
}

pub fn num_value(s: &str) -> f64 {
    match s {
        "NaN" => f64::NAN,
        "Infinity" => f64::INFINITY,
        "-Infinity" => f64::NEG_INFINITY,
        "-0" => -0.0,
        _ => s.parse::<f64>().unwrap_or(f64::NAN),
    }
}

impl JsVal {
    pub fn num(s: &str) -> JsVal {
        JsVal::Num(s.to_string())
    }
    pub fn str(s: &str) -> JsVal {
        JsVal::Str(s.to_string())
    }
    pub fn obj(kv: Vec<(&str, JsVal)>) -> JsVal {
        JsVal::Obj(
            kv.into_iter().map(|(k, v)| (k.to_string(), v)).collect(),
            Proto::Plain,
        )
    }
    pub fn is_nullish(&self) -> bool {
        matches!(self, JsVal::Undef | JsVal::Null)
    }
    pub fn to_tagged(&self) -> Value {
        match self {
            JsVal::Undef => json!({"t":"u"}),
            JsVal::Hole => json!({"t":"hole"}),
            JsVal::Null => json!({"t":"n"}),
            JsVal::Bool(b) => json!({"t":"b","v":b}),
            JsVal::Num(s) => match s.as_str() {
                "NaN" | "Infinity" | "-Infinity" | "-0" => json!({"t":"num","s":s}),
                _ => json!({"t":"num","s":s}),
            },
            JsVal::Str(s) => json!({"t":"s","v":s}),
            JsVal::BigInt(s) => json!({"t":"big","v":s}),
            JsVal::Date(d) => json!({"t":"date","v":d}),
            JsVal::Arr(v) => json!({"t":"arr","v": v.iter().map(|x| x.to_tagged()).collect::<Vec<_>>()}),
            JsVal::Obj(kv, proto) => json!({
                "t":"obj",
                "proto": match proto { Proto::Plain => "plain", Proto::Null => "null", Proto::Class => "class" },
                "v": kv.iter().map(|(k,v)| json!([k, v.to_tagged()])).collect::<Vec<_>>()
            }),
            JsVal::Map(kv) => json!({"t":"map","v": kv.iter().map(|(k,v)| json!([k.to_tagged(), v.to_tagged()])).collect::<Vec<_>>()}),
            JsVal::Set(v) => json!({"t":"set","v": v.iter().map(|x| x.to_tagged()).collect::<Vec<_>>()}),
            JsVal::TypedArr(k, v) => json!({"t":"ta","k": crate::den::TYPED_ARRAYS[*k], "v": v}),
            JsVal::Func => json!({"t":"fn"}),
            JsVal::Sym => json!({"t":"sym"}),
            JsVal::Cyclic => json!({"t":"cyc"}),
            JsVal::CyclicArr => json!({"t":"cycarr"}),
        }
    }
    /// inverse of `to_tagged` for what the worker's `encode` produces (None for shapes it cannot carry)
    pub fn from_tagged(v: &Value) -> Option<JsVal> {
        let t = v.get("t")?.as_str()?;
        Some(match t {
            "u" => JsVal::Undef,
            "n" => JsVal::Null,
            "b" => JsVal::Bool(v.get("v")?.as_bool()?),
            "num" => match (v.get("s").and_then(|x| x.as_str()), v.get("v")) {
                (Some(s), _) => JsVal::Num(s.to_string()),
                (None, Some(n)) => JsVal::Num(n.to_string()),
                _ => return None,
            },
            "s" => JsVal::Str(v.get("v")?.as_str()?.to_string()),
            "big" => JsVal::BigInt(v.get("v")?.as_str()?.to_string()),
            "date" => JsVal::Date(v.get("v").and_then(|x| x.as_i64())),
            "arr" => JsVal::Arr(v.get("v")?.as_array()?.iter().map(JsVal::from_tagged).collect::<Option<Vec<_>>>()?),
            "obj" => {
                let proto = match v.get("proto").and_then(|x| x.as_str()) {
                    Some("null") => Proto::Null,
                    Some("class") => Proto::Class,
                    _ => Proto::Plain,
                };
                let mut kv = vec![];
                for e in v.get("v")?.as_array()? {
                    kv.push((e.get(0)?.as_str()?.to_string(), JsVal::from_tagged(e.get(1)?)?));
                }
                JsVal::Obj(kv, proto)
            }
            "map" => {
                let mut kv = vec![];
                for e in v.get("v")?.as_array()? {
                    kv.push((JsVal::from_tagged(e.get(0)?)?, JsVal::from_tagged(e.get(1)?)?));
                }
                JsVal::Map(kv)
            }
            "set" => JsVal::Set(v.get("v")?.as_array()?.iter().map(JsVal::from_tagged).collect::<Option<Vec<_>>>()?),
            "ta" => {
                let k = crate::den::TYPED_ARRAYS.iter().position(|n| Some(*n) == v.get("k").and_then(|x| x.as_str()))?;
                JsVal::TypedArr(k, v.get("v")?.as_array()?.iter().map(|x| x.as_i64().unwrap_or(0) as i32).collect())
            }
            "fn" => JsVal::Func,
            "sym" => JsVal::Sym,
            "hole" => JsVal::Hole,
            _ => return None,
        })
    }
    /// plain JSON (for the JSON-document properties C02/C16); None if not a JSON value
    pub fn to_json(&self) -> Option<Value> {
        Some(match self {
            JsVal::Null => Value::Null,
            JsVal::Bool(b) => json!(b),
            JsVal::Num(s) => {
                let f = num_value(s);
                if !f.is_finite() {
                    return None;
                }
                if f == f.trunc() && f.abs() < 1e15 {
                    if f == 0.0 {
                        json!(0)
                    } else {
                        json!(f as i64)
                    }
                } else {
                    json!(f)
                }
            }
            JsVal::Str(s) => json!(s),
            JsVal::Arr(v) => Value::Array(v.iter().map(|x| x.to_json()).collect::<Option<Vec<_>>>()?),
            JsVal::Obj(kv, Proto::Plain) => {
                let mut m = serde_json::Map::new();
                for (k, v) in kv {
                    if k == "__proto__" {
                        return None;
                    }
                    m.insert(k.clone(), v.to_json()?);
                }
                Value::Object(m)
            }
            _ => return None,
        })
    }
    pub fn from_json(v: &Value) -> JsVal {
        match v {
            Value::Null => JsVal::Null,
            Value::Bool(b) => JsVal::Bool(*b),
            Value::Number(n) => JsVal::Num(n.to_string()),
            Value::String(s) => JsVal::Str(s.clone()),
            Value::Array(a) => JsVal::Arr(a.iter().map(JsVal::from_json).collect()),
            Value::Object(o) => JsVal::Obj(
                o.iter().map(|(k, v)| (k.clone(), JsVal::from_json(v))).collect(),
                Proto::Plain,
            ),
        }
    }
    pub fn depth(&self) -> usize {
        match self {
            JsVal::Arr(v) | JsVal::Set(v) => 1 + v.iter().map(|x| x.depth()).max().unwrap_or(0),
            JsVal::Obj(kv, _) => 1 + kv.iter().map(|(_, x)| x.depth()).max().unwrap_or(0),
            JsVal::Map(kv) => 1 + kv.iter().map(|(a, b)| a.depth().max(b.depth())).max().unwrap_or(0),
            _ => 0,
        }
    }
    pub fn class(&self) -> &'static str {
        match self {
            JsVal::Undef => "undefined",
            JsVal::Hole => "hole",
            JsVal::Null => "null",
            JsVal::Bool(_) => "boolean",
            JsVal::Num(_) => "number",
            JsVal::Str(_) => "string",
            JsVal::BigInt(_) => "bigint",
            JsVal::Date(_) => "date",
            JsVal::Arr(_) => "array",
            JsVal::Obj(_, Proto::Plain) => "object",
            JsVal::Obj(_, Proto::Null) => "object_nullproto",
            JsVal::Obj(_, Proto::Class) => "class_instance",
            JsVal::Map(_) => "map",
            JsVal::Set(_) => "set",
            JsVal::TypedArr(_, _) => "typedarray",
            JsVal::Func => "function",
            JsVal::Sym => "symbol",
            JsVal::Cyclic | JsVal::CyclicArr => "cyclic",
        }
    }
    pub fn has_hole(&self) -> bool {
        match self {
            JsVal::Hole => true,
            JsVal::Arr(v) | JsVal::Set(v) => v.iter().any(|x| x.has_hole()),
            JsVal::Obj(kv, _) => kv.iter().any(|(_, x)| x.has_hole()),
            _ => false,
        }
    }
    pub fn has_cycle(&self) -> bool {
        match self {
            JsVal::Cyclic | JsVal::CyclicArr => true,
            JsVal::Arr(v) | JsVal::Set(v) => v.iter().any(|x| x.has_cycle()),
            JsVal::Obj(kv, _) => kv.iter().any(|(_, x)| x.has_cycle()),
            JsVal::Map(kv) => kv.iter().any(|(a, b)| a.has_cycle() || b.has_cycle()),
            _ => false,
        }
    }
    pub fn has_hostile_key(&self) -> bool {
        match self {
            JsVal::Obj(kv, _) => kv.iter().any(|(k, v)| HOSTILE.contains(&k.as_str()) || v.has_hostile_key() || matches!(v, JsVal::Str(s) if HOSTILE.contains(&s.as_str()))),
            JsVal::Arr(v) | JsVal::Set(v) => v.iter().any(|x| x.has_hostile_key()),
            JsVal::Map(kv) => kv.iter().any(|(a, b)| a.has_hostile_key() || b.has_hostile_key()),
            _ => false,
        }
    }
    pub fn has_non_json_leaf(&self) -> bool {
        match self {
            JsVal::Undef | JsVal::Hole | JsVal::BigInt(_) | JsVal::Date(_) | JsVal::Map(_) | JsVal::Set(_) | JsVal::TypedArr(_, _) | JsVal::Func | JsVal::Sym | JsVal::Cyclic | JsVal::CyclicArr => true,
            JsVal::Num(s) => !num_value(s).is_finite(),
            JsVal::Arr(v) => v.iter().any(|x| x.has_non_json_leaf()),
            JsVal::Obj(kv, p) => *p != Proto::Plain || kv.iter().any(|(_, x)| x.has_non_json_leaf()),
            _ => false,
        }
    }
}

pub const HOSTILE: [&str; 5] = ["__proto__", "constructor", "toString", "hasOwnProperty", "valueOf"];
pub const STR_POOL: [&str; 22] = [
    "a", "b", "", "abc", "c", "a-b", "A", "abcd", "ABC", "aaa", "1", "1.5", "-1", "true", "false", "a1", "a-", "x.", "\n",
    "é", "toString", "__proto__",
];
pub const NUM_POOL: [&str; 14] = [
    "0", "1", "2", "-1", "1.5", "42", "-0", "NaN", "Infinity", "-Infinity", "1e21", "0.1", "-2.5", "3",
];
pub const KEY_POOL: [&str; 12] = ["a", "b", "c", "k", "a-b", "0", "z", "type", "__proto__", "constructor", "toString", "1"];

/// Map keys and Set items are compared with SameValueZero: -0 is the same key as 0
pub fn same_value_zero_canon(v: JsVal) -> JsVal {
    match v {
        JsVal::Num(ref s) if s == "-0" => JsVal::num("0"),
        other => other,
    }
}

/// The value JavaScript actually builds from this description: `new Map(entries)` keeps the last entry per
/// key and `new Set(items)` one item per SameValueZero class.
pub fn canon(v: JsVal) -> JsVal {
    match v {
        JsVal::Arr(xs) => JsVal::Arr(xs.into_iter().map(canon).collect()),
        JsVal::Obj(kv, p) => {
            let mut out: Vec<(String, JsVal)> = vec![];
            for (k, x) in kv {
                let x = canon(x);
                if let Some(e) = out.iter_mut().find(|(k2, _)| *k2 == k) {
                    e.1 = x;
                } else {
                    out.push((k, x));
                }
            }
            JsVal::Obj(out, p)
        }
        JsVal::Map(kv) => {
            let mut out: Vec<(JsVal, JsVal)> = vec![];
            for (k, x) in kv {
                let k = same_value_zero_canon(canon(k));
                let x = canon(x);
                // identity-compared keys (objects, functions, symbols) are distinct entries in JS but equal here
                let identity = !matches!(k, JsVal::Undef | JsVal::Null | JsVal::Bool(_) | JsVal::Num(_) | JsVal::Str(_) | JsVal::BigInt(_));
                if !identity {
                    if let Some(e) = out.iter_mut().find(|(k2, _)| *k2 == k) {
                        e.1 = x;
                        continue;
                    }
                }
                out.push((k, x));
            }
            JsVal::Map(out)
        }
        JsVal::Set(xs) => {
            let mut out: Vec<JsVal> = vec![];
            for x in xs {
                let x = same_value_zero_canon(canon(x));
                let identity = !matches!(x, JsVal::Undef | JsVal::Null | JsVal::Bool(_) | JsVal::Num(_) | JsVal::Str(_) | JsVal::BigInt(_));
                if identity || !out.contains(&x) {
                    out.push(x);
                }
            }
            JsVal::Set(out)
        }
        other => other,
    }
}

pub fn arbitrary_leaf(s: &mut Src) -> JsVal {
    match s.below(14) {
        0 => JsVal::Str(s.pick(&STR_POOL).to_string()),
        1 => JsVal::Num(s.pick(&NUM_POOL).to_string()),
        2 => JsVal::Null,
        3 => JsVal::Undef,
        4 => JsVal::Bool(s.below(2) == 1),
        5 => JsVal::BigInt(s.pick(&["10", "0", "-5"]).to_string()),
        6 => JsVal::Date(if s.chance(1, 4) { None } else { Some(1700000000000) }),
        7 => JsVal::Func,
        8 => JsVal::Sym,
        9 => JsVal::TypedArr(s.below(11), vec![1, 2]),
        10 => JsVal::Cyclic,
        11 => JsVal::Str(s.pick(&STR_POOL).to_string()),
        12 => JsVal::Num(s.pick(&NUM_POOL).to_string()),
        _ => JsVal::CyclicArr,
    }
}

pub fn arbitrary(s: &mut Src, depth: usize) -> JsVal {
    if depth == 0 {
        return arbitrary_leaf(s);
    }
    match s.below(8) {
        0 | 1 => arbitrary_leaf(s),
        2 | 3 => {
            let n = s.range(0, 3);
            let mut kv: Vec<(String, JsVal)> = vec![];
            for _ in 0..n {
                let k = s.pick(&KEY_POOL).to_string();
                if kv.iter().any(|(x, _)| *x == k) {
                    continue;
                }
                kv.push((k, arbitrary(s, depth - 1)));
            }
            let proto = match s.below(8) {
                0 => Proto::Null,
                1 => Proto::Class,
                _ => Proto::Plain,
            };
            JsVal::Obj(kv, proto)
        }
        4 | 5 => {
            let n = s.range(0, 3);
            JsVal::Arr((0..n).map(|_| arbitrary(s, depth - 1)).collect())
        }
        6 => {
            let n = s.range(0, 2);
            let mut kv: Vec<(JsVal, JsVal)> = vec![];
            for _ in 0..n {
                let k = same_value_zero_canon(arbitrary_leaf(s));
                let v = arbitrary(s, depth - 1);
                // keys that cannot be told apart by the encoding (symbols, functions, objects) are used once
                if !kv.iter().any(|(x, _)| *x == k) {
                    kv.push((k, v));
                }
            }
            JsVal::Map(kv)
        }
        _ => {
            let n = s.range(0, 2);
            let mut v: Vec<JsVal> = vec![];
            for _ in 0..n {
                let x = same_value_zero_canon(arbitrary(s, depth - 1));
                if !v.contains(&x) {
                    v.push(x);
                }
            }
            JsVal::Set(v)
        }
    }
}

/// One random edit somewhere in the value (used to make near misses).
pub fn mutate(v: &JsVal, s: &mut Src) -> JsVal {
    // descend with probability, else edit here
    match v {
        JsVal::Arr(items) if !items.is_empty() && s.chance(2, 3) => {
            let i = s.below(items.len());
            let mut items = items.clone();
            items[i] = mutate(&items[i], s);
            JsVal::Arr(items)
        }
        JsVal::Obj(kv, p) if !kv.is_empty() && s.chance(2, 3) => {
            let i = s.below(kv.len());
            let mut kv = kv.clone();
            kv[i].1 = mutate(&kv[i].1, s);
            JsVal::Obj(kv, p.clone())
        }
        JsVal::Map(kv) if !kv.is_empty() && s.chance(2, 3) => {
            let i = s.below(kv.len());
            let mut kv = kv.clone();
            if s.below(2) == 0 {
                kv[i].1 = mutate(&kv[i].1, s);
            } else {
                kv[i].0 = mutate(&kv[i].0, s);
            }
            JsVal::Map(kv)
        }
        JsVal::Set(items) if !items.is_empty() && s.chance(2, 3) => {
            let i = s.below(items.len());
            let mut items = items.clone();
            items[i] = mutate(&items[i], s);
            JsVal::Set(items)
        }
        _ => edit_here(v, s),
    }
}

fn edit_here(v: &JsVal, s: &mut Src) -> JsVal {
    match v {
        JsVal::Arr(items) => match s.below(4) {
            0 => {
                let mut items = items.clone();
                items.push(arbitrary_leaf(s));
                JsVal::Arr(items)
            }
            1 if !items.is_empty() => {
                let mut items = items.clone();
                items.pop();
                JsVal::Arr(items)
            }
            2 => {
                // same content as an object (wrong kind)
                JsVal::Obj(
                    items.iter().enumerate().map(|(i, x)| (i.to_string(), x.clone())).collect(),
                    Proto::Plain,
                )
            }
            _ => arbitrary_leaf(s),
        },
        JsVal::Obj(kv, p) => match s.below(6) {
            0 if !kv.is_empty() => {
                let i = s.below(kv.len());
                let mut kv = kv.clone();
                kv.remove(i);
                JsVal::Obj(kv, p.clone())
            }
            1 | 2 => {
                let k = s.pick(&KEY_POOL).to_string();
                let mut kv = kv.clone();
                if !kv.iter().any(|(x, _)| *x == k) {
                    kv.push((k, arbitrary_leaf(s)));
                }
                JsVal::Obj(kv, p.clone())
            }
            3 if !kv.is_empty() => {
                // replace a string-valued property by a hostile string (discriminators)
                let i = s.below(kv.len());
                let mut kv = kv.clone();
                kv[i].1 = JsVal::Str(s.pick(&HOSTILE).to_string());
                JsVal::Obj(kv, p.clone())
            }
            4 => JsVal::Arr(kv.iter().map(|(_, x)| x.clone()).collect()),
            _ => arbitrary_leaf(s),
        },
        JsVal::Str(x) => match s.below(7) {
            0 => JsVal::Str(format!("{}x", x)),
            1 => JsVal::Str(format!("x{}", x)),
            2 => JsVal::Str(s.pick(&STR_POOL).to_string()),
            // character-level edits: what a template/regex built with a wrong escape or anchor would still accept
            3 | 4 | 5 if !x.is_empty() => {
                let cs: Vec<char> = x.chars().collect();
                let i = s.below(cs.len());
                let mut out: Vec<char> = cs.clone();
                match s.below(3) {
                    0 => {
                        out.remove(i);
                    }
                    1 => out[i] = if cs[i].is_alphanumeric() { '|' } else { 'y' },
                    _ => out.insert(i, cs[i]),
                }
                JsVal::Str(out.into_iter().collect())
            }
            _ => arbitrary_leaf(s),
        },
        JsVal::Num(_) => match s.below(3) {
            0 => JsVal::Num(s.pick(&NUM_POOL).to_string()),
            1 => JsVal::Str("1".to_string()),
            _ => arbitrary_leaf(s),
        },
        JsVal::Bool(b) => match s.below(2) {
            0 => JsVal::Bool(!*b),
            _ => arbitrary_leaf(s),
        },
        _ => arbitrary_leaf(s),
    }
}

/// Add one undeclared-looking key at a random object position (C11).
pub fn inject_extra_key(v: &JsVal, s: &mut Src) -> JsVal {
    fn count(v: &JsVal) -> usize {
        match v {
            JsVal::Obj(kv, _) => 1 + kv.iter().map(|(_, x)| count(x)).sum::<usize>(),
            JsVal::Arr(xs) | JsVal::Set(xs) => xs.iter().map(count).sum(),
            JsVal::Map(kv) => kv.iter().map(|(_, x)| count(x)).sum(),
            _ => 0,
        }
    }
    fn go(v: &JsVal, target: &mut isize, key: &str, val: &JsVal) -> JsVal {
        match v {
            JsVal::Obj(kv, p) => {
                let here = *target == 0;
                *target -= 1;
                let mut kv2: Vec<(String, JsVal)> = kv.iter().map(|(k, x)| (k.clone(), go(x, target, key, val))).collect();
                if here && !kv2.iter().any(|(k, _)| k == key) {
                    kv2.push((key.to_string(), val.clone()));
                }
                JsVal::Obj(kv2, p.clone())
            }
            JsVal::Arr(xs) => JsVal::Arr(xs.iter().map(|x| go(x, target, key, val)).collect()),
            JsVal::Set(xs) => JsVal::Set(xs.iter().map(|x| go(x, target, key, val)).collect()),
            JsVal::Map(kv) => JsVal::Map(kv.iter().map(|(k, x)| (k.clone(), go(x, target, key, val))).collect()),
            other => other.clone(),
        }
    }
    let n = count(v);
    if n == 0 {
        return v.clone();
    }
    let mut target = s.below(n) as isize;
    let key = s.pick(&["z", "extra", "a", "b", "c", "k", "constructor", "__proto__", "toString", "0"]).to_string();
    let val = arbitrary_leaf(s);
    go(v, &mut target, &key, &val)
}

/// `v` with the property `key: 1` added to one randomly chosen plain object inside it (also inside arrays, Map values
/// and Set items); `v` itself when it contains no object
pub fn inject_key(v: &JsVal, s: &mut Src, key: &str) -> JsVal {
    fn count(v: &JsVal) -> usize {
        match v {
            JsVal::Obj(kv, _) => 1 + kv.iter().map(|(_, x)| count(x)).sum::<usize>(),
            JsVal::Arr(xs) | JsVal::Set(xs) => xs.iter().map(count).sum(),
            JsVal::Map(kv) => kv.iter().map(|(_, x)| count(x)).sum(),
            _ => 0,
        }
    }
    fn go(v: &JsVal, target: &mut isize, key: &str) -> JsVal {
        match v {
            JsVal::Obj(kv, p) => {
                let here = *target == 0;
                *target -= 1;
                let mut kv2: Vec<(String, JsVal)> = kv.iter().map(|(k, x)| (k.clone(), go(x, target, key))).collect();
                if here && !kv2.iter().any(|(k, _)| k == key) {
                    kv2.push((key.to_string(), JsVal::num("1")));
                }
                JsVal::Obj(kv2, p.clone())
            }
            JsVal::Arr(xs) => JsVal::Arr(xs.iter().map(|x| go(x, target, key)).collect()),
            JsVal::Set(xs) => JsVal::Set(xs.iter().map(|x| go(x, target, key)).collect()),
            JsVal::Map(kv) => JsVal::Map(kv.iter().map(|(k, x)| (k.clone(), go(x, target, key))).collect()),
            other => other.clone(),
        }
    }
    let n = count(v);
    if n == 0 {
        return v.clone();
    }
    let mut target = s.below(n) as isize;
    go(v, &mut target, key)
}

/// One element of some array inside `v` replaced by an empty slot (`[1, , 3]`); None when `v` holds no non-empty array.
pub fn punch_hole(v: &JsVal, s: &mut crate::src::Src) -> Option<JsVal> {
    fn arrays(v: &JsVal) -> usize {
        match v {
            JsVal::Arr(xs) => (if xs.is_empty() { 0 } else { 1 }) + xs.iter().map(arrays).sum::<usize>(),
            JsVal::Obj(kv, _) => kv.iter().map(|(_, x)| arrays(x)).sum(),
            _ => 0,
        }
    }
    fn apply(v: &JsVal, target: &mut isize, slot: usize) -> JsVal {
        match v {
            JsVal::Arr(xs) => {
                let mut out = vec![];
                let here = !xs.is_empty() && {
                    *target -= 1;
                    *target == -1
                };
                for (i, x) in xs.iter().enumerate() {
                    if here && i == slot % xs.len() {
                        out.push(JsVal::Hole);
                    } else {
                        out.push(apply(x, target, slot));
                    }
                }
                JsVal::Arr(out)
            }
            JsVal::Obj(kv, p) => JsVal::Obj(kv.iter().map(|(k, x)| (k.clone(), apply(x, target, slot))).collect(), p.clone()),
            other => other.clone(),
        }
    }
    let n = arrays(v);
    if n == 0 {
        return None;
    }
    let mut target = s.below(n) as isize;
    let slot = s.below(8);
    Some(apply(v, &mut target, slot))
}
