//! Structure of a hash256 encoding: the token sequence the runtime feeds to its SHA-256 writer, parsed back into a tree,
//! so that a difference between two digests can be attributed to a *kind* of structural difference.
//! Normalisations are applied cumulatively; the class is the first step after which the two trees coincide.
use serde_json::Value;

#[derive(Debug, Clone, PartialEq, Eq, PartialOrd, Ord)]
pub enum T {
    /// leaf with its payload tokens (typeof string, const "a", regex ..., anyOfConsts [...], formats, cycleRef n, ...)
    Leaf(String, Vec<String>),
    Node(String, Vec<T>),
    /// object: (key, optional, type) sorted by key as emitted; index signatures as (key type, value type)
    Object(Vec<(String, String, T)>, Vec<(T, T)>),
    /// discriminated union: discriminator, member schemas, mapping
    Du(String, Vec<T>, Vec<(String, T)>),
}

struct P<'a> {
    t: &'a [String],
    i: usize,
}
impl<'a> P<'a> {
    fn next(&mut self) -> Option<&'a str> {
        let x = self.t.get(self.i)?;
        self.i += 1;
        Some(x.as_str())
    }
    fn num(&mut self) -> Option<usize> {
        self.next()?.strip_prefix("N:")?.parse::<f64>().ok().map(|f| f as usize)
    }
    fn const_payload(&mut self) -> Option<Vec<String>> {
        let a = self.next()?;
        if a == "Z" {
            return Some(vec![a.to_string()]);
        }
        let b = self.next()?;
        Some(vec![a.to_string(), b.to_string()])
    }
    fn node(&mut self, depth: usize) -> Option<T> {
        if depth > 200 {
            return None;
        }
        let tag = self.next()?.strip_prefix("T:")?.to_string();
        Some(match tag.as_str() {
            "any" | "nullish" | "never" | "date" | "bigint" => T::Leaf(tag, vec![]),
            "typeof" | "regex" | "typedArray" => {
                let s = self.next()?.to_string();
                T::Leaf(tag, vec![s])
            }
            "cycleRef" => {
                let n = self.next()?.to_string();
                T::Leaf(tag, vec![n])
            }
            "const" => {
                let p = self.const_payload()?;
                T::Leaf(tag, p)
            }
            "stringWithFormat" | "numberWithFormat" => {
                let n = self.num()?;
                let mut v = vec![];
                for _ in 0..n {
                    v.push(self.next()?.to_string());
                }
                T::Leaf(tag, v)
            }
            "anyOfConsts" => {
                let n = self.num()?;
                let mut v = vec![];
                for _ in 0..n {
                    v.push(self.const_payload()?.join(" "));
                }
                T::Leaf(tag, v)
            }
            "tuple" => {
                let n = self.num()?;
                let mut v = vec![];
                for _ in 0..n {
                    v.push(self.node(depth + 1)?);
                }
                match self.next()? {
                    "T:noRest" => v.push(T::Leaf("noRest".into(), vec![])),
                    "T:rest" => v.push(T::Node("rest".into(), vec![self.node(depth + 1)?])),
                    _ => return None,
                }
                T::Node(tag, v)
            }
            "allOf" | "anyOf" => {
                let n = self.num()?;
                let mut v = vec![];
                for _ in 0..n {
                    v.push(self.node(depth + 1)?);
                }
                T::Node(tag, v)
            }
            "array" | "set" | "optionalField" => T::Node(tag, vec![self.node(depth + 1)?]),
            "map" => {
                let k = self.node(depth + 1)?;
                let v = self.node(depth + 1)?;
                T::Node(tag, vec![k, v])
            }
            "anyOfDiscriminated" => {
                let disc = self.next()?.to_string();
                let n = self.num()?;
                let mut v = vec![];
                for _ in 0..n {
                    v.push(self.node(depth + 1)?);
                }
                let m = self.num()?;
                let mut map = vec![];
                for _ in 0..m {
                    let k = self.next()?.to_string();
                    map.push((k, self.node(depth + 1)?));
                }
                T::Du(disc, v, map)
            }
            "object" => {
                let n = self.num()?;
                let mut props = vec![];
                for _ in 0..n {
                    let k = self.next()?.to_string();
                    let opt = self.next()?.to_string();
                    props.push((k, opt, self.node(depth + 1)?));
                }
                let m = self.num()?;
                let mut idx = vec![];
                for _ in 0..m {
                    let k = self.node(depth + 1)?;
                    let v = self.node(depth + 1)?;
                    idx.push((k, v));
                }
                T::Object(props, idx)
            }
            _ => return None,
        })
    }
}

pub fn parse(tokens: &Value) -> Option<T> {
    let toks: Vec<String> = tokens.as_array()?.iter().filter_map(|x| x.as_str().map(String::from)).collect();
    let mut p = P { t: &toks, i: 0 };
    if p.next()? != "T:beff-hash256-v1" {
        return None;
    }
    let t = p.node(0)?;
    if p.i != toks.len() {
        return None;
    }
    Some(t)
}

#[derive(Clone, Copy, PartialEq, Eq, Debug)]
pub struct Norm {
    pub sort_members: bool,
    pub flatten_unions: bool,
    /// inside a union, a group of literals (anyOfConsts) counts as its individual literals
    pub explode_literal_groups: bool,
    /// inside a union, a discriminated union counts as its member schemas
    pub explode_discriminated: bool,
    pub flatten_inters: bool,
    pub ignore_cycle_ids: bool,
    /// an optional-field wrapper counts as a union with the nullish type
    pub optional_as_nullish: bool,
}

fn map_children(t: &T, f: &mut dyn FnMut(&T) -> T) -> T {
    match t {
        T::Leaf(..) => t.clone(),
        T::Node(tag, cs) => T::Node(tag.clone(), cs.iter().map(|c| f(c)).collect()),
        T::Object(ps, ix) => T::Object(ps.iter().map(|(k, o, c)| (k.clone(), o.clone(), f(c))).collect(), ix.iter().map(|(k, v)| (f(k), f(v))).collect()),
        T::Du(d, cs, m) => T::Du(d.clone(), cs.iter().map(|c| f(c)).collect(), m.iter().map(|(k, c)| (k.clone(), f(c))).collect()),
    }
}

pub fn normalise(t: &T, n: Norm) -> T {
    let t = map_children(t, &mut |c| normalise(c, n));
    // a discriminated union is a union of its member schemas plus a dispatch table derived from them
    let t = match t {
        T::Node(tag, mut cs) if tag == "optionalField" && n.optional_as_nullish && cs.len() == 1 => {
            normalise_union_node("anyOf".to_string(), vec![cs.pop().unwrap(), T::Leaf("nullish".into(), vec![])], n)
        }
        T::Du(_, members, _) if n.explode_discriminated => normalise_union_node("anyOf".to_string(), members, n),
        other => other,
    };
    match t {
        T::Leaf(tag, vals) if tag == "anyOfConsts" && n.explode_literal_groups && vals.len() == 1 => T::Leaf("const".into(), vals[0].split(' ').map(String::from).collect()),
        T::Leaf(tag, _) if tag == "cycleRef" && n.ignore_cycle_ids => T::Leaf(tag, vec![]),
        T::Node(tag, cs) if tag == "anyOf" || tag == "allOf" => normalise_union_node(tag, cs, n),
        T::Du(d, mut cs, m) => {
            if n.sort_members {
                cs.sort();
            }
            T::Du(d, cs, m)
        }
        other => other,
    }
}


fn normalise_union_node(tag: String, cs: Vec<T>, n: Norm) -> T {
    let mut cs = cs;
            let flatten = if tag == "anyOf" { n.flatten_unions } else { n.flatten_inters };
            if flatten {
                let mut out = vec![];
                for c in cs {
                    match c {
                        T::Node(t2, inner) if t2 == tag => out.extend(inner),
                        T::Du(_, members, _) if tag == "anyOf" && n.explode_discriminated => {
                            for m in members {
                                match m {
                                    T::Node(t3, inner) if t3 == "anyOf" => out.extend(inner),
                                    other => out.push(other),
                                }
                            }
                        }
                        other => out.push(other),
                    }
                }
                cs = out;
                if tag == "anyOf" {
                    // T | never = T
                    cs.retain(|c| !matches!(c, T::Leaf(t, _) if t == "never"));
                    if cs.is_empty() {
                        return T::Leaf("never".into(), vec![]);
                    }
                }
                if tag == "anyOf" && n.explode_literal_groups {
                    let mut out = vec![];
                    for c in cs {
                        match c {
                            T::Leaf(t2, vals) if t2 == "anyOfConsts" => {
                                for v in vals {
                                    out.push(T::Leaf("const".into(), v.split(' ').map(String::from).collect()));
                                }
                            }
                            other => out.push(other),
                        }
                    }
                    cs = out;
                }
                if tag == "allOf" {
                    // members that are all plain objects without index signatures and without conflicting keys are what the
                    // compiler merges when they are written inline: compare them merged
                    let all_obj = cs.iter().all(|c| matches!(c, T::Object(_, ix) if ix.is_empty()));
                    if all_obj && cs.len() >= 2 {
                        let mut props: Vec<(String, String, T)> = vec![];
                        let mut conflict = false;
                        for c in &cs {
                            if let T::Object(ps, _) = c {
                                for p in ps {
                                    match props.iter().find(|q| q.0 == p.0) {
                                        Some(q) if q != p => conflict = true,
                                        Some(_) => {}
                                        None => props.push(p.clone()),
                                    }
                                }
                            }
                        }
                        if !conflict {
                            props.sort();
                            return T::Object(props, vec![]);
                        }
                    }
                }
                if cs.len() == 1 {
                    return cs.pop().unwrap();
                }
            }
            if n.sort_members {
                cs.sort();
                cs.dedup();
            }
            if flatten && cs.len() == 1 {
                return cs.pop().unwrap();
            }
            T::Node(tag, cs)
}

/// the first normalisation step after which the two encodings coincide
pub fn diff_class(a: &Value, b: &Value) -> Option<&'static str> {
    let (ta, tb) = (parse(a)?, parse(b)?);
    let steps: [(&'static str, Norm); 7] = [
        ("member_order", Norm { sort_members: true, flatten_unions: false, explode_literal_groups: false, explode_discriminated: false, flatten_inters: false, ignore_cycle_ids: false, optional_as_nullish: false }),
        ("union_nesting", Norm { sort_members: true, flatten_unions: true, explode_literal_groups: false, explode_discriminated: false, flatten_inters: false, ignore_cycle_ids: false, optional_as_nullish: false }),
        ("union_literal_grouping", Norm { sort_members: true, flatten_unions: true, explode_literal_groups: true, explode_discriminated: false, flatten_inters: false, ignore_cycle_ids: false, optional_as_nullish: false }),
        ("discriminated_dispatch", Norm { sort_members: true, flatten_unions: true, explode_literal_groups: true, explode_discriminated: true, flatten_inters: false, ignore_cycle_ids: false, optional_as_nullish: false }),
        ("intersection_nesting", Norm { sort_members: true, flatten_unions: true, explode_literal_groups: true, explode_discriminated: true, flatten_inters: true, ignore_cycle_ids: false, optional_as_nullish: false }),
        ("cycle_numbering", Norm { sort_members: true, flatten_unions: true, explode_literal_groups: true, explode_discriminated: true, flatten_inters: true, ignore_cycle_ids: true, optional_as_nullish: false }),
        ("optional_field_vs_nullish_member", Norm { sort_members: true, flatten_unions: true, explode_literal_groups: true, explode_discriminated: true, flatten_inters: true, ignore_cycle_ids: true, optional_as_nullish: true }),
    ];
    if ta == tb {
        return Some("identical_encoding");
    }
    for (name, n) in steps {
        if normalise(&ta, n) == normalise(&tb, n) {
            return Some(name);
        }
    }
    // recursive types: the two encodings may cut the same infinite unfolding at different places (an alias hop moves
    // the point where the cycle is entered); they are compatible when no difference shows before a cut
    let last = steps[steps.len() - 1].1;
    let (na, nb) = (normalise(&ta, last), normalise(&tb, last));
    if has_cycle_ref(&na) || has_cycle_ref(&nb) {
        if compat(&na, &nb) {
            return Some("cycle_cut_position");
        }
        if std::env::var("DEBUG_HTREE").is_ok() {
            eprintln!("A = {:#?}\nB = {:#?}", na, nb);
        }
        // the unfoldings could not be aligned (a cut inside a re-ordered or re-nested union): still a recursive type
        // whose encoding depends on where the cycle is entered
        return Some("cycle_cut_position_unaligned");
    }
    if std::env::var("DEBUG_HTREE").is_ok() {
        eprintln!("A = {:#?}\nB = {:#?}", na, nb);
    }
    Some("other")
}

fn has_cycle_ref(t: &T) -> bool {
    match t {
        T::Leaf(tag, _) => tag == "cycleRef",
        T::Node(_, cs) => cs.iter().any(has_cycle_ref),
        T::Object(ps, ix) => ps.iter().any(|p| has_cycle_ref(&p.2)) || ix.iter().any(|(k, v)| has_cycle_ref(k) || has_cycle_ref(v)),
        T::Du(_, cs, m) => cs.iter().any(has_cycle_ref) || m.iter().any(|(_, c)| has_cycle_ref(c)),
    }
}

/// same constructors and payloads wherever both trees are defined; a cycleRef on either side stands for an unknown
/// continuation.  Members of unions/intersections are matched greedily (each member of one side needs a compatible,
/// not yet used member on the other side).
fn compat(a: &T, b: &T) -> bool {
    match (a, b) {
        (T::Leaf(t, _), _) if t == "cycleRef" => true,
        (_, T::Leaf(t, _)) if t == "cycleRef" => true,
        (T::Leaf(t1, p1), T::Leaf(t2, p2)) => t1 == t2 && p1 == p2,
        (T::Node(t1, c1), T::Node(t2, c2)) => {
            if t1 != t2 || c1.len() != c2.len() {
                return false;
            }
            if t1 == "anyOf" || t1 == "allOf" {
                // exact partners first, cut points (cycleRef on either side) as wildcards last
                let is_cut = |t: &T| matches!(t, T::Leaf(tag, _) if tag == "cycleRef");
                let mut used = vec![false; c2.len()];
                let mut pending = vec![];
                for x in c1 {
                    if is_cut(x) {
                        pending.push(x);
                        continue;
                    }
                    match (0..c2.len()).find(|&j| !used[j] && !is_cut(&c2[j]) && compat(x, &c2[j])) {
                        Some(j) => used[j] = true,
                        None => pending.push(x),
                    }
                }
                for x in pending {
                    match (0..c2.len()).find(|&j| !used[j] && compat(x, &c2[j])) {
                        Some(j) => used[j] = true,
                        None => return false,
                    }
                }
                true
            } else {
                c1.iter().zip(c2.iter()).all(|(x, y)| compat(x, y))
            }
        }
        (T::Object(p1, i1), T::Object(p2, i2)) => {
            p1.len() == p2.len()
                && i1.len() == i2.len()
                && p1.iter().zip(p2.iter()).all(|(x, y)| x.0 == y.0 && x.1 == y.1 && compat(&x.2, &y.2))
                && i1.iter().zip(i2.iter()).all(|(x, y)| compat(&x.0, &y.0) && compat(&x.1, &y.1))
        }
        (T::Du(d1, c1, _), T::Du(d2, c2, _)) => d1 == d2 && c1.len() == c2.len() && c1.iter().zip(c2.iter()).all(|(x, y)| compat(x, y)),
        _ => false,
    }
}
