//! Compile a project (set of source files) with the real beff-core from /repo, in process.
use beff_core::swc_tools::bind_exports::{parse_and_bind, FsModuleResolver};
use beff_core::{BeffUserSettings, BffFileName, EntryPoints, FileManager, ParsedModule};
use serde::{Deserialize, Serialize};
use std::collections::{BTreeMap, BTreeSet};
use std::rc::Rc;
use swc_common::{Globals, GLOBALS};

#[derive(Debug, Clone, Serialize, Deserialize, PartialEq)]
pub struct Project {
    pub files: Vec<(String, String)>,
    pub entry: String,
    pub string_formats: Vec<String>,
    pub number_formats: Vec<String>,
}

impl Project {
    pub fn single(text: &str) -> Project {
        Project {
            files: vec![("entry.ts".to_string(), text.to_string())],
            entry: "entry.ts".to_string(),
            string_formats: crate::den::STRING_FORMATS.iter().map(|s| s.to_string()).chain([crate::den::SHARED_FORMAT.to_string()]).collect(),
            number_formats: crate::den::NUMBER_FORMATS.iter().map(|s| s.to_string()).chain([crate::den::SHARED_FORMAT.to_string()]).collect(),
        }
    }
}

#[derive(Debug, Clone, Serialize, Deserialize, PartialEq)]
pub struct Diag {
    pub message: String,
    pub full: bool,
    pub file: String,
    pub line_lo: usize,
    pub col_lo: usize,
    pub line_hi: usize,
    pub col_hi: usize,
}

#[derive(Debug, Clone, Serialize, Deserialize, PartialEq, Default)]
pub struct CompileOut {
    pub code: Option<String>,
    pub emit_err: Option<String>,
    pub diags: Vec<Diag>,
    pub panic: Option<String>,
    /// serialized WasmDiagnostic (what the CLI would print)
    pub wasm_diag: String,
    pub decoder_names: Vec<String>,
}

pub fn normalize(path: &str) -> String {
    let mut out: Vec<&str> = vec![];
    for part in path.split('/') {
        match part {
            "" | "." => {}
            ".." => {
                out.pop();
            }
            p => out.push(p),
        }
    }
    out.join("/")
}

pub fn resolve_in(files: &BTreeMap<String, String>, current_file: &str, specifier: &str) -> Option<String> {
    if !(specifier.starts_with("./") || specifier.starts_with("../")) {
        return None;
    }
    let dir = match current_file.rfind('/') {
        Some(i) => &current_file[..i],
        None => "",
    };
    let base = normalize(&format!("{}/{}", dir, specifier));
    for cand in [
        base.clone(),
        format!("{}.ts", base),
        format!("{}.tsx", base),
        format!("{}.d.ts", base),
        format!("{}/index.ts", base),
    ] {
        if files.contains_key(&cand) {
            return Some(cand);
        }
    }
    None
}

struct Resolver<'a> {
    files: &'a BTreeMap<String, String>,
}
impl FsModuleResolver for Resolver<'_> {
    fn resolve_import(&mut self, current_file: BffFileName, module_specifier: &str) -> Option<BffFileName> {
        resolve_in(self.files, current_file.as_str(), module_specifier).map(BffFileName::new)
    }
}

/// Lazy file manager like the wasm one, but over an in-memory file map (ordered maps only).
pub struct MemFs {
    pub files: BTreeMap<String, String>,
    pub parsed: BTreeMap<BffFileName, Rc<ParsedModule>>,
    pub parse_failures: BTreeSet<String>,
}
impl MemFs {
    pub fn new(files: &[(String, String)]) -> MemFs {
        MemFs {
            files: files.iter().cloned().collect(),
            parsed: BTreeMap::new(),
            parse_failures: BTreeSet::new(),
        }
    }
    /// parse files eagerly in the given order (C10: registration order must not matter)
    pub fn preload(&mut self, order: &[String]) {
        for name in order {
            let _ = self.get_or_fetch_file(&BffFileName::new(name.clone()));
        }
    }
}
impl FileManager for MemFs {
    fn get_or_fetch_file(&mut self, name: &BffFileName) -> Option<Rc<ParsedModule>> {
        if let Some(it) = self.parsed.get(name) {
            return Some(it.clone());
        }
        let content = self.files.get(name.as_str())?.clone();
        let mut resolver = Resolver { files: &self.files };
        match parse_and_bind(&mut resolver, name, &content) {
            Ok(f) => {
                self.parsed.insert(name.clone(), f.clone());
                Some(f)
            }
            Err(_) => {
                self.parse_failures.insert(name.as_str().to_string());
                None
            }
        }
    }
    fn get_existing_file(&self, name: &BffFileName) -> Option<Rc<ParsedModule>> {
        self.parsed.get(name).cloned()
    }
    fn resolve_import(&mut self, current_file: BffFileName, module_specifier: &str) -> Option<BffFileName> {
        resolve_in(&self.files, current_file.as_str(), module_specifier).map(BffFileName::new)
    }
}

thread_local! {
    static LAST_PANIC: std::cell::RefCell<Option<String>> = const { std::cell::RefCell::new(None) };
}

pub fn install_panic_hook() {
    std::panic::set_hook(Box::new(|info| {
        let msg = if let Some(s) = info.payload().downcast_ref::<&str>() {
            s.to_string()
        } else if let Some(s) = info.payload().downcast_ref::<String>() {
            s.clone()
        } else {
            "<non-string panic>".to_string()
        };
        let loc = info.location().map(|l| format!("{}:{}", l.file(), l.line())).unwrap_or_default();
        if std::env::var("VERIF_DEBUG_PANIC").is_ok() {
            eprintln!("panic: {} @ {}", msg, loc);
        }
        LAST_PANIC.with(|p| *p.borrow_mut() = Some(format!("{} @ {}", msg, loc)));
    }));
}

#[cfg(feature = "engine")]
fn sem_request(req: &serde_json::Value) -> serde_json::Value {
    let req2 = req.clone();
    std::panic::catch_unwind(move || crate::sem::handle_sem(&req2)).unwrap_or_else(|_| serde_json::json!({"panic": take_panic().unwrap_or_default()}))
}
#[cfg(not(feature = "engine"))]
fn sem_request(_req: &serde_json::Value) -> serde_json::Value {
    serde_json::json!({"fatal": "harness built without the engine hooks"})
}

pub fn take_panic() -> Option<String> {
    LAST_PANIC.with(|p| p.borrow_mut().take())
}

pub fn compile(p: &Project) -> CompileOut {
    compile_with(p, None)
}

/// `preload`: optional eager registration order (C10)
pub fn compile_with(p: &Project, preload: Option<&[String]>) -> CompileOut {
    compile_shared(p, preload, 1).pop().unwrap_or_default()
}

/// `n` extractions over ONE file manager: the parsed modules of the first extraction are reused by the later ones
/// (what a watch session and any embedding that keeps its parsed files does)
pub fn compile_shared(p: &Project, preload: Option<&[String]>, n: u64) -> Vec<CompileOut> {
    let p2 = p.clone();
    let preload = preload.map(|x| x.to_vec());
    let res = std::panic::catch_unwind(move || {
        let globals = Globals::new();
        GLOBALS.set(&globals, || {
            let mut fs = MemFs::new(&p2.files);
            if let Some(order) = &preload {
                fs.preload(order);
            }
            let mut outs = vec![];
            for _ in 0..n {
                outs.push(extract_once(&mut fs, &p2));
            }
            outs
        })
    });
    match res {
        Ok(o) => o,
        Err(_) => vec![CompileOut {
            panic: Some(take_panic().unwrap_or_else(|| "<panic>".to_string())),
            ..Default::default()
        }],
    }
}

fn extract_once(fs: &mut MemFs, p2: &Project) -> CompileOut {
    let entry = EntryPoints {
        parser_entry_point: BffFileName::new(p2.entry.clone()),
        settings: BeffUserSettings {
            string_formats: p2.string_formats.iter().cloned().collect(),
            number_formats: p2.number_formats.iter().cloned().collect(),
        },
    };
    let res = beff_core::extract(fs, entry);
    let mut out = CompileOut::default();
    for e in &res.errors {
        out.diags.push(match &e.loc {
            beff_core::diag::Location::Full(f) => Diag {
                message: e.message.to_string(),
                full: true,
                file: f.file_name.to_string(),
                line_lo: f.loc_lo.line,
                col_lo: f.loc_lo.col.0,
                line_hi: f.loc_hi.line,
                col_hi: f.loc_hi.col.0,
            },
            beff_core::diag::Location::Unknown(u) => Diag {
                message: e.message.to_string(),
                full: false,
                file: u.current_file.to_string(),
                line_lo: 0,
                col_lo: 0,
                line_hi: 0,
                col_hi: 0,
            },
        });
    }
    out.wasm_diag = serde_json::to_string(&beff_core::wasm_diag::WasmDiagnostic::from_diagnostics(&res.errors))
        .unwrap_or_default();
    out.decoder_names = res
        .built_decoders
        .as_ref()
        .map(|v| v.iter().map(|d| d.exported_name.clone()).collect())
        .unwrap_or_default();
    if res.errors.is_empty() {
        match res.emit_code() {
            Ok(c) => out.code = Some(c),
            Err(e) => out.emit_err = Some(e.to_string()),
        }
    }
    out
}

// ------------------------------------------------------------------------------------------------
// subprocess compile worker: stack overflows and hangs cannot be caught in process
// ------------------------------------------------------------------------------------------------

/// `beffv worker-compile`: one JSON request per line -> one JSON answer per line.
pub fn worker_main() {
    use std::io::{BufRead, Write};
    install_panic_hook();
    println!("{{\"ready\":true}}");
    let stdin = std::io::stdin();
    for line in stdin.lock().lines() {
        let line = match line {
            Ok(l) => l,
            Err(_) => break,
        };
        if line.trim().is_empty() {
            continue;
        }
        let req: serde_json::Value = match serde_json::from_str(&line) {
            Ok(v) => v,
            Err(_) => continue,
        };
        let id = req["id"].clone();
        if req.get("sem").is_some() {
            let req2 = req.clone();
            let h = std::thread::Builder::new().stack_size(16 * 1024 * 1024).spawn(move || {
                sem_request(&req2)
            });
            let ans = match h {
                Ok(h) => h.join().unwrap_or_else(|_| serde_json::json!({"panic": "thread"})),
                Err(e) => serde_json::json!({"error": e.to_string()}),
            };
            let mut so = std::io::stdout().lock();
            let _ = writeln!(so, "{}", serde_json::json!({"id": id, "sem": ans}));
            let _ = so.flush();
            continue;
        }
        let project: Project = match serde_json::from_value(req["project"].clone()) {
            Ok(p) => p,
            Err(e) => {
                println!("{}", serde_json::json!({"id": id, "error": e.to_string()}));
                continue;
            }
        };
        let preload: Option<Vec<String>> = serde_json::from_value(req["preload"].clone()).ok().flatten();
        let repeat = req["repeat"].as_u64().unwrap_or(1);
        let shared = req["shared"].as_bool().unwrap_or(false);
        // the shipped artefact is wasm with a small stack; 16 MiB is already generous
        let h = std::thread::Builder::new()
            .stack_size(16 * 1024 * 1024)
            .spawn(move || {
                if shared {
                    return compile_shared(&project, preload.as_deref(), repeat);
                }
                let mut outs = vec![];
                for _ in 0..repeat {
                    outs.push(compile_with(&project, preload.as_deref()));
                }
                outs
            })
            .expect("spawn");
        let outs = h.join().unwrap_or_default();
        let mut so = std::io::stdout().lock();
        let _ = writeln!(so, "{}", serde_json::json!({"id": id, "outs": outs}));
        let _ = so.flush();
    }
}

#[derive(Debug, Clone)]
pub enum CompileFail {
    Crashed(String),
    Timeout,
    Infra(String),
}

pub struct SubCompiler {
    worker: Option<crate::proc::LineWorker>,
    shared_next: bool,
    /// coverage-guided stage (fuzz/): requests are served inside this process, on a thread with a large stack, so that
    /// the fuzzer's coverage counters see the compiler and the engine; time bounds are then libFuzzer's (-timeout) and a
    /// stack overflow kills the fuzzing process (the saved input is judged again through the subprocess path)
    pub inproc: bool,
}

fn on_big_stack<T: Send + 'static>(f: impl FnOnce() -> T + Send + 'static) -> Result<T, CompileFail> {
    let h = std::thread::Builder::new().stack_size(512 * 1024 * 1024).spawn(f).map_err(|e| CompileFail::Infra(e.to_string()))?;
    h.join().map_err(|_| CompileFail::Infra("in-process request panicked outside catch_unwind".into()))
}
impl SubCompiler {
    pub fn new() -> SubCompiler {
        SubCompiler { worker: None, shared_next: false, inproc: std::env::var("BEFFV_INPROC").is_ok() }
    }
    fn ensure(&mut self) -> Result<(), CompileFail> {
        if self.worker.is_none() {
            let exe = std::env::current_exe().map_err(|e| CompileFail::Infra(e.to_string()))?;
            // no core dumps when the compiler overflows its stack
            let mut cmd = std::process::Command::new("/bin/sh");
            cmd.arg("-c")
                .arg("ulimit -c 0; exec \"$0\" worker-compile")
                .arg(exe)
                .stderr(std::process::Stdio::null());
            // fresh hash seeds per process come for free (std RandomState)
            self.worker = Some(
                crate::proc::LineWorker::spawn(cmd, std::time::Duration::from_secs(30)).map_err(|e| CompileFail::Infra(e.to_string()))?,
            );
        }
        Ok(())
    }
    pub fn restart(&mut self) {
        self.worker = None;
    }
    /// `repeat` extractions over one file manager (parsed modules shared)
    pub fn compile_shared(&mut self, p: &Project, repeat: u64, timeout_s: u64) -> Result<Vec<CompileOut>, CompileFail> {
        self.shared_next = true;
        let r = self.compile_many(p, None, repeat, timeout_s);
        self.shared_next = false;
        r
    }
    pub fn compile_many(&mut self, p: &Project, preload: Option<&[String]>, repeat: u64, timeout_s: u64) -> Result<Vec<CompileOut>, CompileFail> {
        if self.inproc {
            let (p, preload, shared) = (p.clone(), preload.map(|x| x.to_vec()), self.shared_next);
            return on_big_stack(move || {
                if shared {
                    return compile_shared(&p, preload.as_deref(), repeat);
                }
                (0..repeat).map(|_| compile_with(&p, preload.as_deref())).collect()
            });
        }
        self.ensure()?;
        let req = serde_json::json!({"project": p, "preload": preload, "repeat": repeat, "shared": self.shared_next});
        let r = self.worker.as_mut().unwrap().request(req, std::time::Duration::from_secs(timeout_s));
        match r {
            Ok(v) => {
                if let Some(e) = v.get("error") {
                    return Err(CompileFail::Infra(e.to_string()));
                }
                serde_json::from_value(v["outs"].clone()).map_err(|e| CompileFail::Infra(e.to_string()))
            }
            Err(crate::proc::WorkerError::Timeout) => {
                self.worker = None;
                Err(CompileFail::Timeout)
            }
            Err(crate::proc::WorkerError::Died(s)) => {
                self.worker = None;
                Err(CompileFail::Crashed(s))
            }
            Err(crate::proc::WorkerError::Infra(s)) => {
                self.worker = None;
                Err(CompileFail::Infra(s))
            }
        }
    }
    /// semantic-engine request (see sem::handle_sem)
    pub fn sem(&mut self, req: serde_json::Value, timeout_s: u64) -> Result<serde_json::Value, CompileFail> {
        if self.inproc {
            return on_big_stack(move || sem_request(&req));
        }
        self.ensure()?;
        let r = self.worker.as_mut().unwrap().request(req, std::time::Duration::from_secs(timeout_s));
        match r {
            Ok(v) => Ok(v["sem"].clone()),
            Err(crate::proc::WorkerError::Timeout) => {
                self.worker = None;
                Err(CompileFail::Timeout)
            }
            Err(crate::proc::WorkerError::Died(s)) => {
                self.worker = None;
                Err(CompileFail::Crashed(s))
            }
            Err(crate::proc::WorkerError::Infra(s)) => {
                self.worker = None;
                Err(CompileFail::Infra(s))
            }
        }
    }
    pub fn compile(&mut self, p: &Project, timeout_s: u64) -> Result<CompileOut, CompileFail> {
        let mut v = self.compile_many(p, None, 1, timeout_s)?;
        v.pop().ok_or(CompileFail::Infra("empty answer".into()))
    }
}
