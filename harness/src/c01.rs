//! C01 — generated validators accept exactly the values of the declared TypeScript type.
//! Also hosts the shared "typed case" machinery (program + values + reference verdicts) used by C03/C11/C12.
use crate::compile::{CompileFail, Project};
use crate::den::{gen_env_and_roots, Env, GenCfg, D};
use crate::jsval::{arbitrary, mutate, JsVal};
use crate::member::{Mode, Ref, Tri};
use crate::render::{render_program, RenderCfg};
use crate::runner::{fp, Check, Ctx, Outcome, Tier};
use crate::src::Src;
use serde::{Deserialize, Serialize};
use serde_json::{json, Value};
use std::collections::BTreeMap;

#[derive(Debug, Clone, Serialize, Deserialize)]
pub struct TypedCase {
    pub env: Env,
    pub roots: Vec<(String, D)>,
    pub program: String,
    /// per root: (value, source label)
    pub values: Vec<Vec<(JsVal, String)>>,
    pub used: BTreeMap<String, u32>,
}

pub fn gen_values(env: &Env, d: &D, s: &mut Src, mode: Mode, n_member: usize, n_near: usize, n_arb: usize) -> Vec<(JsVal, String)> {
    let r = Ref::new(env, mode);
    let mut out: Vec<(JsVal, String)> = vec![];
    let mut members: Vec<JsVal> = vec![];
    for _ in 0..n_member {
        if let Some(v) = r.gen_member(d, s, 3) {
            members.push(v.clone());
            out.push((v, "member".into()));
        }
    }
    // types with intersections: values that belong to one operand only
    let has_inter = d.any_node(&mut |n| matches!(n, D::Inter(_))) || env.defs.iter().any(|(_, x)| x.any_node(&mut |n| matches!(n, D::Inter(_))));
    if has_inter && n_near > 0 {
        r.relax_inter.set(true);
        for _ in 0..3 {
            if let Some(v) = r.gen_member(d, s, 3) {
                out.push((v, "near".into()));
            }
        }
        r.relax_inter.set(false);
    }
    for i in 0..n_near {
        let base = if members.is_empty() { arbitrary(s, 2) } else { members[i % members.len()].clone() };
        let m = mutate(&base, s);
        out.push((m, "near".into()));
    }
    for _ in 0..n_arb {
        out.push((arbitrary(s, 2), "arbitrary".into()));
    }
    out.into_iter().map(|(v, l)| (crate::jsval::canon(v), l)).collect()
}

/// `{ [key: string]: T }` <-> `{ [key: string]: T | undefined }` at the first index signature found (the second is what
/// `Partial<Record<string, T>>` means)
pub fn toggle_index_optionality(d: &D) -> Option<D> {
    match d {
        D::Object { props, index: Some(ix) } => {
            let new_ix = match ix.as_ref() {
                D::Union(ms) if ms.len() == 2 && ms.iter().any(|m| matches!(m, D::Undefined)) => ms.iter().find(|m| !matches!(m, D::Undefined)).unwrap().clone(),
                other => D::Union(vec![other.clone(), D::Undefined]),
            };
            Some(D::Object { props: props.clone(), index: Some(Box::new(new_ix)) })
        }
        D::Object { props, index: None } => {
            for (i, p) in props.iter().enumerate() {
                if let Some(t) = toggle_index_optionality(&p.ty) {
                    let mut p2 = props.clone();
                    p2[i].ty = t;
                    return Some(D::Object { props: p2, index: None });
                }
            }
            None
        }
        D::Array(x) => toggle_index_optionality(x).map(|t| D::Array(Box::new(t))),
        D::Union(ms) => {
            for (i, m) in ms.iter().enumerate() {
                if let Some(t) = toggle_index_optionality(m) {
                    let mut m2 = ms.clone();
                    m2[i] = t;
                    return Some(D::Union(m2));
                }
            }
            None
        }
        _ => None,
    }
}

pub fn gen_typed_case(s: &mut Src, cfg: &GenCfg, rcfg: RenderCfg, mode: Mode, max_roots: usize, vals: (usize, usize, usize)) -> TypedCase {
    let n_roots = s.range(1, max_roots);
    let (env, roots) = gen_env_and_roots(s, cfg, n_roots);
    let mut roots: Vec<(String, D)> = roots.into_iter().enumerate().map(|(i, d)| (format!("P{}", i), d)).collect();
    // a near-duplicate sibling: one more parser whose type is a one-edit variant of a root or of a named definition (an
    // optionality flipped - also that of an index signature's value -, a literal changed, a member added or dropped).
    // Validators that the compiler shares between structurally equal sub-types must not be shared between these.
    let mut twin: Option<(Option<usize>, usize)> = None;
    if s.chance(1, 3) {
        let from_def = !env.defs.is_empty() && s.chance(1, 3);
        let (src_root, src_d) = if from_def {
            (None, env.get(s.below(env.defs.len())).clone())
        } else {
            let i = s.below(roots.len());
            (Some(i), roots[i].1.clone())
        };
        let edited = match s.below(4) {
            0 => crate::den::toggle_some_optionality(&src_d, s),
            1 => toggle_index_optionality(&src_d),
            _ => None,
        };
        let m = edited.unwrap_or_else(|| crate::den::mutate_type(&src_d, s, cfg, env.defs.len()));
        // an edit must not produce an object type whose named properties are not assignable to its index signature
        // (`{ a: number; [key: string]: string }` is not TypeScript): every object with both has to occur in the source
        fn indexed_with_props(d: &D, out: &mut Vec<String>) {
            d.any_node(&mut |n| {
                if let D::Object { props, index: Some(_) } = n {
                    if !props.is_empty() {
                        out.push(serde_json::to_string(n).unwrap_or_default());
                    }
                }
                false
            });
        }
        let (mut before, mut after) = (vec![], vec![]);
        indexed_with_props(&src_d, &mut before);
        for (_, d) in &env.defs {
            indexed_with_props(d, &mut before);
        }
        indexed_with_props(&m, &mut after);
        let well_formed = after.iter().all(|x| before.contains(x));
        if m != src_d && well_formed {
            twin = Some((src_root, roots.len()));
            roots.push(("M0".to_string(), m));
        }
    }
    let (program, mut rendered) = render_program(&env, &roots, rcfg, s, "");
    let mut values = vec![];
    for (_, d) in &roots {
        values.push(gen_values(&env, d, s, mode, vals.0, vals.1, vals.2));
    }
    if let Some((src, j)) = twin {
        *rendered.used.entry("near_duplicate_sibling".to_string()).or_insert(0) += 1;
        // each one's members are near misses of the other
        if let Some(i) = src {
            let a: Vec<(JsVal, String)> = values[i].iter().filter(|v| v.1 == "member").take(4).map(|v| (v.0.clone(), "near".to_string())).collect();
            let b: Vec<(JsVal, String)> = values[j].iter().filter(|v| v.1 == "member").take(4).map(|v| (v.0.clone(), "near".to_string())).collect();
            values[j].extend(a);
            values[i].extend(b);
        }
    }
    TypedCase { env, roots, program, values, used: rendered.used }
}

/// Compile + load; returns Err(outcome) when the case cannot proceed.
pub struct Loaded {
    pub code: String,
}
pub fn compile_case(program: &str, out: &mut Outcome, ctx: &mut Ctx, prop: &str) -> Option<String> {
    let c = match ctx.compiler.compile(&Project::single(program), if ctx.shrinking { 3 } else { 20 }) {
        Ok(c) => c,
        Err(CompileFail::Crashed(st)) => {
            out.mismatch(ctx, "compile_crash", format!("compiler process died ({}) on a supported program", st), json!({"program": program}));
            out.label("compile_crash");
            return None;
        }
        Err(CompileFail::Timeout) => {
            out.mismatch(ctx, "compile_hang", "compiler did not return within 20 s on a supported program", json!({"program": program}));
            out.label("compile_hang");
            return None;
        }
        Err(CompileFail::Infra(e)) => {
            out.infra = Some(e);
            return None;
        }
    };
    if let Some(p) = c.panic {
        let site = panic_site(&p);
        out.mismatch(ctx, &format!("panic:{}", site), format!("compiler panicked on a supported program: {}", p), json!({"program": program, "panic": p}));
        out.label("compile_panic");
        return None;
    }
    if !c.diags.is_empty() {
        let m = c.diags[0].message.clone();
        out.mismatch(
            ctx,
            &format!("diag:{}", diag_class(&m)),
            format!("diagnostic on a program of the supported subset: {}", m),
            json!({"program": program, "diagnostics": c.diags, "property": prop}),
        );
        out.label("compile_diag");
        return None;
    }
    match c.code {
        Some(code) => Some(code),
        None => {
            out.mismatch(ctx, "emit_error", format!("emit_code failed: {:?}", c.emit_err), json!({"program": program}));
            None
        }
    }
}

pub fn panic_site(p: &str) -> String {
    // "<msg> @ <file>:<line>" -> "<msg prefix>@<file>" (line numbers move with unrelated edits)
    match p.rfind(" @ ") {
        Some(i) => {
            let msg: String = p[..i].chars().take(70).collect();
            let loc = &p[i + 3..];
            let short = loc.rsplit("packages/").next().unwrap_or(loc);
            let file = short.rsplit_once(':').map(|(f, _)| f).unwrap_or(short);
            format!("{}@{}", msg, file)
        }
        None => p.chars().take(70).collect(),
    }
}
pub fn diag_class(m: &str) -> String {
    // strip embedded names so that one root cause has one signature
    let m = m.split('\'').next().unwrap_or(m);
    m.trim().chars().take(80).collect()
}

pub fn formats_json() -> (Vec<String>, Vec<String>) {
    (
        crate::den::STRING_FORMATS.iter().map(|s| s.to_string()).chain([crate::den::SHARED_FORMAT.to_string()]).collect(),
        crate::den::NUMBER_FORMATS.iter().map(|s| s.to_string()).chain([crate::den::SHARED_FORMAT.to_string()]).collect(),
    )
}

pub fn node_case(ctx: &mut Ctx, code: Option<&str>, queries: Vec<Value>) -> Result<Value, String> {
    let (sf, nf) = formats_json();
    let mut req = json!({"op": "case", "queries": queries, "stringFormats": sf, "numberFormats": nf});
    if let Some(c) = code {
        req["code"] = json!(c);
    }
    ctx.node(req).map_err(|e| e.to_string())
}

/// Which known defect model (quirk) explains `got` for (d, v)?  See member.rs `Quirks`.
pub fn explain(env: &Env, d: &D, v: &JsVal, mode: Mode, got: bool) -> Option<&'static str> {
    explain_with(env, d, v, mode, got, false)
}
/// `through_engine`: the program re-materialises types from the semantic engine (Exclude spellings)
pub fn explain_with(env: &Env, d: &D, v: &JsVal, mode: Mode, got: bool, through_engine: bool) -> Option<&'static str> {
    for (q, du_model) in crate::member::ALL_QUIRKS.iter().flat_map(|q| if through_engine { vec![(q, true), (q, false)] } else { vec![(q, true)] }) {
        // the unspecified zone is completed both ways: a defect model explains the observation if it does so
        // under some reading of what the statement leaves open
        for completion in [None, Some(false), Some(true)] {
            let mut r = Ref::with_quirk(env, mode, q);
            r.unspec_as = completion;
            r.du_model = du_model;
            let mut b = Ref::new(env, mode);
            b.unspec_as = completion;
            let m = r.member(d, v);
            let base = b.member(d, v);
            if std::env::var("DEBUG_EXPLAIN").is_ok() {
                eprintln!("explain quirk={} completion={:?} m={:?} base={:?} got={}", q, completion, m, base, got);
            }
            if m != base && m == Tri::from_bool(got) {
                return Some(q);
            }
        }
    }
    None
}

pub struct C01;

impl Check for C01 {
    fn fuzz_runs(&self) -> u64 {
        15000
    }
    fn id(&self) -> &'static str {
        "C01"
    }
    fn cases(&self, tier: Tier) -> u32 {
        match tier {
            Tier::Quick => 8000,
            Tier::Thorough => 120_000,
        }
    }
    fn stream_len(&self) -> usize {
        2500
    }
    fn rule(&self) -> String {
        "case = denotation environment (<=3 named, possibly recursive definitions) + 1-3 root types of depth <=4, printed with randomly chosen TypeScript spellings (aliases, interfaces/extends, generics, Partial/Required/Pick/Omit/Record/mapped, keyof, indexed access, Exclude, conditional, enums, typeof const, templates, formats, Date/bigint/Map/Set/typed arrays) and ~24 values per root (members by construction, one-edit near misses, arbitrary JS values incl. non-JSON and hostile keys); oracle = reference membership on the denotation (ternary; only definite verdicts are compared). Non-trivial = some root has depth>=2 or a utility/generic/recursive spelling AND its value set produced both definite accepts and definite rejects. Distinct = hash of program text.".into()
    }
    fn assumptions(&self) -> Vec<String> {
        vec![
            "the reference membership is my reading of TypeScript membership under beff's stated conventions; verdicts the statement does not pin (absent required property of nullish-admitting type, builtin instances vs object types, exotic ${number} spellings, short tuples with undefined-admitting elements) are 'unspecified' and never compared".into(),
            "spellings are TypeScript-equivalent by construction (no TypeScript compiler is available offline)".into(),
            "bounds: depth<=4, <=3 named definitions, <=3 parsers, vocabulary of 6 keys / 5 string / 5 number literals".into(),
        ]
    }
    fn health(&self) -> Vec<(&'static str, f64)> {
        vec![("has_reject", 0.3), ("has_accept", 0.3), ("loaded", 0.5)]
    }
    fn generate(&self, s: &mut Src, _tier: Tier) -> Value {
        let cfg = GenCfg::default();
        let case = gen_typed_case(s, &cfg, RenderCfg::all(), Mode::Open, 3, (10, 8, 6));
        serde_json::to_value(case).unwrap()
    }
    fn exec(&self, case: &Value, ctx: &mut Ctx) -> Outcome {
        let case: TypedCase = match serde_json::from_value(case.clone()) {
            Ok(c) => c,
            Err(e) => return Outcome::infra(format!("bad case: {}", e)),
        };
        let mut out = Outcome::default();
        for k in case.used.keys() {
            out.label(format!("spelling:{}", k));
        }
        let code = match compile_case(&case.program, &mut out, ctx, "C01") {
            Some(c) => c,
            None => return out,
        };
        let mut queries = vec![];
        for (i, (name, _)) in case.roots.iter().enumerate() {
            queries.push(json!({"q":"validateMany","parser":name,"values": case.values[i].iter().map(|(v,_)| v.to_tagged()).collect::<Vec<_>>(), "optsList":[null]}));
        }
        let resp = match node_case(ctx, Some(&code), queries) {
            Ok(r) => r,
            Err(e) => return Outcome::infra(e),
        };
        if let Some(le) = resp.get("loadError") {
            out.mismatch(ctx, "load_error", format!("emitted module does not load: {}", le), json!({"program": case.program, "loadError": le}));
            return out;
        }
        out.label("loaded");
        let r = Ref::new(&case.env, Mode::Open);
        let mut any_nontrivial = false;
        for (i, (name, d)) in case.roots.iter().enumerate() {
            out.label(format!("root:{}", d.label()));
            let m = &resp["results"][i]["m"];
            if !m.is_array() {
                return Outcome::infra(format!("worker returned no matrix: {}", resp["results"][i]));
            }
            let (mut acc, mut rej) = (0, 0);
            for (j, (v, src)) in case.values[i].iter().enumerate() {
                let cell = &m[j][0];
                out.evals += 1;
                let expected = r.member(d, v);
                let got = match cell.as_i64() {
                    Some(1) => true,
                    Some(0) => false,
                    _ => {
                        out.label("validate_threw");
                        continue; // throwing is C03's subject
                    }
                };
                match expected {
                    Tri::Unspec => {
                        out.label("unspecified");
                        continue;
                    }
                    Tri::Yes => acc += 1,
                    Tri::No => rej += 1,
                }
                out.label(format!("value:{}", src));
                if Tri::from_bool(got) != expected {
                    // types that went through the semantic engine (Exclude spelling) inherit its known findings
                    // (C07: containers over empty types judged empty, `any` closed to the engine's universe)
                    let sigs: Vec<String> = match explain(&case.env, d, v, Mode::Open, got) {
                        Some(q) => vec![q.to_string()],
                        None if case.used.contains_key("exclude") => crate::csem::engine_family_sigs("c01_membership", &case.env, d, Some(v)),
                        None => vec!["c01_membership".to_string()],
                    };
                    let what = format!(
                        "validator for {} {} a value the type {}",
                        name,
                        if got { "accepts" } else { "rejects" },
                        if got { "does not contain" } else { "contains" }
                    );
                    out.mismatch_any(ctx, &sigs, what, json!({"program": case.program, "parser": name, "type": d, "value": v, "validate": got, "reference": format!("{:?}", expected)}));
                }
            }
            if acc > 0 {
                out.label("has_accept");
            }
            if rej > 0 {
                out.label("has_reject");
            }
            let structured = d.depth() >= 2 || !case.used.is_empty() || d.any_node(&mut |n| matches!(n, D::Ref(_)));
            if structured && acc > 0 && rej > 0 {
                any_nontrivial = true;
            }
        }
        if any_nontrivial {
            out.nontrivial = Some(fp(&case.program));
            out.sample = Some(json!({"program": case.program, "values_first_root": case.values[0].iter().take(4).map(|(v, s)| json!([v.to_tagged(), s])).collect::<Vec<_>>()}));
        }
        out
    }
}
