//! Type denotations: the *meaning* of a type, generated before (and independently of) any TypeScript spelling.
use crate::src::Src;
use serde::{Deserialize, Serialize};

pub const TYPED_ARRAYS: [&str; 11] = [
    "Uint8Array",
    "Uint8ClampedArray",
    "Uint16Array",
    "Uint32Array",
    "Int8Array",
    "Int16Array",
    "Int32Array",
    "Float32Array",
    "Float64Array",
    "BigInt64Array",
    "BigUint64Array",
];
pub const STRING_FORMATS: [&str; 3] = ["lower", "len3", "aprefix"];
pub const NUMBER_FORMATS: [&str; 2] = ["nonneg", "int"];
/// registered like the others but only generated where a check asks for it: one name that is both a string format and a
/// number format (the two are different types)
pub const SHARED_FORMAT: &str = "code";

#[derive(Debug, Clone, PartialEq, Serialize, Deserialize)]
pub enum TplPart {
    Lit(String),
    Str,
    Num,
    Bool,
    OneOf(Vec<String>),
}

#[derive(Debug, Clone, PartialEq, Serialize, Deserialize)]
pub struct Prop {
    pub key: String,
    pub ty: D,
    pub optional: bool,
}

#[derive(Debug, Clone, PartialEq, Serialize, Deserialize)]
pub enum D {
    Never,
    Any,
    Null,
    Undefined,
    Void,
    Bool,
    BoolLit(bool),
    Num,
    /// numeric literal, kept as the source text of a TypeScript/JS number (e.g. "1", "-1", "1.5")
    NumLit(String),
    Str,
    StrLit(String),
    Tpl(Vec<TplPart>),
    StrFmt(Vec<String>),
    NumFmt(Vec<String>),
    BigInt,
    Date,
    TypedArray(usize),
    Array(Box<D>),
    Tuple(Vec<D>, Option<Box<D>>),
    Object {
        props: Vec<Prop>,
        /// index signature with key type `string`: value type
        index: Option<Box<D>>,
    },
    Map(Box<D>, Box<D>),
    Set(Box<D>),
    Union(Vec<D>),
    Inter(Vec<D>),
    Ref(usize),
}

#[derive(Debug, Clone, PartialEq, Serialize, Deserialize, Default)]
pub struct Env {
    pub defs: Vec<(String, D)>,
}

impl Env {
    pub fn get(&self, i: usize) -> &D {
        &self.defs[i].1
    }
}

impl D {
    pub fn obj(props: Vec<(&str, D, bool)>) -> D {
        D::Object {
            props: props
                .into_iter()
                .map(|(k, ty, optional)| Prop {
                    key: k.to_string(),
                    ty,
                    optional,
                })
                .collect(),
            index: None,
        }
    }
    pub fn depth(&self) -> usize {
        match self {
            D::Array(x) | D::Set(x) => 1 + x.depth(),
            D::Map(a, b) => 1 + a.depth().max(b.depth()),
            D::Tuple(p, r) => {
                1 + p
                    .iter()
                    .map(|x| x.depth())
                    .chain(r.iter().map(|x| x.depth()))
                    .max()
                    .unwrap_or(0)
            }
            D::Object { props, index } => {
                1 + props
                    .iter()
                    .map(|p| p.ty.depth())
                    .chain(index.iter().map(|x| x.depth()))
                    .max()
                    .unwrap_or(0)
            }
            D::Union(v) | D::Inter(v) => 1 + v.iter().map(|x| x.depth()).max().unwrap_or(0),
            _ => 0,
        }
    }
    pub fn children(&self) -> Vec<&D> {
        match self {
            D::Array(x) | D::Set(x) => vec![x],
            D::Map(a, b) => vec![a, b],
            D::Tuple(p, r) => p.iter().chain(r.iter().map(|x| &**x)).collect(),
            D::Object { props, index } => props
                .iter()
                .map(|p| &p.ty)
                .chain(index.iter().map(|x| &**x))
                .collect(),
            D::Union(v) | D::Inter(v) => v.iter().collect(),
            _ => vec![],
        }
    }
    pub fn any_node(&self, f: &mut dyn FnMut(&D) -> bool) -> bool {
        if f(self) {
            return true;
        }
        for c in self.children() {
            if c.any_node(f) {
                return true;
            }
        }
        false
    }
    /// coarse construct label used in evidence histograms
    pub fn label(&self) -> &'static str {
        match self {
            D::Never => "never",
            D::Any => "any",
            D::Null | D::Undefined | D::Void => "nullish",
            D::Bool => "boolean",
            D::BoolLit(_) => "boollit",
            D::Num => "number",
            D::NumLit(_) => "numlit",
            D::Str => "string",
            D::StrLit(_) => "strlit",
            D::Tpl(_) => "template",
            D::StrFmt(_) => "strfmt",
            D::NumFmt(_) => "numfmt",
            D::BigInt => "bigint",
            D::Date => "date",
            D::TypedArray(_) => "typedarray",
            D::Array(_) => "array",
            D::Tuple(_, None) => "tuple",
            D::Tuple(_, Some(_)) => "tuple_rest",
            D::Object { index: None, .. } => "object",
            D::Object { index: Some(_), props } if props.is_empty() => "record",
            D::Object { .. } => "object_index",
            D::Map(_, _) => "map",
            D::Set(_) => "set",
            D::Union(_) => "union",
            D::Inter(_) => "intersection",
            D::Ref(_) => "ref",
        }
    }
}

/// Which families the generator may draw (properties restrict the domain to what their statement covers).
#[derive(Debug, Clone)]
pub struct GenCfg {
    pub non_json: bool,   // Date, bigint, Map, Set, typed arrays
    pub formats: bool,    // custom string/number formats
    pub templates: bool,  // template literal types
    pub any: bool,        // any / unknown
    pub never: bool,      // never (as a leaf)
    pub inter: bool,      // intersections
    pub index: bool,      // index signatures / records
    pub recursion: bool,  // recursive named types
    pub max_depth: usize,
    pub max_defs: usize,
    /// weight multiplier for objects/unions of objects (C11, C12 lean on them)
    pub object_bias: u32,
    /// only `null` among the nullish types (C05's fragment)
    pub only_null: bool,
    /// intersections whose members all admit null
    pub inter_nullable: bool,
    /// intersections of array / tuple types
    pub inter_lists: bool,
    /// intersection members with an index signature
    pub inter_indexed: bool,
    /// now and then a definition is named with `$` or a non-ASCII letter (both are TypeScript identifiers)
    pub odd_names: bool,
}

impl Default for GenCfg {
    fn default() -> Self {
        GenCfg {
            non_json: true,
            formats: true,
            templates: true,
            any: true,
            never: true,
            inter: true,
            index: true,
            recursion: true,
            max_depth: 4,
            max_defs: 3,
            object_bias: 1,
            only_null: false,
            inter_nullable: true,
            inter_lists: true,
            inter_indexed: true,
            odd_names: true,
        }
    }
}

pub const KEYS: [&str; 6] = ["a", "b", "c", "k", "a-b", "0"];
/// property names that need quoting / escaping wherever beff prints them (JS object literals, schemas, describe())
/// ... and declared property names that every object inherits from Object.prototype
pub const ODD_KEYS: [&str; 7] = ["q\"t", "b\\s", "x y", "\u{e9}", "constructor", "toString", "prototype"];
pub const STR_LITS: [&str; 5] = ["a", "b", "c", "a-b", ""];
pub const NUM_LITS: [&str; 5] = ["0", "1", "2", "-1", "1.5"];
/// literal chunks of template literal types: plain text first, then every regular-expression metacharacter
/// (the emitted validator is a regex built from the chunks)
pub const TPL_LITS: [&str; 17] = ["a", "-", "x.", "(b)", "a|b", "$", "[k]", "a+", "^", "\\d", "{2}", "?", "*", "/", "`", "${", "a`${b}"];
pub const DEF_NAMES: [&str; 4] = ["Alpha", "Beta", "Gamma", "Delta"];
pub const ODD_DEF_NAMES: [&str; 4] = ["Alpha$", "Bêta", "$Gamma", "Delta$x"];
pub const ODD_DEF_NAMES2: [&str; 4] = ["Alpha$$a", "Beta$$", "$$Gamma", "Delta$$"];
/// legal type names that every plain JavaScript object inherits from Object.prototype (a table keyed by type names must not find them there)
pub const ODD_DEF_NAMES3: [&str; 4] = ["toString", "constructor", "valueOf", "hasOwnProperty"];

struct G<'c> {
    cfg: &'c GenCfg,
    /// which earlier definitions are object types (usable as intersection members)
    object_defs: Vec<usize>,
    /// number of defs that may be referenced freely (earlier defs)
    ndefs_before: usize,
    /// total number of defs (self/forward references allowed only in guarded positions)
    ndefs_total: usize,
}

impl<'c> G<'c> {
    fn leaf(&self, s: &mut Src) -> D {
        // choice 0 = string (simplest)
        let cfg = self.cfg;
        let w = [
            6, // Str
            5, // Num
            3, // Bool
            5, // StrLit
            4, // NumLit
            2, // BoolLit
            3, // Null/Undefined/Void
            if cfg.any { 1 } else { 0 },
            if cfg.never { 1 } else { 0 },
            if cfg.templates { 2 } else { 0 },
            if cfg.formats { 2 } else { 0 },
            if cfg.non_json { 3 } else { 0 },
        ];
        match s.weighted(&w) {
            0 => D::Str,
            1 => D::Num,
            2 => D::Bool,
            3 => D::StrLit(s.pick(&STR_LITS).to_string()),
            4 => D::NumLit(s.pick(&NUM_LITS).to_string()),
            5 => D::BoolLit(s.below(2) == 1),
            6 => match if self.cfg.only_null { let _ = s.below(3); 0 } else { s.below(3) } {
                0 => D::Null,
                1 => D::Undefined,
                _ => D::Void,
            },
            7 => D::Any,
            8 => D::Never,
            9 => self.template(s),
            10 => {
                if s.below(2) == 0 {
                    let n = s.range(1, 2);
                    let mut chain = vec![];
                    for _ in 0..n {
                        let f = s.pick(&STRING_FORMATS).to_string();
                        if !chain.contains(&f) {
                            chain.push(f);
                        }
                    }
                    D::StrFmt(chain)
                } else {
                    let n = s.range(1, 2);
                    let mut chain = vec![];
                    for _ in 0..n {
                        let f = s.pick(&NUMBER_FORMATS).to_string();
                        if !chain.contains(&f) {
                            chain.push(f);
                        }
                    }
                    D::NumFmt(chain)
                }
            }
            _ => match s.below(3) {
                0 => D::Date,
                1 => D::BigInt,
                _ => D::TypedArray(s.below(TYPED_ARRAYS.len())),
            },
        }
    }

    fn template(&self, s: &mut Src) -> D {
        let n = s.range(1, 3);
        let mut parts: Vec<TplPart> = vec![];
        let mut has_hole = false;
        for _ in 0..n {
            let p = match s.below(6) {
                0 => TplPart::Str,
                1 => TplPart::Lit(s.pick(&TPL_LITS).to_string()),
                2 => TplPart::Num,
                3 => TplPart::Bool,
                // (now and then one of the alternatives is the empty string)
                4 => if s.chance(1, 3) { TplPart::OneOf(vec!["".into(), "b".into()]) } else { TplPart::OneOf(vec!["a".into(), "b".into()]) },
                _ => TplPart::Lit(s.pick(&TPL_LITS).to_string()),
            };
            // no two adjacent literals (they would be one quasi)
            if let (Some(TplPart::Lit(_)), TplPart::Lit(_)) = (parts.last(), &p) {
                continue;
            }
            if !matches!(p, TplPart::Lit(_)) {
                has_hole = true;
            }
            parts.push(p);
        }
        if !has_hole {
            parts.push(TplPart::Str);
        }
        D::Tpl(parts)
    }

    /// `guarded`: position where a self/forward reference keeps the definition contractive and inhabited
    fn ty(&self, s: &mut Src, depth: usize, guarded: bool) -> D {
        if depth == 0 {
            return self.leaf_or_ref(s, guarded);
        }
        let cfg = self.cfg;
        let ob = cfg.object_bias;
        let w = [
            8,      // leaf
            5 * ob, // object
            3,      // array
            3,      // tuple
            4,      // union
            if cfg.inter { 2 * ob } else { 0 },
            3, // ref
            if cfg.index { 2 } else { 0 },
            if cfg.non_json { 1 } else { 0 }, // map / set
            3 * ob,                           // discriminated union
            2,                                // literal union
        ];
        match s.weighted(&w) {
            0 => self.leaf_or_ref(s, guarded),
            1 => self.object(s, depth, false),
            2 => D::Array(Box::new(self.ty(s, depth - 1, true))),
            3 => {
                let n = s.range(0, 3);
                let prefix = (0..n).map(|_| self.ty(s, depth - 1, false)).collect();
                let rest = if s.chance(1, 3) {
                    Some(Box::new(self.ty(s, depth - 1, true)))
                } else {
                    None
                };
                D::Tuple(prefix, rest)
            }
            4 => {
                let n = s.range(2, 3);
                D::Union((0..n).map(|_| self.ty(s, depth - 1, false)).collect())
            }
            5 => self.intersection(s, depth),
            6 => self.leaf_or_ref_forced(s, guarded),
            7 => self.object(s, depth, true),
            8 => {
                if s.below(2) == 0 {
                    D::Map(
                        Box::new(self.map_key(s)),
                        Box::new(self.ty(s, depth - 1, true)),
                    )
                } else {
                    D::Set(Box::new(self.ty(s, depth.saturating_sub(2), true)))
                }
            }
            9 => self.discriminated(s, depth),
            _ => {
                let n = s.range(2, 4);
                let mut v: Vec<D> = vec![];
                for _ in 0..n {
                    let l = match s.below(3) {
                        0 => D::StrLit(s.pick(&STR_LITS).to_string()),
                        1 => D::NumLit(s.pick(&NUM_LITS).to_string()),
                        _ => D::BoolLit(s.below(2) == 1),
                    };
                    if !v.contains(&l) {
                        v.push(l);
                    }
                }
                if v.len() == 1 {
                    v.pop().unwrap()
                } else {
                    D::Union(v)
                }
            }
        }
    }

    fn map_key(&self, s: &mut Src) -> D {
        match s.below(3) {
            0 => D::Str,
            1 => D::Num,
            _ => D::Union(vec![D::StrLit("a".into()), D::StrLit("b".into())]),
        }
    }

    fn leaf_or_ref(&self, s: &mut Src, guarded: bool) -> D {
        if s.chance(1, 5) {
            self.leaf_or_ref_forced(s, guarded)
        } else {
            self.leaf(s)
        }
    }
    fn leaf_or_ref_forced(&self, s: &mut Src, guarded: bool) -> D {
        let limit = if guarded && self.cfg.recursion {
            self.ndefs_total
        } else {
            self.ndefs_before
        };
        if limit == 0 {
            return self.leaf(s);
        }
        // prefer later defs (recursion) when allowed
        D::Ref(limit - 1 - s.below(limit))
    }

    fn object(&self, s: &mut Src, depth: usize, with_index: bool) -> D {
        // now and then every property is its own key as a string literal ({ a: "a"; b: "b" }): what the mapped type
        // `{ [K in "a" | "b"]: K }` denotes
        if !with_index && s.chance(1, 40) {
            let n = s.range(1, 3);
            let mut props: Vec<Prop> = vec![];
            for _ in 0..n {
                let key = s.pick(&KEYS).to_string();
                if !props.iter().any(|p| p.key == key) {
                    props.push(Prop { ty: D::StrLit(key.clone()), key, optional: false });
                }
            }
            return D::Object { props, index: None };
        }
        if with_index {
            // TypeScript requires every named property to be assignable to the index signature's value type:
            // named properties (required) repeat the value type, so the program is well-formed by construction.
            let n = s.range(0, 2);
            // named (required) properties repeat the value type, so a self reference is only allowed without them
            let vt = self.ty(s, depth - 1, n == 0);
            let mut props: Vec<Prop> = vec![];
            for _ in 0..n {
                let key = if s.chance(1, 10) { s.pick(&ODD_KEYS).to_string() } else { s.pick(&KEYS).to_string() };
                if props.iter().any(|p| p.key == key) {
                    continue;
                }
                // now and then a named property is an object type strictly narrower than the index value type (one more
                // required property): still assignable to the index signature, but what is declared for the key is more
                // than what the index signature says about it
                let ty = match &vt {
                    D::Object { props: vp, index: None } if !vp.iter().any(|p| p.key == "narrow") && s.chance(1, 2) => {
                        let mut np = vp.clone();
                        np.push(Prop { key: "narrow".into(), ty: D::Num, optional: false });
                        D::Object { props: np, index: None }
                    }
                    _ => vt.clone(),
                };
                props.push(Prop { key, ty, optional: false });
            }
            // now and then the values of a pure record are optional (Partial<Record<string, T>>, { [K in string]?: T })
            if props.is_empty() && !self.cfg.only_null && !matches!(vt, D::Union(_) | D::Undefined | D::Void | D::Any | D::Never) && s.chance(1, 5) {
                return D::Object { props, index: Some(Box::new(D::Union(vec![vt, D::Undefined]))) };
            }
            return D::Object { props, index: Some(Box::new(vt)) };
        }
        let n = s.range(0, 4);
        let mut props: Vec<Prop> = vec![];
        for _ in 0..n {
            let key = if s.chance(1, 10) { s.pick(&ODD_KEYS).to_string() } else { s.pick(&KEYS).to_string() };
            if props.iter().any(|p| p.key == key) {
                continue;
            }
            let optional = s.chance(1, 3);
            let ty = self.ty(s, depth - 1, optional);
            props.push(Prop { key, ty, optional });
        }
        D::Object { props, index: None }
    }

    fn list_for_intersection(&self, s: &mut Src) -> D {
        let leaf = |s: &mut Src| match s.below(5) {
            0 => D::Str,
            1 => D::Num,
            2 => D::StrLit(s.pick(&STR_LITS).to_string()),
            3 => D::Union(vec![D::Str, D::Num]),
            _ => D::Bool,
        };
        match s.below(3) {
            0 => D::Array(Box::new(leaf(s))),
            1 => {
                let n = s.range(0, 3);
                D::Tuple((0..n).map(|_| leaf(s)).collect(), None)
            }
            _ => {
                let n = s.range(0, 2);
                let prefix = (0..n).map(|_| leaf(s)).collect();
                D::Tuple(prefix, Some(Box::new(leaf(s))))
            }
        }
    }

    fn intersection(&self, s: &mut Src, depth: usize) -> D {
        // now and then an intersection of list types (arrays and tuples of different lengths)
        if self.cfg.inter_lists && s.chance(1, 8) {
            let n = s.range(2, 3);
            return D::Inter((0..n).map(|_| self.list_for_intersection(s)).collect());
        }
        // mostly intersections of object types (the case the statement cares about)
        let n = s.range(2, 3);
        let mut parts = vec![];
        for _ in 0..n {
            let cands: Vec<usize> = self.object_defs.iter().copied().filter(|i| *i < self.ndefs_before).collect();
            if s.chance(1, 3) && !cands.is_empty() {
                parts.push(D::Ref(cands[s.below(cands.len())]));
            } else if self.cfg.index && self.cfg.inter_indexed && s.chance(1, 6) {
                // a member with an index signature ({[k: string]: number} & {a: number})
                let vt = match s.below(3) {
                    0 => D::Num,
                    1 => D::Str,
                    _ => D::Union(vec![D::Str, D::Num]),
                };
                parts.push(D::Object { props: vec![], index: Some(Box::new(vt)) });
            } else {
                parts.push(self.object(s, depth, false));
            }
        }
        // now and then two members declare the same key with the same type but different optionality
        // ({a: T} & {a?: T}): the merge of the members must not depend on their order
        if s.chance(1, 5) && parts.len() >= 2 {
            let donor = match &parts[0] {
                D::Object { props, index: None } if !props.is_empty() => Some(props[s.below(props.len())].clone()),
                _ => None,
            };
            if let (Some(mut p), D::Object { props, index: None }) = (donor, &mut parts[1]) {
                if !props.iter().any(|q| q.key == p.key) {
                    p.optional = !p.optional;
                    props.push(p);
                }
            }
        }
        // now and then two members declare the same key with types that only differ below their top level: unions of the same
        // size with one member exchanged ({s: string | number} & {s: string | boolean}), or nested objects with the same
        // keys and different leaves ({s: {x: string}} & {s: {x: number}})
        if s.chance(1, 6) && parts.len() >= 2 {
            let (a, b) = match s.below(3) {
                0 => (D::Union(vec![D::Str, D::Num]), D::Union(vec![D::Str, D::Bool])),
                1 => (
                    D::Object { props: vec![Prop { key: "x".into(), ty: D::Str, optional: false }], index: None },
                    D::Object { props: vec![Prop { key: "x".into(), ty: D::Num, optional: false }], index: None },
                ),
                _ => (
                    D::Object { props: vec![Prop { key: "x".into(), ty: D::Union(vec![D::Str, D::Num]), optional: false }], index: None },
                    D::Object { props: vec![Prop { key: "x".into(), ty: D::Union(vec![D::Num, D::Null]), optional: false }], index: None },
                ),
            };
            let key = "b".to_string();
            let mut done = 0;
            for (part, ty) in parts.iter_mut().zip([a, b]) {
                if let D::Object { props, index: None } = part {
                    if !props.iter().any(|q| q.key == key) {
                        props.push(Prop { key: key.clone(), ty, optional: false });
                        done += 1;
                    }
                }
            }
            let _ = done;
        }
        // now and then every member also admits null: (A | null) & (B | null) = (A & B) | null, an intersection
        // whose value need not be an object
        if self.cfg.inter_nullable && s.chance(1, 6) {
            parts = parts.into_iter().map(|p| D::Union(vec![p, D::Null])).collect();
        }
        D::Inter(parts)
    }

    fn discriminated(&self, s: &mut Src, depth: usize) -> D {
        let tag = s.pick(&["k", "a", "type"]).to_string();
        let n = s.range(2, 3);
        // (now and then tag values that read the same once non-alphanumeric characters are dropped)
        let lits = if s.chance(1, 6) { ["a-b", "a_b", "a b", "c"] } else { ["a", "b", "c", "a-b"] };
        let mut branches = vec![];
        let overlapping = s.chance(1, 6);
        // now and then a second property is a discriminator candidate too (distinct literal per branch): which one the
        // compiler dispatches on must not matter and must not vary between runs
        let second_tag: Option<String> = if s.chance(1, 4) { ["type", "k", "a"].iter().find(|t| **t != tag).map(|t| t.to_string()) } else { None };
        for i in 0..n {
            let tag_ty = if s.chance(1, 5) {
                // a branch tagged with a union of two literals
                let l1 = lits[i % lits.len()];
                let l2 = lits[(i + 1 + if overlapping { 0 } else { n }) % lits.len()];
                if l1 == l2 {
                    D::StrLit(l1.to_string())
                } else {
                    D::Union(vec![D::StrLit(l1.to_string()), D::StrLit(l2.to_string())])
                }
            } else {
                D::StrLit(lits[i % lits.len()].to_string())
            };
            let mut props = vec![Prop {
                key: tag.clone(),
                ty: tag_ty,
                optional: false,
            }];
            if let Some(t2) = &second_tag {
                props.push(Prop { key: t2.clone(), ty: D::StrLit(["c", "b", "a", "a-b"][i % 4].to_string()), optional: false });
            }
            let extra = s.range(0, 2);
            // now and then a branch also carries an index signature (every named property, the tag included, is a
            // string, so the object type is well-formed): the discriminated fast path must not lose it
            let indexed = self.cfg.index && s.chance(1, 7);
            for _ in 0..extra {
                let key = if s.chance(1, 10) { s.pick(&ODD_KEYS).to_string() } else { s.pick(&KEYS).to_string() };
                if key == tag || props.iter().any(|p| p.key == key) {
                    continue;
                }
                if indexed {
                    let ty = if s.below(2) == 0 { D::Str } else { D::StrLit(s.pick(&STR_LITS).to_string()) };
                    props.push(Prop { key, ty, optional: false });
                    continue;
                }
                let optional = s.chance(1, 4);
                let ty = self.ty(s, depth.saturating_sub(2), optional);
                props.push(Prop { key, ty, optional });
            }
            // now and then a branch is an intersection whose members disagree on the tag's literal set
            // ({type: "a" | "zz"; ...} & {type: "a"}): the narrower set is the branch's tag
            if !indexed && self.cfg.inter && s.chance(1, 8) {
                if let D::StrLit(l) = &props[0].ty.clone() {
                    let mut wide = props.clone();
                    wide[0].ty = D::Union(vec![D::StrLit(l.clone()), D::StrLit("zz".to_string())]);
                    let narrow = vec![Prop { key: tag.clone(), ty: D::StrLit(l.clone()), optional: false }];
                    let (a, b) = (D::Object { props: wide, index: None }, D::Object { props: narrow, index: None });
                    branches.push(if s.chance(1, 2) { D::Inter(vec![a, b]) } else { D::Inter(vec![b, a]) });
                    continue;
                }
            }
            // now and then the tag is optional in one branch: then the union is not a discriminated one (a value of that
            // branch may lack the tag) and must not be dispatched on it
            if !indexed && s.chance(1, 9) {
                props[0].optional = true;
            }
            branches.push(D::Object { props, index: if indexed { Some(Box::new(D::Str)) } else { None } });
        }
        D::Union(branches)
    }
}

fn object_defs(env: &Env) -> Vec<usize> {
    env.defs
        .iter()
        .enumerate()
        .filter(|(_, (_, d))| matches!(d, D::Object { index: None, .. }))
        .map(|(i, _)| i)
        .collect()
}

/// Generate an environment of named definitions and `n_roots` root types.
pub fn gen_env_and_roots(s: &mut Src, cfg: &GenCfg, n_roots: usize) -> (Env, Vec<D>) {
    let ndefs = s.below(cfg.max_defs + 1);
    let mut env = Env::default();
    for i in 0..ndefs {
        let g = G {
            cfg,
            object_defs: object_defs(&env),
            ndefs_before: i,
            ndefs_total: ndefs,
        };
        let depth = s.range(1, cfg.max_depth.max(1));
        // definitions are mostly structured (objects/unions) so that references to them matter
        let body = match s.below(4) {
            0 => g.object(s, depth, false),
            _ => g.ty(s, depth, false),
        };
        // a definition that is *only* a self/forward reference would not be contractive: `ty(.., guarded=false)`
        // never produces one.
        // (odd but legal identifiers: `$` and non-ASCII letters, a doubled `$$`, and names that an object inherits from
        // Object.prototype)
        let name = if cfg.odd_names && s.chance(1, 12) {
            match s.below(4) {
                0 | 1 => ODD_DEF_NAMES[i],
                2 => ODD_DEF_NAMES2[i],
                _ => ODD_DEF_NAMES3[i],
            }
        } else {
            DEF_NAMES[i]
        };
        env.defs.push((name.to_string(), body));
    }
    let g = G {
        cfg,
        object_defs: object_defs(&env),
        ndefs_before: ndefs,
        ndefs_total: ndefs,
    };
    let mut roots = vec![];
    for _ in 0..n_roots {
        let depth = s.range(0, cfg.max_depth);
        roots.push(g.ty(s, depth, false));
    }
    // now and then: a union of intersections of NAMED object types that both declare the tag (a wide base
    // {k: "a" | "b"; ...} and one narrow part per branch), under every order of the three names: the compiler has to
    // flatten each branch and keep the narrower tag to see the discriminated union
    if cfg.inter && cfg.max_defs >= 3 && !roots.is_empty() && s.chance(1, 12) {
        let tag = s.pick(&["k", "a", "type"]).to_string();
        let other = |i: usize| -> String { ["b", "c", "0"][i].to_string() };
        let leaf = |s: &mut Src| match s.below(3) {
            0 => D::Str,
            1 => D::Num,
            _ => D::Bool,
        };
        let base = D::Object {
            props: vec![
                Prop { key: tag.clone(), ty: D::Union(vec![D::StrLit("a".into()), D::StrLit("b".into())]), optional: false },
                Prop { key: other(0), ty: leaf(s), optional: false },
            ],
            index: None,
        };
        let part = |lit: &str, key: String, ty: D| D::Object { props: vec![Prop { key: tag.clone(), ty: D::StrLit(lit.into()), optional: false }, Prop { key, ty, optional: false }], index: None };
        let (p1, p2) = (part("a", other(1), leaf(s)), part("b", other(2), leaf(s)));
        // which of the three names (they sort Alpha < Beta < Gamma) the base gets
        let base_at = s.below(3);
        let mut bodies = vec![p1, p2];
        bodies.insert(base_at, base);
        let part_at: Vec<usize> = (0..3).filter(|i| *i != base_at).collect();
        env = Env::default();
        for (i, b) in bodies.into_iter().enumerate() {
            env.defs.push((DEF_NAMES[i].to_string(), b));
        }
        let branch = |s: &mut Src, p: usize| if s.chance(1, 2) { D::Inter(vec![D::Ref(base_at), D::Ref(p)]) } else { D::Inter(vec![D::Ref(p), D::Ref(base_at)]) };
        let u = D::Union(vec![branch(s, part_at[0]), branch(s, part_at[1])]);
        for r in roots.iter_mut() {
            *r = D::Str;
        }
        let last = roots.len() - 1;
        roots[last] = if s.chance(1, 2) { u } else { D::Array(Box::new(u)) };
        return (env, roots);
    }
    // now and then: two named object types that are mutually recursive, one of which has all the properties of the other
    // plus some (Entry = {name; parent?: Folder}, Folder = {name; parent?: Folder; items: Entry[]}): the renderer may write
    // the bigger one as `interface Folder extends Entry { items: Entry[] }`, and the compiler meets the pair in either order
    if cfg.max_defs >= 2 && !roots.is_empty() && s.chance(1, 14) {
        let base_at = s.below(2);
        let derived_at = 1 - base_at;
        let leaf = |s: &mut Src| match s.below(3) {
            0 => D::Str,
            1 => D::Num,
            _ => D::StrLit("a".into()),
        };
        let mut base_props = vec![Prop { key: "a".into(), ty: leaf(s), optional: false }, Prop { key: "c".into(), ty: D::Ref(derived_at), optional: true }];
        if s.chance(1, 2) {
            base_props.push(Prop { key: "k".into(), ty: leaf(s), optional: s.chance(1, 3) });
        }
        let mut derived_props = base_props.clone();
        derived_props.push(Prop { key: "b".into(), ty: D::Array(Box::new(D::Ref(base_at))), optional: false });
        if s.chance(1, 2) {
            derived_props.push(Prop { key: "0".into(), ty: leaf(s), optional: s.chance(1, 2) });
        }
        let mut bodies = vec![D::Never, D::Never];
        bodies[base_at] = D::Object { props: base_props, index: None };
        bodies[derived_at] = D::Object { props: derived_props, index: None };
        env = Env::default();
        for (i, b) in bodies.into_iter().enumerate() {
            env.defs.push((DEF_NAMES[i].to_string(), b));
        }
        // which of the two the program mentions first
        let first = s.below(2);
        if roots.len() >= 2 {
            for r in roots.iter_mut() {
                *r = D::Str;
            }
            roots[0] = D::Ref(first);
            roots[1] = if s.chance(1, 2) { D::Ref(1 - first) } else { D::Array(Box::new(D::Ref(1 - first))) };
        } else {
            roots[0] = D::Object {
                props: vec![Prop { key: "a".into(), ty: D::Ref(first), optional: false }, Prop { key: "b".into(), ty: D::Ref(1 - first), optional: s.chance(1, 2) }],
                index: None,
            };
        }
        return (env, roots);
    }
    // now and then the same two named object types meet both in a union and in an intersection within one program
    // (shared sub-validators are hoisted by structure: A | B and A & B must not be confused)
    let objs = object_defs(&env);
    if cfg.inter && objs.len() >= 2 && !roots.is_empty() && s.chance(1, 6) {
        let i = objs[s.below(objs.len())];
        let j = objs[(objs.iter().position(|x| *x == i).unwrap() + 1 + s.below(objs.len() - 1)) % objs.len()];
        let last = roots.pop().unwrap();
        let u = D::Union(vec![D::Ref(i), D::Ref(j)]);
        let n = D::Inter(vec![D::Ref(i), D::Ref(j)]);
        roots.push(if s.chance(1, 2) { D::Tuple(vec![last, u, n], None) } else { D::Tuple(vec![n, last, u], None) });
    }
    (env, roots)
}

pub fn gen_type(s: &mut Src, cfg: &GenCfg, env_size: usize, depth: usize) -> D {
    let g = G {
        cfg,
        object_defs: vec![],
        ndefs_before: env_size,
        ndefs_total: env_size,
    };
    g.ty(s, depth, false)
}

/// One structural edit of a type (used to build pairs whose relation hinges on one detail).
pub fn mutate_type(d: &D, s: &mut Src, cfg: &GenCfg, env_size: usize) -> D {
    // descend with probability 1/2 when there are children
    let descend = s.chance(1, 2);
    match d {
        D::Array(x) if descend => D::Array(Box::new(mutate_type(x, s, cfg, env_size))),
        D::Tuple(p, r) if descend && (!p.is_empty() || r.is_some()) => {
            let n = p.len() + r.iter().count();
            let i = s.below(n);
            let mut p2 = p.clone();
            let mut r2 = r.clone();
            if i < p.len() {
                p2[i] = mutate_type(&p[i], s, cfg, env_size);
            } else {
                r2 = Some(Box::new(mutate_type(r.as_ref().unwrap(), s, cfg, env_size)));
            }
            D::Tuple(p2, r2)
        }
        D::Object { props, index } if descend && (!props.is_empty() || index.is_some()) => {
            let n = props.len() + index.iter().count();
            let i = s.below(n);
            let mut props2 = props.clone();
            let mut index2 = index.clone();
            if i < props.len() {
                props2[i].ty = mutate_type(&props[i].ty, s, cfg, env_size);
            } else {
                index2 = Some(Box::new(mutate_type(index.as_ref().unwrap(), s, cfg, env_size)));
            }
            D::Object { props: props2, index: index2 }
        }
        D::Union(ms) if descend => {
            let i = s.below(ms.len());
            let mut m2 = ms.clone();
            m2[i] = mutate_type(&ms[i], s, cfg, env_size);
            D::Union(m2)
        }
        D::Inter(ms) if descend => {
            let i = s.below(ms.len());
            let mut m2 = ms.clone();
            m2[i] = mutate_type(&ms[i], s, cfg, env_size);
            D::Inter(m2)
        }
        _ => edit_type_here(d, s, cfg, env_size),
    }
}

fn edit_type_here(d: &D, s: &mut Src, cfg: &GenCfg, env_size: usize) -> D {
    match d {
        D::StrLit(_) => match s.below(3) {
            0 => D::Str,
            1 => D::StrLit(s.pick(&STR_LITS).to_string()),
            _ => D::Union(vec![d.clone(), D::StrLit(s.pick(&STR_LITS).to_string())]),
        },
        D::Str => match s.below(3) {
            0 => D::StrLit(s.pick(&STR_LITS).to_string()),
            1 => D::Union(vec![D::Str, D::Num]),
            _ => D::Num,
        },
        D::NumLit(_) => match s.below(2) {
            0 => D::Num,
            _ => D::NumLit(s.pick(&NUM_LITS).to_string()),
        },
        D::Num => match s.below(3) {
            0 => D::NumLit(s.pick(&NUM_LITS).to_string()),
            1 => D::Union(vec![D::Num, D::Null]),
            _ => D::Str,
        },
        D::Bool => D::BoolLit(s.below(2) == 1),
        D::BoolLit(b) => match s.below(2) {
            0 => D::Bool,
            _ => D::BoolLit(!*b),
        },
        D::Array(x) => match s.below(3) {
            0 => D::Tuple(vec![(**x).clone()], Some(x.clone())),
            1 => D::Tuple(vec![(**x).clone(), (**x).clone()], None),
            _ => D::Tuple(vec![], Some(x.clone())),
        },
        D::Tuple(p, r) => match s.below(5) {
            0 => {
                let mut p2 = p.clone();
                p2.push(gen_type(s, cfg, env_size, 0));
                D::Tuple(p2, r.clone())
            }
            1 if !p.is_empty() => {
                let mut p2 = p.clone();
                p2.pop();
                D::Tuple(p2, r.clone())
            }
            2 => match r {
                Some(_) => D::Tuple(p.clone(), None),
                None => D::Tuple(p.clone(), Some(Box::new(p.last().cloned().unwrap_or(D::Str)))),
            },
            3 if !p.is_empty() => D::Array(Box::new(p[0].clone())),
            _ => {
                // rest moved into the prefix
                let mut p2 = p.clone();
                if let Some(r) = r {
                    p2.push((**r).clone());
                }
                D::Tuple(p2, r.clone())
            }
        },
        D::Object { props, index } => match s.below(6) {
            0 if !props.is_empty() => {
                let i = s.below(props.len());
                let mut p2 = props.clone();
                p2[i].optional = !p2[i].optional;
                D::Object { props: p2, index: index.clone() }
            }
            1 if !props.is_empty() => {
                let i = s.below(props.len());
                let mut p2 = props.clone();
                p2.remove(i);
                D::Object { props: p2, index: index.clone() }
            }
            2 => {
                let key = if s.chance(1, 10) { s.pick(&ODD_KEYS).to_string() } else { s.pick(&KEYS).to_string() };
                let mut p2 = props.clone();
                if !p2.iter().any(|p| p.key == key) {
                    let optional = s.chance(1, 2);
                    p2.push(Prop { key, ty: gen_type(s, cfg, env_size, 0), optional });
                }
                D::Object { props: p2, index: index.clone() }
            }
            3 => match index {
                // optionality of the index value: T <-> T | undefined (Record<string, T> vs Partial<Record<string, T>>)
                Some(ix) if s.chance(1, 2) => match &**ix {
                    D::Union(ms) if ms.len() == 2 && ms.iter().any(|m| matches!(m, D::Undefined)) && ms.iter().any(|m| !matches!(m, D::Undefined)) => {
                        D::Object { props: props.clone(), index: Some(Box::new(ms.iter().find(|m| !matches!(m, D::Undefined)).unwrap().clone())) }
                    }
                    other => D::Object { props: props.clone(), index: Some(Box::new(D::Union(vec![other.clone(), D::Undefined]))) },
                },
                Some(_) => D::Object { props: props.clone(), index: None },
                None => D::Object { props: props.clone(), index: Some(Box::new(gen_type(s, cfg, env_size, 0))) },
            },
            4 if !props.is_empty() => {
                let i = s.below(props.len());
                let mut p2 = props.clone();
                p2[i].ty = gen_type(s, cfg, env_size, 0);
                D::Object { props: p2, index: index.clone() }
            }
            _ => D::Union(vec![d.clone(), D::Null]),
        },
        D::Union(ms) => match s.below(3) {
            0 if ms.len() > 1 => {
                let i = s.below(ms.len());
                let mut m2 = ms.clone();
                m2.remove(i);
                if m2.len() == 1 { m2.pop().unwrap() } else { D::Union(m2) }
            }
            1 => {
                let mut m2 = ms.clone();
                m2.push(gen_type(s, cfg, env_size, 1));
                D::Union(m2)
            }
            _ => {
                let mut m2 = ms.clone();
                m2.reverse();
                D::Union(m2)
            }
        },
        D::Inter(ms) => match s.below(2) {
            0 if ms.len() > 1 => {
                let mut m2 = ms.clone();
                m2.pop();
                if m2.len() == 1 { m2.pop().unwrap() } else { D::Inter(m2) }
            }
            _ => {
                let mut m2 = ms.clone();
                m2.push(D::Object { props: vec![Prop { key: s.pick(&KEYS).to_string(), ty: gen_type(s, cfg, env_size, 0), optional: s.chance(1, 2) }], index: None });
                D::Inter(m2)
            }
        },
        D::Null => D::Union(vec![D::Null, D::Str]),
        D::Ref(i) => match s.below(2) {
            0 => D::Union(vec![D::Ref(*i), D::Null]),
            _ => D::Array(Box::new(D::Ref(*i))),
        },
        other => D::Union(vec![other.clone(), D::Str]),
    }
}

/// `d` with the optionality of one property flipped (None when it has no object property)
pub fn toggle_some_optionality(d: &D, s: &mut Src) -> Option<D> {
    fn count(d: &D) -> usize {
        let own = if let D::Object { props, .. } = d { props.len() } else { 0 };
        own + d.children().iter().map(|c| count(c)).sum::<usize>()
    }
    fn apply(d: &D, target: &mut isize) -> D {
        match d {
            D::Object { props, index } => {
                let mut p2 = vec![];
                for p in props {
                    let mut q = p.clone();
                    if *target == 0 {
                        q.optional = !q.optional;
                    }
                    *target -= 1;
                    q.ty = apply(&p.ty, target);
                    p2.push(q);
                }
                D::Object { props: p2, index: index.as_ref().map(|x| Box::new(apply(x, target))) }
            }
            D::Array(x) => D::Array(Box::new(apply(x, target))),
            D::Set(x) => D::Set(Box::new(apply(x, target))),
            D::Map(a, b) => D::Map(Box::new(apply(a, target)), Box::new(apply(b, target))),
            D::Tuple(p, r) => D::Tuple(p.iter().map(|x| apply(x, target)).collect(), r.as_ref().map(|x| Box::new(apply(x, target)))),
            D::Union(v) => D::Union(v.iter().map(|x| apply(x, target)).collect()),
            D::Inter(v) => D::Inter(v.iter().map(|x| apply(x, target)).collect()),
            other => other.clone(),
        }
    }
    let n = count(d);
    if n == 0 {
        return None;
    }
    let mut t = s.below(n) as isize;
    Some(apply(d, &mut t))
}
