//! C14 — watch-mode rebuilds depend on current file contents only, not on edit history.
//! Runs inside the subprocess worker (the session lives in a thread-local of beff_wasm).
use crate::compile::CompileFail;
use crate::runner::{fp, Check, Ctx, Outcome, Tier};
use crate::src::Src;
use serde::{Deserialize, Serialize};
use serde_json::{json, Value};

#[derive(Debug, Clone, Serialize, Deserialize, PartialEq)]
pub enum Op {
    Update { file: String, content: String, variant: String },
    Rebuild,
    /// a rebuild with other settings than the usual ones (1 = no custom formats registered, 2 = number formats only):
    /// the output is a function of the files *and the settings* of that call
    RebuildWith { settings: usize },
}

#[derive(Debug, Clone, Serialize, Deserialize)]
pub struct C14Case {
    pub initial: Vec<(String, String)>,
    pub history: Vec<Op>,
}

#[cfg(feature = "wasmhook")]
fn settings_json_variant(k: usize) -> String {
    let (sf, nf) = crate::c01::formats_json();
    match k {
        1 => json!({"string_formats": [], "number_formats": []}).to_string(),
        2 => json!({"string_formats": [], "number_formats": nf}).to_string(),
        _ => json!({"string_formats": sf, "number_formats": nf}).to_string(),
    }
}

#[cfg(feature = "wasmhook")]
fn fresh_result(files: &std::collections::BTreeMap<String, String>, settings: usize) -> (Option<String>, String) {
    let files = files.clone();
    let settings_json = move || settings_json_variant(settings);
    std::thread::Builder::new()
        .stack_size(16 * 1024 * 1024)
        .spawn(move || {
            beff_wasm::verif_host::HOST.with(|h| {
                let mut h = h.borrow_mut();
                h.files = files;
                h.emitted.clear();
                h.reads.clear();
            });
            let code = beff_wasm::verif_bundle_to_string("entry.ts", &settings_json());
            // a second, independent fresh session for the diagnostics entry point
            let diag = beff_wasm::verif_bundle_to_diagnostics("entry.ts", &settings_json());
            (code, diag)
        })
        .expect("spawn")
        .join()
        .unwrap_or((None, "<fresh thread panicked>".to_string()))
}

/// executed in the worker: the calling thread is the long-lived session
#[cfg(feature = "wasmhook")]
pub fn handle_watch(req: &Value) -> Value {
    let case: C14Case = match serde_json::from_value(req["case"].clone()) {
        Ok(c) => c,
        Err(e) => return json!({"error": e.to_string()}),
    };
    let mut files: std::collections::BTreeMap<String, String> = case.initial.iter().cloned().collect();
    beff_wasm::verif_host::HOST.with(|h| {
        let mut h = h.borrow_mut();
        h.files = files.clone();
        h.emitted.clear();
        h.reads.clear();
    });
    let mut rebuilds = vec![];
    for (step, op) in case.history.iter().enumerate() {
        match op {
            Op::Update { file, content, .. } => {
                files.insert(file.clone(), content.clone());
                // what commandeer.ts does: the file on disk changes; if it is being watched (it was read before),
                // its new content is pushed to the session
                let watched = beff_wasm::verif_host::HOST.with(|h| {
                    let mut h = h.borrow_mut();
                    h.files.insert(file.clone(), content.clone());
                    h.reads.iter().any(|r| r == file)
                });
                if watched {
                    beff_wasm::verif_update_file_content(file, content);
                }
            }
            Op::Rebuild | Op::RebuildWith { .. } => {
                let k = if let Op::RebuildWith { settings } = op { *settings } else { 0 };
                let settings_json = || settings_json_variant(k);
                beff_wasm::verif_host::HOST.with(|h| h.borrow_mut().emitted.clear());
                let code = beff_wasm::verif_bundle_to_string("entry.ts", &settings_json());
                let diag = beff_wasm::verif_bundle_to_diagnostics("entry.ts", &settings_json());
                let (fcode, fdiag) = fresh_result(&files, k);
                rebuilds.push(json!({"step": step, "session_code": code, "session_diag": diag, "fresh_code": fcode, "fresh_diag": fdiag}));
            }
        }
    }
    json!({"rebuilds": rebuilds})
}

#[cfg(not(feature = "wasmhook"))]
pub fn handle_watch(_req: &Value) -> Value {
    json!({"error": "built without the beff_verif hook"})
}

fn variants(s: &mut Src, file: &str, idx: usize) -> (String, String) {
    // contents of a non-entry module in four flavours
    let name = format!("T{}", idx);
    let other = if idx == 1 { "./m2" } else { "./m1" };
    let other_name = if idx == 1 { "T2" } else { "T1" };
    let v = s.below(23);
    let other_idx = if idx == 1 { 2 } else { 1 };
    let (label, text) = match v {
        // constants whose initialisers mention constants of another module: what `typeof` says about them depends on the
        // current text of both files
        19 => ("value_and_type_other_shape", format!("export const k{} = {{ tag: 1, extra: true }} as const;\nexport type {} = typeof k{};\n", idx, name, idx)),
        20 => ("const_spreads_other_const", format!("import {{ k{} }} from \"{}\";\nexport const k{} = {{ ...k{}, own: \"{}\" }} as const;\nexport type {} = typeof k{};\n", other_idx, other, idx, other_idx, file, name, idx)),
        21 => ("const_member_of_other_const", format!("import {{ k{} }} from \"{}\";\nexport const k{} = {{ t: k{}.tag, wrapped: k{} }} as const;\nexport type {} = typeof k{};\n", other_idx, other, idx, other_idx, other_idx, name, idx)),
        22 => ("value_only", format!("export const k{} = {{ tag: \"{}-only\", n: 2 }} as const;\nexport type {} = {{ v: typeof k{}.n }};\n", idx, file, name, idx)),
        17 => ("uses_string_format", format!("export type {} = {{ p: StringFormat<\"lower\">; n: number }};\n", name)),
        18 => ("uses_number_format", format!("export type {} = {{ q: NumberFormat<\"int\"> }};\n", name)),
        15 => ("jsdoc1_reworded", format!("/** The same payload, described differently ({}). */\nexport type {} = {{\n  /** still the a field */\n  a: string;\n}};\n", file, name)),
        16 => ("jsdoc1_undocumented", format!("export type {} = {{\n  a: string;\n}};\n", name)),
        13 => ("provides_other_type", format!("export type {} = {{ provided_by: \"{}\" }};\n", other_name, file)),
        14 => ("private_type_same_name", format!("type {} = {{ legacy: boolean }};\nexport type Unrelated{} = {};\n", name, idx, name)),
        7 => ("empty", String::new()),
        8 => ("whitespace_only", "  \n\t\n".to_string()),
        9 => ("comment_only", format!("// {} used to live here\n/* nothing else */\n", name)),
        10 => ("jsdoc1", format!("/** A documented payload ({}). */\nexport type {} = {{\n  /** the a field */\n  a: string;\n}};\n", file, name)),
        11 => ("jsdoc2", format!("/**\n * Another description.\n */\nexport interface {} {{\n  /** count of things */\n  n: number;\n  /** optional label */\n  label?: string;\n}}\n", name)),
        12 => ("value_and_type", format!("export const k{} = {{ tag: \"{}\", n: 1 }} as const;\nexport type {} = typeof k{};\n", idx, file, name, idx)),
        6 => ("valid4_imports_late_file", format!("import {{ Late }} from \"./late\";\nexport type {} = {{ late: Late }};\n", name)),
        0 => ("valid1", format!("export type {} = {{ a: string; k: \"{}\" }};\n", name, file)),
        1 => ("valid2", format!("export type {} = {{ a: number; extra?: boolean }};\nexport type Unused{} = string;\n", name, idx)),
        2 => ("valid3_imports", format!("import {{ {} }} from \"{}\";\nexport type {} = {{ nested: {}[] }} | null;\n", other_name, other, name, other_name)),
        3 => ("unresolvable", format!("export type {} = {{ a: Missing{} }};\n", name, idx)),
        4 => ("broken_syntax", format!("export type {} = {{ a: string;;; ] ;\n", name)),
        _ => ("missing_export", format!("type {} = string;\nexport type Other{} = number;\n", name, idx)),
    };
    (label.to_string(), text)
}

fn entry_variants(s: &mut Src, nmods: usize) -> (String, String) {
    let imports: String = (1..=nmods).map(|i| format!("import {{ T{} }} from \"./m{}\";\n", i, i)).collect();
    let v = s.below(16);
    match v {
        13 => ("spreads_imported_const".into(), "import { k1 } from \"./m1\";\nconst C = { ...k1, x: 1 } as const;\nparse.buildParsers<{ A: typeof C }>();\n".to_string()),
        14 => ("member_of_imported_const".into(), "import { k1 } from \"./m1\";\nconst C = { t: k1.tag, k1 } as const;\nparse.buildParsers<{ A: typeof C; B: typeof k1.tag }>();\n".to_string()),
        15 => ("typeof_imported_const".into(), format!("{}import {{ k1 }} from \"./m1\";\nparse.buildParsers<{{ A: typeof k1; B: T1 }}>();\n", imports)),
        9 => ("valid1_reordered".into(), format!("{}parse.buildParsers<{{ B: {}; A: T1 }}>();\n", imports, if nmods >= 2 { "T2" } else { "string" })),
        10 => ("namespace_typeof_member".into(), "import * as Ns from \"./m1\";\nparse.buildParsers<{ A: typeof Ns.k1 }>();\n".to_string()),
        11 => ("namespace_typeof_whole".into(), "import * as Ns from \"./m1\";\nparse.buildParsers<{ A: typeof Ns }>();\n".to_string()),
        12 => ("namespace_type_member".into(), "import * as Ns from \"./m1\";\nparse.buildParsers<{ A: Ns.T1 }>();\n".to_string()),
        7 | 8 if nmods >= 2 => ("through_barrel".into(), "import { T1, T2 } from \"./bar\";\nparse.buildParsers<{ A: T1; B: T2 }>();\n".to_string()),
        5 => ("jsdoc".into(), format!("{}/** the local wrapper */\ntype Local = {{\n  /** wrapped */\n  x: T1;\n}};\nparse.buildParsers<{{ A: Local }}>();\n", imports)),
        6 => ("empty".into(), String::new()),
        0 => ("valid1".into(), format!("{}parse.buildParsers<{{ A: T1; B: {} }}>();\n", imports, if nmods >= 2 { "T2" } else { "string" })),
        1 => ("valid2".into(), format!("{}type Local = {{ x: T1 }};\nparse.buildParsers<{{ A: Local[] }}>();\n", imports)),
        2 => ("unresolvable".into(), format!("{}parse.buildParsers<{{ A: T1; Z: Nope }}>();\n", imports)),
        3 => ("broken_syntax".into(), format!("{}parse.buildParsers<{{ A: T1 ;;; >();\n", imports)),
        _ => ("valid3".into(), format!("{}parse.buildParsers<{{ A: T1 | string }}>();\n", imports)),
    }
}

pub struct C14;
impl Check for C14 {
    fn fuzz_runs(&self) -> u64 {
        20000
    }
    fn id(&self) -> &'static str {
        "C14"
    }
    fn cases(&self, tier: Tier) -> u32 {
        match tier {
            Tier::Quick => 8000,
            Tier::Thorough => 200_000,
        }
    }
    fn stream_len(&self) -> usize {
        400
    }
    fn threads(&self) -> usize {
        12
    }
    fn rule(&self) -> String {
        "case = a project of 2-4 files (entry + modules importing each other) and a history of 1-24 operations Update(file, variant) | Rebuild, variants drawn from {valid (three meanings, one importing another module), unresolvable reference, syntactically broken, missing export}; the history is interpreted against one long-lived session thread of the real beff_wasm crate built with the beff_verif hook (thread-local BUNDLER cache; host file map updated the way commandeer.ts does: write, update_file_content for watched files, rebuild). Oracle (model = from-scratch run): after every Rebuild, bundle_to_string and bundle_to_diagnostics of the session equal those of a fresh thread on the current file map. Non-trivial = the history contains a broken/unresolvable update, a rebuild after it, and a later repair followed by a rebuild. Distinct = hash(history).".into()
    }
    fn assumptions(&self) -> Vec<String> {
        vec![
            "the chokidar watcher and the fs caches of the TypeScript driver are outside the anchors; the harness plays the driver's role (a file is 'watched' once the session has read it)".into(),
            "module resolution is the hook's in-memory resolver".into(),
        ]
    }
    fn health(&self) -> Vec<(&'static str, f64)> {
        vec![("has_rebuild", 0.7), ("broken_then_repaired", 0.15)]
    }
    fn generate(&self, s: &mut Src, _tier: Tier) -> Value {
        let nmods = s.range(1, 3);
        let mut initial: Vec<(String, String)> = vec![];
        // initial state: mostly valid
        let (_, e) = {
            let mut zero = Src::new(&[]);
            entry_variants(&mut zero, nmods)
        };
        initial.push(("entry.ts".into(), e));
        for i in 1..=nmods {
            let mut zero = Src::new(&[]);
            let (_, t) = variants(&mut zero, &format!("m{}", i), i);
            initial.push((format!("m{}.ts", i), t));
        }
        // a barrel that is never edited: what it forwards is decided by the current contents of the modules behind it
        if nmods >= 2 {
            initial.push(("bar.ts".into(), "export * from \"./m1\";\nexport * from \"./m2\";\n".to_string()));
        }
        let n = s.range(1, 24);
        let mut history = vec![];
        for _ in 0..n {
            if s.chance(2, 5) {
                if s.chance(1, 5) {
                    history.push(Op::RebuildWith { settings: s.range(1, 2) });
                } else {
                    history.push(Op::Rebuild);
                }
            } else {
                let f = s.below(nmods + 2);
                if f == nmods + 1 {
                    // a file that does not exist initially: created (or rewritten) during the history
                    let (label, text) = match s.below(3) {
                        0 => ("valid1", "export type Late = string;\n"),
                        1 => ("valid2", "export type Late = { n: number };\n"),
                        _ => ("broken_syntax", "export type Late = {{{;\n"),
                    };
                    history.push(Op::Update { file: "late.ts".into(), content: text.to_string(), variant: label.to_string() });
                } else if f == 0 {
                    let (label, text) = entry_variants(s, nmods);
                    history.push(Op::Update { file: "entry.ts".into(), content: text, variant: label });
                } else {
                    let (label, text) = variants(s, &format!("m{}", f), f);
                    history.push(Op::Update { file: format!("m{}.ts", f), content: text, variant: label });
                }
            }
        }
        history.push(Op::Rebuild);
        serde_json::to_value(C14Case { initial, history }).unwrap()
    }
    fn exec(&self, case: &Value, ctx: &mut Ctx) -> Outcome {
        let parsed: C14Case = match serde_json::from_value(case.clone()) {
            Ok(c) => c,
            Err(e) => return Outcome::infra(format!("bad case: {}", e)),
        };
        let mut out = Outcome::default();
        // classification of the history
        let mut saw_bad = false;
        let mut rebuilt_after_bad = false;
        let mut repaired = false;
        let mut nontrivial = false;
        for op in &parsed.history {
            match op {
                Op::Update { variant, .. } => {
                    let bad = variant.contains("broken") || variant.contains("unresolvable") || variant.contains("missing");
                    if bad {
                        saw_bad = true;
                    } else if rebuilt_after_bad {
                        repaired = true;
                    }
                }
                Op::Rebuild | Op::RebuildWith { .. } => {
                    out.label("has_rebuild");
                    if matches!(op, Op::RebuildWith { .. }) {
                        out.label("rebuild_with_other_settings");
                    }
                    if saw_bad {
                        rebuilt_after_bad = true;
                    }
                    if repaired {
                        nontrivial = true;
                    }
                }
            }
        }
        if nontrivial {
            out.label("broken_then_repaired");
        }
        let ans = match ctx.compiler.sem(json!({"sem": "watch", "case": case}), if ctx.shrinking { 5 } else { 30 }) {
            Ok(v) => v,
            Err(CompileFail::Infra(e)) => return Outcome::infra(e),
            Err(_) => {
                // crashes / hangs of a single compile are C04's subject
                out.label("crash_or_hang_skipped");
                return out;
            }
        };
        if let Some(e) = ans.get("error") {
            return Outcome::infra(format!("watch worker: {}", e));
        }
        if ans.get("panic").is_some() {
            out.label("panic_skipped");
            return out;
        }
        let rebuilds = match ans["rebuilds"].as_array() {
            Some(r) => r,
            None => return Outcome::infra(format!("bad watch answer: {}", ans)),
        };
        // known finding: imports are resolved when a module is parsed; a module cached while its import target did
        // not exist (or did not parse) keeps the failed resolution
        // Decided per rebuild from the history: is there, at that rebuild, a file whose *current* text imports a module
        // that was created later than the moment that text was (first) parsed?  A file saved again after the creation is
        // re-parsed, so its imports must resolve.
        let initial_names: Vec<&String> = parsed.initial.iter().map(|(n, _)| n).collect();
        let stale_importer_at = |rebuild_step: usize| -> bool {
            // creation step of every late-created file
            let mut created: Vec<(String, usize)> = vec![];
            for (i, op) in parsed.history.iter().enumerate().take(rebuild_step) {
                if let Op::Update { file, .. } = op {
                    if !initial_names.contains(&file) && !created.iter().any(|(f, _)| f == file) {
                        created.push((file.clone(), i));
                    }
                }
            }
            for (late, c) in &created {
                let spec = format!("\"./{}\"", late.trim_end_matches(".ts"));
                // current text of every file and the step that installed it
                let mut current: std::collections::BTreeMap<String, (String, usize)> = parsed.initial.iter().map(|(n, t)| (n.clone(), (t.clone(), 0usize))).collect();
                for (i, op) in parsed.history.iter().enumerate().take(rebuild_step) {
                    if let Op::Update { file, content, .. } = op {
                        current.insert(file.clone(), (content.clone(), i + 1));
                    }
                }
                for (_, (text, installed)) in &current {
                    if !text.contains(&spec) || *installed > *c {
                        continue;
                    }
                    // parsed before the creation: a rebuild happened between the installation and the creation
                    let parsed_before = parsed.history.iter().enumerate().any(|(p, op)| matches!(op, Op::Rebuild | Op::RebuildWith { .. }) && p + 1 > *installed && p < *c) || (*installed > 0 && parsed.history.iter().take(*installed).any(|op| matches!(op, Op::Rebuild | Op::RebuildWith { .. })));
                    if parsed_before {
                        return true;
                    }
                }
            }
            false
        };
        for r in rebuilds {
            out.evals += 1;
            let step = r["step"].as_u64().unwrap_or(0) as usize;
            if stale_importer_at(step) && (r["session_code"] != r["fresh_code"] || r["session_diag"] != r["fresh_diag"]) {
                out.mismatch(ctx, "rebuild_differs_from_fresh:import_of_late_created_file", format!("rebuild at step {}: the session differs from a fresh process after a file its cached importer could not resolve was created", r["step"]), json!({"case": case, "rebuild": r}));
                break;
            }
            if r["session_code"] != r["fresh_code"] {
                let stale_success = r["session_code"].is_string() && r["fresh_code"].is_null();
                let sig = if stale_success { "rebuild_succeeds_with_stale_module" } else { "rebuild_code_differs_from_fresh" };
                out.mismatch(ctx, sig, format!("rebuild at step {}: the session's code differs from a fresh process' on the same files", r["step"]), json!({"case": case, "rebuild": r}));
                break;
            }
            if r["session_diag"] != r["fresh_diag"] {
                out.mismatch(ctx, "rebuild_diagnostics_differ_from_fresh", format!("rebuild at step {}: the session's diagnostics differ from a fresh process' on the same files", r["step"]), json!({"case": case, "rebuild": r}));
                break;
            }
        }
        if nontrivial {
            out.nontrivial = Some(fp(&case.to_string()));
            out.sample = Some(json!({"initial_files": parsed.initial.iter().map(|(n, _)| n.clone()).collect::<Vec<_>>(), "history": parsed.history.iter().map(|op| match op { Op::Rebuild => "Rebuild".to_string(), Op::RebuildWith { settings } => format!("RebuildWith(settings {})", settings), Op::Update { file, variant, .. } => format!("Update({}, {})", file, variant) }).collect::<Vec<_>>(), "rebuilds_compared": rebuilds.len()}));
        }
        out
    }
}
