#!/bin/bash
# Build the verification harness offline from files on disk only.
cd "$(dirname "$0")/harness" || exit 2
export CARGO_NET_OFFLINE=true
mkdir -p ../work
if cargo build --release --features wasmhook >../work/build-setup.log 2>&1; then
  tail -1 ../work/build-setup.log
  exit 0
fi
# see run_check.sh: C05-C07 need the hooks into the engine's internal API, the other checks do not
echo "NOTE: full harness build failed (work/build-setup.log); building without the engine hooks" >&2
cargo build --release --no-default-features --features wasmhook 2>&1 | tail -3
exit "${PIPESTATUS[0]}"
