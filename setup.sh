#!/bin/bash
# Build the verification harness offline from files on disk only.
set -e
cd "$(dirname "$0")/harness"
export CARGO_NET_OFFLINE=true
cargo build --release --features wasmhook 2>&1 | tail -3
