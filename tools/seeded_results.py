import json,glob,os,re
rows=[]
def key(d):
    m=re.match(r'.*/C(\d+)-(\d+)$',d); return (int(m.group(1)),int(m.group(2)))
for d in sorted(glob.glob('/verif/seeded/C*-*'),key=key):
    r=json.load(open(d+'/result.json')) if os.path.exists(d+'/result.json') else {}
    m=json.load(open(d+'/meta.json'))
    rows.append((m['id'],m['property'],str(m.get('round','')),(m.get('summary') or '')[:110].replace('|','/'),r.get('verdict','?'),r.get('detected_by','') or '',r.get('seeds_exit_codes','?'),(r.get('first_violation') or '').split('  ')[-1][:90].replace('|','/')))
with open('/verif/seeded/RESULTS.md','w') as f:
    f.write("# Seeded changes: each applied alone to a copy of the tree; the owning quick check run with VERIF_SEED=1..3 until it alarms\n\n")
    f.write("(`tools/seeded_eval_all.sh`: scratch worktree + scratch copy of /verif per change, same verdict as `tools/seeded_run.sh`, which applies to /repo itself. Every change passed the unedited 397-test suite when it was stored.)\n\n")
    n=len(rows); det=sum(1 for r in rows if r[4]=='detected')
    f.write(f"{det} of {n} detected.\n\n")
    f.write("| id | property | round | change | verdict | by | check/seed:exit | first signature |\n|---|---|---|---|---|---|---|---|\n")
    for r in rows: f.write("| "+" | ".join(r)+" |\n")
print("RESULTS.md written")
