#!/bin/bash
# usage: seeded_eval_one.sh <seeded-id> [--tests]
# Same verdict as the official procedure (seeded_run.sh: apply to /repo, run the owning quick check with seeds 1..3, undo),
# but in a scratch worktree of /repo plus a scratch copy of /verif whose harness depends on that worktree, so that /repo is
# never touched and several changes can be evaluated at once. Writes seeded/<id>/result.json (+ witness.json).
id="$1"; prop=${id%%-*}; TESTS="$2"
D=/tmp/se-$id
rm -rf "$D"; mkdir -p "$D"
git -C /repo worktree add -q --detach "$D/repo" HEAD || exit 2
cleanup() { git -C /repo worktree remove --force "$D/repo" 2>/dev/null; rm -rf "$D"; }
if ! git -C "$D/repo" apply /verif/seeded/$id/patch.diff; then
  echo "{\"id\":\"$id\",\"applies\":false}" > /verif/seeded/$id/result.json; echo "$id APPLY-FAILED"; cleanup; exit 0
fi
tests="(confirmed when stored)"
if [ "$TESTS" = "--tests" ]; then
  tests=$( (cd "$D/repo" && CARGO_NET_OFFLINE=true cargo test --workspace --no-fail-fast --offline -j 6 2>&1) | grep -E "^test result" | awk '{p+=$4; f+=$6} END {print p "/" f}')
  rm -rf "$D/repo/target"
fi
rsync -a --exclude target --exclude work --exclude .git --exclude seeded --exclude benign "${VERIF_SRC:-/verif}/" "$D/verif/"
sed -i "s#/repo/packages#$D/repo/packages#" "$D/verif/harness/Cargo.toml"
cp -r "${VERIF_SRC:-/verif}/harness/target" "$D/verif/harness/target" 2>/dev/null
export VERIF_ROOT="$D/verif" BEFF_REPO="$D/repo" CARGO_NET_OFFLINE=true
mkdir -p "$D/verif/work"
built=full
( cd "$D/verif/harness" && cargo build --release --features wasmhook -j 6 >"$D/build.log" 2>&1 ) || {
  built=no-engine
  ( cd "$D/verif/harness" && cargo build --release --no-default-features --features wasmhook -j 6 >"$D/build.log" 2>&1 ) || built=failed
}
checks="$prop"
# session-history defects filed under C10 by their authors are owned by C14 (see DESIGN.md 8.6)
case "$id" in C10-4|C10-7|C10-8|C10-11) checks="C10 C14";; esac
# the same source change as C01-7, filed under C08 by its author: replacing typeof of a constant by the literal type is
# not one of the rewrites C08 lists, the change is a membership defect owned by C01 (see its meta.json)
case "$id" in C08-7|C08-3) checks="C08 C01";; esac
verdict="missed"; seeds=""; line=""; by=""
if [ "$built" = failed ]; then verdict="inconclusive"; line="harness does not build: $(tail -2 "$D/build.log" | tr '\n' ' ' | cut -c1-200)"; else
for C in $checks; do
  case "$built:$C" in no-engine:C05|no-engine:C06|no-engine:C07) verdict="inconclusive"; line="engine hooks do not build against this tree"; continue;; esac
  for seed in 1 2 3; do
    rm -f "$D"/verif/replays/$C/new-*.json
    out=$( cd "$D/verif" && VERIF_SEED=$seed timeout 1800 "$D/verif/harness/target/release/beffv" check "$C" --tier quick 2>&1 ); rc=$?
    [ $rc -ne 0 ] && [ $rc -ne 1 ] && rc=2
    seeds="$seeds $C/$seed:$rc"
    if [ $rc -eq 1 ]; then verdict="detected"; by="$C"; line=$(echo "$out" | grep -A1 '^VIOLATION' | head -2 | tr '\n' ' ' | sed "s#$D##g" | cut -c1-400)
      w=$(ls "$D"/verif/replays/$C/new-*.json 2>/dev/null | head -1); [ -n "$w" ] && cp "$w" /verif/seeded/$id/witness.json
      break 2; fi
    if [ $rc -eq 2 ]; then verdict="inconclusive"; line=$(echo "$out" | tail -2 | tr '\n' ' ' | cut -c1-300); fi
  done
done
fi
python3 - "$id" "$prop" "$tests" "$verdict" "$seeds" "$line" "$by" <<'PY'
import json,sys
id,prop,tests,verdict,seeds,line,by=sys.argv[1:8]
json.dump({"id":id,"property":prop,"applies":True,"pinned_suite_passed_failed":tests,"procedure":"scratch worktree of /repo + scratch copy of /verif (tools/seeded_eval_one.sh), quick tier, VERIF_SEED=1..3 until detected","detected_by":by,"verdict":verdict,"seeds_exit_codes":seeds.strip(),"first_violation":line},open(f"/verif/seeded/{id}/result.json","w"),indent=1)
PY
echo "$id $verdict ($seeds) $line" | cut -c1-240
cleanup
