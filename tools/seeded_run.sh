#!/bin/bash
# Official confirmation procedure for the seeded changes: apply to /repo, run the owning check from /verif, undo.
# usage: seeded_run.sh [ids...]   (default: all of /verif/seeded/*)
# Writes seeded/<id>/result.json and seeded/RESULTS.md.  /repo must be clean before and is clean after.
cd /verif
if [ -n "$(git -C /repo status --porcelain)" ]; then echo "/repo is not clean"; exit 2; fi
IDS="$@"; [ -z "$IDS" ] && IDS=$(ls seeded | grep -E '^C[0-9]+-[0-9]+$' | sort)
for id in $IDS; do
  prop=${id%%-*}
  if ! git -C /repo apply /verif/seeded/$id/patch.diff; then echo "$id APPLY-FAILED"; echo "{\"id\":\"$id\",\"applies\":false}" > seeded/$id/result.json; continue; fi
  tests=$( (cd /repo && cargo test --workspace --no-fail-fast --offline 2>&1) | grep -E "^test result" | awk '{p+=$4; f+=$6} END {print p "/" f}')
  verdict="missed"; seeds=""; line=""
  for seed in 1 2 3; do
    rm -f replays/$prop/new-*.json
    out=$(VERIF_SEED=$seed ./run_check.sh $prop quick 2>&1); rc=$?
    seeds="$seeds $seed:$rc"
    if [ $rc -eq 1 ]; then verdict="detected"; line=$(echo "$out" | grep -A1 '^VIOLATION' | head -2 | tr '\n' ' ' | cut -c1-400)
      w=$(ls replays/$prop/new-*.json 2>/dev/null | head -1); [ -n "$w" ] && cp "$w" seeded/$id/witness.json
      break; fi
    if [ $rc -eq 2 ]; then verdict="inconclusive"; line=$(echo "$out" | tail -2 | tr '\n' ' ' | cut -c1-300); fi
  done
  rm -f replays/$prop/new-*.json
  git -C /repo checkout -- .
  python3 - "$id" "$prop" "$tests" "$verdict" "$seeds" "$line" <<'PY'
import json,sys
id,prop,tests,verdict,seeds,line=sys.argv[1:7]
json.dump({"id":id,"property":prop,"applies":True,"pinned_suite_passed_failed":tests,"check":f"./run_check.sh {prop} quick","verdict":verdict,"seeds_exit_codes":seeds.strip(),"first_violation":line},open(f"/verif/seeded/{id}/result.json","w"),indent=1)
PY
  echo "$id tests=$tests $verdict ($seeds) $line" | cut -c1-260
done
python3 - <<'PY'
import json,glob,os
rows=[]
for d in sorted(glob.glob('/verif/seeded/C*-*')):
    r=json.load(open(d+'/result.json')) if os.path.exists(d+'/result.json') else {}
    m=json.load(open(d+'/meta.json'))
    rows.append((m['id'],m['property'],(m.get('summary') or '')[:110].replace('|','/'),r.get('pinned_suite_passed_failed','?'),r.get('verdict','?'),r.get('seeds_exit_codes','?'),(r.get('first_violation') or '').split('  ')[-1][:90].replace('|','/')))
with open('/verif/seeded/RESULTS.md','w') as f:
    f.write("# Seeded changes: official procedure (git -C /repo apply; ./run_check.sh <property> quick, VERIF_SEED=1..3; git -C /repo checkout -- .)\n\n")
    f.write("| id | property | change | pinned suite (passed/failed) | verdict | seed:exit | first signature |\n|---|---|---|---|---|---|---|\n")
    for r in rows: f.write("| "+" | ".join(r)+" |\n")
print("RESULTS.md written")
PY
