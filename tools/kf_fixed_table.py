#!/usr/bin/env python3
"""Registers every repaired defect in known_findings.json as a `fixed` entry (suppresses nothing; its witness is
replayed strictly on every run, so the defect is reported again if it returns)."""
import json,subprocess
T=[
 # id, property, commit, witness, what
 ("fx-template-through-exclude","C01","156ab04","replays/C01/fixed/template-through-exclude.json","template literal types passing through Exclude/keyof/indexed access were collapsed to their first literal segment (Exclude<boolean | {b: `${boolean}${number}${string}`}, boolean> accepted nothing but \"\")"),
 ("fx-template-unanchored","C01","3af80e0","replays/C01/fixed/template-unanchored.json","template literal validators matched any substring: `${boolean}${\"a\"|\"b\"}` accepted \"trueax\""),
 ("fx-tpl-raw-escape","C01","5bddf24","replays/C01/fixed/tpl-raw-escape.json","template literal chunks used their raw spelling: `\\\\d${string}` rejected the two-character string backslash-d"),
 ("fx-tpl-pattern","C02","a245323","replays/C02/fixed/tpl-pattern.json","schema of a template literal type carried the TypeScript spelling as `pattern` (not a regular expression)"),
 ("fx-empty-tuple-prefixitems","C02","b357877","replays/C02/fixed/empty-tuple-prefixitems.json","schema of [] had \"prefixItems\": [] (not well-formed in Draft 2020-12)"),
 ("fx-tuple-minitems","C02","8fa0b7d","replays/C02/fixed/tuple-minitems.json","tuple schemas accepted arrays shorter than the tuple (no minItems) which validate() rejects"),
 ("fx-du-oneof-overlap","C02","ea421e5","replays/C02/fixed/du-oneof-overlap.json","contextual schema of a discriminated union listed a branch admitting several discriminator values once per value under oneOf, rejecting its own members"),
 ("fx-never-anyof-empty","C02","24ce5f9","replays/C02/fixed/never-anyof-empty.json","schema of never was {\"anyOf\": []} (not well-formed)"),
 ("fx-never-in-definition","C02","24ce5f9","replays/C02/fixed/never-in-definition.json","a never-typed property made an exported definition ill-formed ({\"anyOf\": []})"),
 ("fx-optional-null-required","C02","4fa2115","replays/C02/fixed/optional-null-required.json","optional property of type null (c?: null) listed as required in the schema"),
 ("fx-optional-null-required-du","C02","4fa2115","replays/C02/fixed/optional-null-required-du.json","same inside a discriminated-union branch"),
 ("fx-discriminator-prototype-member","C03","6be3a2b","replays/C03/fixed/discriminator-prototype-member.json","{k: \"toString\"} made validate of a discriminated union throw (prototype-chain lookup)"),
 ("fx-map-in-union-parse","C03","cc8ae00","replays/C03/fixed/map-in-union-parse.json","a Map or Set accepted through a union was parsed to {}"),
 ("fx-sorted-order-prototype-named-keys","C03","0c69b13","replays/C03/fixed/sorted-order-prototype-named-keys.json","objectKeyOrder \"sorted\" dropped index-signature keys named toString/constructor"),
 ("fx-own-proto-key","C03","6095641","replays/C03/fixed/own-proto-key.json","parsing an object with an own __proto__ key replaced the prototype of the result"),
 ("fx-typed-array-merged","C03","3383894","replays/C03/fixed/typed-array-merged-into-object.json","a typed array accepted by several union branches was merged key by key into a plain object"),
 ("fx-intersection-shallow-spread","C03","404664b","replays/C03/fixed/intersection-shallow-spread.json","parse of an intersection kept only the last member's view of a nested property"),
 ("fx-du-same-discriminator-recursion","C04","888aebb","replays/C04/fixed/du-same-discriminator-recursion.json","discriminated unions whose branches all admit the same discriminator value made code generation recurse forever"),
 ("fx-two-default-exports","C04","566673e","replays/C04/fixed/two-default-exports.json","two default exports made the compiler panic"),
 ("fx-export-star-self","C04","d0461cd","replays/C04/fixed/export-star-self.json","cyclic export-star chains overflowed the stack"),
 ("fx-enum-string-literal-member","C04","6cf95d9","replays/C04/fixed/enum-string-literal-member.json","enum with a string-literal member name hit unreachable!()"),
 ("fx-enum-template-initialiser","C04","5ca961a","replays/C04/fixed/enum-template-initialiser.json","template literal initialisers lost their text; emitted module did not parse"),
 ("fx-self-referential-const","C04","cf7b840","replays/C04/fixed/self-referential-const.json","a declaration referring to itself through typeof overflowed the stack"),
 ("fx-record-alias-of-alias","C04","80b80c2","replays/C04/fixed/record-alias-of-alias.json","Record<K,V> looped forever when K was an alias of an alias"),
 ("fx-named-tuple-twice","C04","ed66341","replays/C04/fixed/named-tuple-twice-in-exclude.json","a named tuple referenced twice in one semantic computation panicked ('should exist')"),
 ("fx-array-vs-nonempty-tuple","C05","b9e6c41","replays/C05/fixed/array-vs-nonempty-tuple.json","string[] judged assignable to [string, ...string[]]"),
 ("fx-intersected-list-padding","C05","b9e6c41","replays/C05/fixed/intersected-list-padding.json","an intersected list was padded with the other operand's rest type"),
 ("fx-list-rest-negatives","C05","b9e6c41","replays/C05/fixed/list-rest-ignores-remaining-negatives.json","list difference lost the remaining negations for longer lists"),
 ("fx-import-type-args-scope","C09","ca08d1e","replays/C09/fixed/import-type-args-scope.json","type arguments of import(\"./m\").G<Local> were resolved in ./m"),
 ("fx-typeof-namespace-hash-order","C10","a0e11bb","replays/C10/fixed/typeof-namespace-hash-order.json","typeof of a namespace import reported a hash-order dependent diagnostic"),
 ("fx-printerrors-bigint","C12","fadcadc","replays/C12/fixed/printerrors-bigint.json","printErrors threw a TypeError when the rejected value was a bigint"),
 ("fx-union-dedup-bigint-cyclic","C12","e9b83c3","replays/C12/fixed/union-dedup-bigint-cyclic.json","safeParse threw on rejected bigint/cyclic inputs (JSON.stringify in union error dedup)"),
 ("fx-tuple-surplus-empty-errors","C12","1cf7bdd","replays/C12/fixed/tuple-surplus-empty-errors.json","a tuple rejected for surplus items reported an empty error list"),
 ("fx-stale-module-after-broken-update","C14","0ac83c6","replays/C14/fixed/stale-module-after-broken-update.json","an update that does not parse left the previous version in the watch-mode cache"),
 ("fx-describe-bigint","C15","af13c73","replays/C15/fixed/bigint-name.json","describe() printed bigint as BigInt"),
 ("fx-describe-index-member","C15","dc9f42c","replays/C15/fixed/index-member-mapped-type.json","describe() printed an index signature next to named properties as a mapped-type member"),
 ("fx-describe-unquoted-dash-key","C15","dc9f42c","replays/C15/fixed/unquoted-dash-key.json","describe() printed the property name a-b unquoted"),
 ("fx-describe-unquoted-numeric-key","C15","dc9f42c","replays/C15/fixed/unquoted-numeric-key.json","describe() printed a numeric-looking property name unquoted"),
 ("fx-describe-tpl-unescaped","C15","897e100","replays/C15/fixed/tpl-describe-unescaped.json","describe() printed template/string literal text unescaped (`\\\\d${string}` came back as `\\d${string}`, i.e. d...)"),
 ("fx-template-newline-regex-literal","C04","59849a8","replays/C04/fixed/template-newline-regex-literal.json","a line terminator in a template literal type ended up raw inside the emitted regex literal: successful compilation, module does not load"),
 ("fx-override-ignored-for-du-variant","C16","b8c0e78","replays/C16/fixed/override-ignored-for-du-variant.json","a named type first reached as a discriminated-union variant was registered without its namedTypeSchemaOverrides entry (definition depended on call order)"),
 ("fx-named-reexport-self","C04","def0511","replays/C04/fixed/named-reexport-self.json","a named re-export leading back to itself (export { A as A } from \"./entry\" inside entry.ts) overflowed the stack during name resolution (SIGABRT)"),
 ("fx-record-object-intersection-roundtrip","C07","5c6bed9","replays/C07/fixed/record-object-intersection-roundtrip.json","a record intersected with an object ({[k:string]: 0} & {a: string}) is materialised as an AllOf that does not convert back to the same semantic type (record/object intersection family)"),
 ("fx-uninhabited-intersection-roundtrip","C07","5c6bed9","replays/C07/fixed/uninhabited-intersection-roundtrip.json","a union with a member made uninhabited by conflicting intersection members ({a: string} & {a: string; k: string} & {a: string; k: 0}) is materialised without that member, but the result does not convert back to the same semantic type (the engine does not see the member as empty consistently; see c05-uninhabited-intersection-in-union)"),
 ("fx-uninhabited-intersection-in-union","C05","5c6bed9","replays/C05/fixed/uninhabited-intersection-in-union.json","a union that contains an uninhabited intersection (members with contradictory property types) is not recognised as carrying no values there: beff answers \"not assignable\" although every exact value of A is a value of B"),
 ("fx-record-object-conflict","C05","5c6bed9","replays/C05/fixed/record-object-conflict.json","an intersection of a record / index-signature object with an object declaring a key of an incompatible type (Record<string,string> & {\"0\": 0}) is not recognised as empty: beff answers \"not assignable\" without a witness"),
 ("fx-intersection-next-to-record","C05","5c6bed9","replays/C05/fixed/intersection-next-to-record.json","a union of an intersection with a named member and a record whose value type is that named type is not assignable to itself: type Alpha = {k: null}; ({\"a-b\": string; a: \"a\"} & Alpha) | {[k: string]: Alpha} extends itself is answered no (the inline-merged spelling is answered yes); generalises the uninhabited-intersection entry"),
 ("fx-renamed-recursive-record-intersection","C05","5c6bed9","replays/C05/fixed/renamed-recursive-record-intersection.json","two renamings of one recursive type (type Alpha = {x: {[k: string]: number} & {a?: Alpha[]}}; Beta likewise) were not assignable to each other although each is assignable to itself (the record's index signature was ignored for the key a when the intersection was merged)"),
 ("fx-record-covered-by-union-of-records","C05","433b075","replays/C05/fixed/record-covered-by-union-of-records.json","{[k: string]: null | string} | ... was judged assignable to {[k: string]: null} | {[k: string]: string | {...}} (and {[k: string]: A | B} the same type as {[k: string]: A} | {[k: string]: B}) although {c: \"a\", a: null} is in the first and not in the second: the index signature was treated as a single key when several negated records had to be escaped"),
 ("fx-export-list-dual-meaning","C09","c4254aa","replays/C09/fixed/export-list-dual-meaning.json","export { CUnitQ } of a name that is both a constant and a type (const CUnitQ = \"ms\" as const; type CUnitQ = ...) exported the type only: import { CUnitQ } from \"./entry\" used as a value in another module reported Cannot resolve value 'entry.ts::CUnitQ' (the single-file program compiles)"),
 ("fx-describe-empty-union","C15","1a46d80","replays/C15/fixed/empty-union-described-as-parens.json","describe() printed never | never as \"()\" (not parseable)"),
 ("fx-pick-keys-behind-alias","C01","71e5358","replays/C01/fixed/pick-keys-behind-alias.json","Pick<U, K> with the key union behind an alias (type K = \"a\" | \"c\"; also a single literal behind an alias) was refused with 'Pick should have string or string array as type argument', while Omit<U, K> and Pick<U, K1 | \"zz\"> compiled"),
 ("fx-type-parameter-dynamic-scope","C01","048d16b","replays/C01/fixed/type-parameter-dynamic-scope-simple.json","type parameters were dynamically scoped: a non-generic alias first reached from inside a generic type resolved a same-named global alias to the generic's argument and was cached that way (type T = number; type Inner = { v: T }; type Outer<T> = { inner: Inner; t: T }: Outer<string> made Inner accept { v: \"x\" })"),
 ("fx-type-parameter-dynamic-scope-found","C01","048d16b","replays/C01/fixed/type-parameter-dynamic-scope.json","the same defect as found and shrunk by the generator (a named type called T mentioned through an alias inside a generic definition)"),
 ("fx-namespace-contains-itself","C04","8210900","replays/C04/fixed/namespace-contains-itself.json","typeof of a namespace import of a file that re-exports itself as a namespace (export * as self from \"./a\" inside a.ts) overflowed the stack"),
 ("fx-type-as-default-read-as-value","C04","60fb455","replays/C04/fixed/type-as-default-read-as-value.json","export { T as default } of a type, read as a value (typeof D.a), hit unreachable!() in the value walker"),
 ("fx-value-as-default-read-as-type","C04","60fb455","replays/C04/fixed/value-as-default-read-as-type.json","export { v as default } of a constant, read as a qualified type (D.A), hit unreachable!() in the qualified-type walker"),
 ("fx-tuple-padding-not-idempotent","C03","0d21b04","replays/C03/fixed/tuple-padding-not-idempotent.json","parse padded a tuple that was accepted although shorter than its prefix with undefined; with an array branch next to the tuple in a union ([{ k?: string }, string | null] | { [key: string]: \"a\" }[] on [{ z: \"a\" }]) the padded result only matched the tuple branch, so parse(parse(x)) differed from parse(x)"),
 ("fx-refused-then-printed","C02","3460c0c","replays/C02/fixed/refused-then-printed.json","a named type whose body cannot be printed ({ a: Map<string, string>; ... }) stayed marked as in progress in the SchemaPrintingContext after the failed print: the same parser printed again into that context returned { $ref: \"#/$defs/Alpha\" } although Alpha is never stored (a dangling $ref instead of the refusal)"),
 ("fx-dollar-dollar-in-type-name","C16","5d3d352","replays/C16/fixed/dollar-dollar-in-type-name.json","a named type whose name contains $$ (type Beta$$ = ...) was referenced as #/$defs/Beta$ (String.replace read the name as a replacement pattern) while its definition was stored as Beta$$: a dangling $ref in every schema that mentions it"),
]
p='/verif/known_findings.json'
doc=json.load(open(p))
have={f['id'] for f in doc['findings']}
for fid,prop,commit,wit,what in T:
    doc['findings']=[f for f in doc['findings'] if f['id']!=fid]
    doc['findings'].append({"id":fid,"property":prop,"matcher":"","status":"fixed","commit":commit,"what":what,"witness":wit,
                            "record":f"fixed: property={prop} {commit} {what}"})
for f in doc['findings']:
    if f['status']=='fixed' and 'record' not in f:
        f['record']=f"fixed: property={f['property']} {f.get('commit','')} {f['what']}"
doc['fixed']=[f['record'] for f in doc['findings'] if f['status']=='fixed']
json.dump(doc,open(p,'w'),indent=1)
import os
missing=[f['witness'] for f in doc['findings'] if f['witness'] and not os.path.exists('/verif/'+f['witness'])]
print(len(doc['findings']),'entries;', len(doc['fixed']),'fixed; missing witnesses:',missing)
