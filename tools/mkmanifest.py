#!/usr/bin/env python3
"""Regenerates /verif/MANIFEST.json from the table below (one place to keep it valid)."""
import json,subprocess
props=[json.loads(l) for l in open('/verif/properties.jsonl')]
ids=[p['id'] for p in props]
hook_commit=subprocess.check_output(['git','-C','/repo','log','--format=%h','--grep=verif hook']).decode().split()
CHECKS={
 'C01':dict(technique='property-based testing: generated TypeScript programs x generated JS values against a reference membership model (denotation-first spellings), proptest-driven choice streams with two-stage shrinking',
   text='Exploration: thousands of generated programs (every construct family of the statement has at least one spelling) times ~24 type-directed and arbitrary values each, compared with an independent ternary reference membership; a violation is a shrunk (program, value) pair replayable without the generator. No absence claim; bounds are in the evidence file.',
   note='Trusted: my reading of TypeScript membership under beff conventions (unspecified zones never compared), TypeScript-equivalence of the spellings by construction, Node 22 type stripping of the client runtime.', ref='DESIGN.md section 2 C01'),
 'C02':dict(technique='property-based testing with a differential judge: generated TypeScript programs printed in flat and contextual mode (generated refPathTemplate/container configurations); generated JSON documents (exact members, near misses, injected undeclared keys, documents derived from the emitted schema) judged by python-jsonschema Draft 2020-12 (ECMA-262 patterns via Node) against validate() and a ternary strict-membership reference',
   text='Exploration: 1500 programs per quick run x ~30 documents per root x up to 3 printing modes; well-formedness by the Draft 2020-12 meta-schema, $ref resolution by JSON pointer in returned schema + export, both implication directions of the statement, and the throw-instead-of-wrong-schema clause for Date/bigint/Map/Set/typed arrays.',
   note='Trusted: python-jsonschema 4.26 as the meaning of validity; custom format strings asserted with the registered definitions; exported definitions placed where the chosen template points.', ref='DESIGN.md section 2 C02'),
 'C16':dict(technique='model-based (history) property-based testing: generated sequences of schemaWithContext calls (orders, repetitions, overrides, 7 template/container shapes) into one SchemaPrintingContext, compared with a reordered history over the same parser set and with fresh single-parser contexts; references resolved by JSON pointer in the final export',
   text='Exploration: 2500 histories per quick run over programs with up to 4 shared, recursive or mutually referring named types; the oracle is the metamorphic relation the statement gives (same export for every order and repetition; every definition equal to the fresh-context one; no dangling $ref or mapping target).',
   note='Trusted: schemas compared as JSON values; a textual difference is attributed to the listed finding only after the harness has shown equality with references inlined and that only synthetic variant definitions (or presence of aliases) differ.', ref='DESIGN.md section 2 C16'),
 'C03':dict(technique='property-based testing: relational oracle (validate/safeParse/parse agreement, projection, idempotence, key-order, non-mutation) over generated validators (compiled and b.*) x generated values x 5 option sets',
   text='Exploration of the (validator, value, options) product with relations that need no reference model; evaluated inside Node where identity, prototypes and key order are visible.',
   note='Trusted: the worker\'s projection/equality helpers; zod() out of scope.', ref='DESIGN.md section 2 C03'),
 'C04':dict(technique='grammar-based and mutation-based fuzzing of whole projects through a subprocess compile worker with watchdog; oracle = totality invariants (no panic/abort/hang, code xor diagnostics, located diagnostics, module loads in Node and builds every requested parser)',
   text='Exploration: tens of thousands of generated projects per run (whole-syntax grammar incl. unsupported forms, token/byte mutations and splices of the repository corpus, multi-file projects with missing/cyclic imports, semantic-operator stress, random settings). A crash or hang of the compiler is observed from outside the process, so stack overflows and infinite loops are verdicts, not harness failures.',
   note='Trusted: wall-clock bound for termination (10 s, then 60 s alone), 16 MiB worker stack, the location rule (a diagnostic may lack a range only for a file that is missing or does not parse).', ref='DESIGN.md section 2 C04'),
 'C05':dict(technique='property-based testing of the subtyping engine through its public API: generated type pairs (B = one structural edit of A) decided by beff, judged by a set-theoretic reference that enumerates exact values of A over the pair\'s vocabulary closure and tests open membership in B (witness search in both directions)',
   text='Exploration: 30k pairs per quick run; a "yes" is refuted by any enumerated exact value of A outside B (sound regardless of completeness), a "no" is refuted only when the enumeration was complete and every value lies in B; plus is_same_type consistency, independence from memo state (fresh context) and termination (subprocess watchdog).',
   note='Trusted: reference membership with TypeScript null/undefined reading; the small-model bound used for the "no" direction (stated in the evidence assumptions).', ref='DESIGN.md section 2 C05'),
 'C06':dict(technique='property-based testing: (1) truth-table oracle for decision-diagram operations and DNF conversions over generated and exhaustively enumerated Boolean expressions, (2) homomorphism check of semantic-type set operations against an independent membership evaluator over the engine\'s atom tables',
   text='Exploration: 20k diagram expressions (plus an exhaustive sub-run of every expression of depth<=2 over 3 atoms) checked on all assignments; 20k operand pairs x ~40 values x 7 operations x 2 readings checked value by value.',
   note='Trusted: the independent evaluator sem_member (one fixed reading of record atoms per run; undecidable values skipped).', ref='DESIGN.md section 2 C06'),
 'C07':dict(technique='property-based testing: generated semantic computations (diff/intersect/union/keyof/indexed access) materialised through the frontend\'s own sequence and judged by round trip, an independent polarity-aware value-level evaluator pair, printability and reference-integrity checks; a third of the cases also compiled from TypeScript source and run in Node',
   text='Exploration: 10k computations per quick run over the format-free fragment incl. recursive named types; every materialised type is re-interpreted (engine round trip and value by value) and checked for unprintable constructs and dangling/duplicate helper names.',
   note='Trusted: the polarity-aware evaluators (exact positive / open negative reading, exactness judged on merged records); timeouts are inconclusive here.', ref='DESIGN.md section 2 C07'),
 'C08':dict(technique='metamorphic property-based testing: one generated denotation printed twice with independent meaning-preserving spellings; validate results (default and strict) on generated values and hash256 must coincide',
   text='Exploration over pairs of programs restricted to the rewrites the statement lists; the emitted runtime classes are diffed to measure which optimisation fired differently.',
   note='Trusted: TypeScript-equivalence of the two spellings by construction of the renderer.', ref='DESIGN.md section 2 C08'),
 'C13':dict(technique='property-based testing and exhaustive sweep: differential test of the hand-written SHA-256 against node:crypto on the tapped byte stream (all payload lengths 0..300 x UTF-8 widths x write splits, plus random sequences); metamorphic equal-pair and one-edit-mutant pairs for hash256/hash of compiled validators',
   text='Exploration: the digest routine is compared with an independent SHA-256 on every block/padding boundary; structural-fingerprint claims are checked as relations over generated pairs (equal spellings => equal digests; behaviourally different one-edit mutants => different digests).',
   note='Trusted: node:crypto; the tap on updateBytes; the separating value is found among generated values (a mutant pair without one is not judged).', ref='DESIGN.md section 2 C13'),
 'C15':dict(technique='round-trip property-based testing: describe() text of generated validators is fed back through the compiler; second-generation validators are compared with the first on generated values and hash256',
   text='Exploration over the C01 program generator (all hard families counted in the evidence); the oracle is the round trip itself plus a declared-once check of the printed aliases.',
   note='Trusted: beff as the judge of the described text (no tsc offline).', ref='DESIGN.md section 2 C15'),
 'C09':dict(technique='differential property-based testing: a generated single-file program against random partitions of its declarations into 2-5 files with randomly chosen import/export styles, plus decoys and negative variants',
   text='Exploration over layouts (15 style kinds counted in the evidence); the single-file program is the oracle for validate results (default/strict) and hash256; a removed file must yield a diagnostic.',
   note='Trusted: the layout generator only moves declarations and rewrites identifiers; in-memory module resolver.', ref='DESIGN.md section 2 C09'),
 'C10':dict(technique='property-based testing over processes: each generated project is compiled six times (same process twice, three fresh OS processes with new hash seeds, shuffled eager registration orders) and outputs are compared byte for byte',
   text='Exploration over projects that iterate symbol tables (namespace imports with many exports, export-star, multi-file layouts, wild diagnostics-heavy inputs); the oracle is byte equality of emitted code and serialized diagnostics.',
   note='Trusted: hash seeds are sampled (4 processes per project).', ref='DESIGN.md section 2 C10'),
 'C14':dict(technique='model-based (stateful) property-based testing: generated edit/rebuild histories run against one long-lived session of the real beff_wasm crate (beff_verif hook) and compared, at every rebuild, with a from-scratch run on the current files',
   text='Exploration over histories of up to 24 operations on 2-5 files with valid, unresolvable, syntactically broken, missing-export and late-created-file variants; the reference model is a fresh session.',
   note='Trusted: the harness plays the TypeScript driver (write, update_file_content for watched files, rebuild); the hook only replaces the JavaScript host imports.', ref='DESIGN.md section 2 C14'),
 'C11':dict(technique='property-based testing: strict-mode verdicts of generated validators vs reference strict membership, with undeclared keys injected at random object positions',
   text='Exploration weighted to intersections/unions/nesting/records; oracle = reference "no undeclared key at any object position" + strict implies default.',
   note='Trusted: reference declared-key computation (intersection = union of members\' keys, union = matching branch, index signature admits all keys).', ref='DESIGN.md section 2 C11'),
 'C12':dict(technique='property-based testing: invariants over decode errors of generated (validator, rejected value) pairs, checked by an independent path resolver in Node',
   text='Exploration dominated by near-miss values; invariants: 1..10 errors, every path resolves into the input (also inside union errors), received is identical to what is there, rendering total and deterministic.',
   note='Trusted: the resolver\'s reading of the runtime\'s path segment conventions.', ref='DESIGN.md section 2 C12'),
}
import os
claimed=[i for i in ids if i in CHECKS and os.environ.get('ONLY','')=='' or i in os.environ.get('ONLY','').split(',') and i in CHECKS]
m={"version":1,"setup_cmd":"./setup.sh",
 "hooks":{"guard":"cargo feature beff_verif (crate beff_wasm)","enable":"the harness crate depends on beff_wasm with features=[\"beff_verif\"] (harness feature `wasmhook`, always on in setup.sh / run_check.sh)","baseline_off_cmd":"cd /repo && cargo test --workspace --no-fail-fast --offline","source_commits":hook_commit,"add_only":True},
 "engines":[{"name":"beffv","path":"harness/","serves_properties":claimed,"kind_free_text":"Rust harness (proptest 1.11 TestRunner over choice streams, fixed seeds, second-stage stream shrinker) linking /repo's beff-core and beff_wasm as path dependencies; persistent Node 22 worker (js/worker.mjs) running the type-stripped client runtime; python jsonschema judge (py/judge.py); subprocess compile worker with watchdog"}],
 "checks":[],"not_applicable":[],
 "notes":"exit 2 = infrastructure/inconclusive, never a verdict. Known findings: known_findings.json (read-only at run time); witnesses and shrunk failures: replays/<ID>/. VERIF_SEED and VERIF_TIER are honoured."}
for i in ids:
    if i in claimed:
        c=CHECKS[i]
        m['checks'].append({"property_id":i,"quick_cmd":f"./run_check.sh {i} quick","thorough_cmd":f"./run_check.sh {i} thorough","evidence_file":f"evidence/{i}.json","replay_cmd_template":f"./run_check.sh {i} quick --replay {{path}}","engine":"beffv","level_claimed":{"category":"exploration","text":c['text'],"design_ref":c['ref']},"level_note":c['note'],"technique":c['technique']})
    else:
        m['not_applicable'].append({"property_id":i,"reason":"check under construction in this session (will be claimed once built and calibrated on the unchanged tree)"})
json.dump(m,open('/verif/MANIFEST.json','w'),indent=1)
print('claimed',claimed)
