#!/usr/bin/env python3
# usage: kf_add.py <finding-id> <property> <matcher> <status open|fixed> <replay file> <what...> [--commit sha]
import json,sys,os,shutil
fid,prop,matcher,status,src=sys.argv[1:6]
rest=sys.argv[6:]
commit=None
if '--commit' in rest:
    i=rest.index('--commit'); commit=rest[i+1]; rest=rest[:i]+rest[i+2:]
what=' '.join(rest)
p='/verif/known_findings.json'
doc=json.load(open(p)) if os.path.exists(p) else {"findings":[]}
dst=f'replays/{prop}/kf-{fid}.json'
os.makedirs(os.path.dirname('/verif/'+dst),exist_ok=True)
if os.path.abspath(src)!=os.path.abspath('/verif/'+dst): shutil.move(src,'/verif/'+dst)
doc['findings']=[f for f in doc['findings'] if f['id']!=fid]
e={"id":fid,"property":prop,"matcher":matcher,"status":status,"what":what,"witness":dst}
if commit: e['commit']=commit
doc['findings'].append(e)
json.dump(doc,open(p,'w'),indent=1)
print('added',fid)
