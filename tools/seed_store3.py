#!/usr/bin/env python3
"""Round 3 of seeded changes (/tmp/w3-<prop>/MUTANT) -> /verif/seeded/<prop>-5, <prop>-6."""
import json,os,shutil
FIRST_TRUE={"C01-5","C02-6","C03-5","C04-6","C06-5","C06-6","C07-5","C08-6","C11-5","C12-5","C12-6","C13-5","C15-6","C16-6"}
for pid in [f"C{n:02d}" for n in range(1,17)]:
    W=f"/tmp/w3-{pid}/MUTANT"
    if not os.path.isdir(W): continue
    meta=json.load(open(f"{W}/meta.json"))
    for n in (1,2):
        sid=f"{pid}-{n+4}"
        patch=f"patch{n}.diff"
        if not os.path.exists(f"{W}/{patch}"): continue
        D=f"/verif/seeded/{sid}"; os.makedirs(D,exist_ok=True)
        shutil.copy(f"{W}/{patch}",f"{D}/patch.diff")
        if os.path.exists(f"{W}/demo{n}.md"): shutil.copy(f"{W}/demo{n}.md",f"{D}/demo.md")
        m=meta["mutants"][n-1] if len(meta.get("mutants",[]))>=n else {}
        first=(sid in FIRST_TRUE)
        note=None
        if sid=="C10-6":
            first=None
            note="changes the signature of an internal function the harness' engine hooks call: at first contact the harness did not build (exit 2 for every check); since then the hooks are a cargo feature and the other checks fall back to a build without them"
        out={"id":sid,"property":pid,"round":3,"summary":m.get("summary"),"needs":m.get("needs"),"files":m.get("files"),
             "author":"fresh sub-agent given only the property text, a scratch worktree and the one-line summaries of rounds 1-2 (to stay different)",
             "detected_at_first_contact":first,"note":note}
        json.dump(out,open(f"{D}/meta.json","w"),indent=1)
        print("stored",sid)
