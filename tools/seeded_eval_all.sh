#!/bin/bash
# usage: seeded_eval_all.sh [-j N] [ids...]  -- evaluates seeded changes in parallel scratch copies, then rewrites seeded/RESULTS.md
J=3; if [ "$1" = "-j" ]; then J=$2; shift 2; fi
IDS="$@"; [ -z "$IDS" ] && IDS=$(ls /verif/seeded | grep -E '^C[0-9]+-[0-9]+$' | sort)
echo $IDS | tr ' ' '\n' | xargs -P $J -n 1 /verif/tools/seeded_eval_one.sh
python3 /verif/tools/seeded_results.py
