#!/usr/bin/env python3
"""Round 6 of seeded changes (/tmp/w6-<prop>/MUTANT) -> /verif/seeded/<prop>-11, <prop>-12.  usage: seed_store5.py C01 C02 ..."""
import json,os,shutil,sys
for pid in sys.argv[1:]:
    W=f"/tmp/w6-{pid}/MUTANT"
    if not os.path.isdir(W): continue
    meta=json.load(open(f"{W}/meta.json"))
    for n in (1,2):
        sid=f"{pid}-{n+10}"
        patch=f"patch{n}.diff"
        if not os.path.exists(f"{W}/{patch}"): continue
        t=open(f"{W}/tests_{n}.txt").read().strip() if os.path.exists(f"{W}/tests_{n}.txt") else "?"
        if "passed=397 failed=0" not in t: print("NOT STORED (suite)",sid,t); continue
        D=f"/verif/seeded/{sid}"; os.makedirs(D,exist_ok=True)
        shutil.copy(f"{W}/{patch}",f"{D}/patch.diff")
        if os.path.exists(f"{W}/demo{n}.md"): shutil.copy(f"{W}/demo{n}.md",f"{D}/demo.md")
        m=meta["mutants"][n-1] if len(meta.get("mutants",[]))>=n else {}
        old=json.load(open(f"{D}/meta.json")) if os.path.exists(f"{D}/meta.json") else {}
        out={"id":sid,"property":pid,"round":6,"summary":m.get("summary"),"needs":m.get("needs"),"files":m.get("files"),
             "author":"fresh sub-agent given only the property text, a scratch worktree and the one-line summaries of rounds 1-5 (to stay different)",
             "confirmed":"patch applied alone in the author's scratch worktree, unedited pinned suite re-run by tools/seed_confirm6.sh: "+t,
             "detected_at_first_contact":old.get("detected_at_first_contact"),"note":old.get("note")}
        json.dump(out,open(f"{D}/meta.json","w"),indent=1)
        print("stored",sid)
