#!/usr/bin/env python3
"""Round 2 of seeded changes (/tmp/w2-<prop>/MUTANT) -> /verif/seeded/<prop>-3, <prop>-4."""
import json,os,shutil
OVERRIDE={"C08-4":"patch3.diff"}
FIRST={  # detected at first contact (quick, seed 1) by the owning check, before the round-2 strengthening
 "C01-3":True,"C01-4":False,"C02-3":True,"C02-4":False,"C03-3":False,"C03-4":True,"C04-3":True,"C04-4":False,"C05-3":True,"C05-4":False,
 "C06-3":True,"C06-4":True,"C07-3":False,"C07-4":False,"C08-3":True,"C08-4":False,"C09-3":False,"C09-4":True,"C10-3":True,"C10-4":False,
 "C11-3":False,"C11-4":True,"C12-3":True,"C12-4":True,"C13-3":False,"C13-4":False,"C14-3":True,"C14-4":True,"C15-3":True,"C15-4":False,"C16-3":False,"C16-4":True}
for pid in [f"C{n:02d}" for n in range(1,17)]:
    W=f"/tmp/w2-{pid}/MUTANT"
    if not os.path.isdir(W): continue
    meta=json.load(open(f"{W}/meta.json"))
    for n in (1,2):
        sid=f"{pid}-{n+2}"
        patch=OVERRIDE.get(sid,f"patch{n}.diff")
        if not os.path.exists(f"{W}/{patch}"): continue
        D=f"/verif/seeded/{sid}"; os.makedirs(D,exist_ok=True)
        shutil.copy(f"{W}/{patch}",f"{D}/patch.diff")
        if os.path.exists(f"{W}/demo{n}.md"): shutil.copy(f"{W}/demo{n}.md",f"{D}/demo.md")
        m=meta["mutants"][n-1] if len(meta.get("mutants",[]))>=n else {}
        out={"id":sid,"property":pid,"round":2,"summary":m.get("summary"),"needs":m.get("needs"),"files":m.get("files"),
             "author":"fresh sub-agent given only the property text, a scratch worktree and the one-line summaries of round 1 (to stay different)",
             "detected_at_first_contact":FIRST.get(sid),
             "note":("patch rebased onto a later fix commit in the same function (same effect)" if sid in OVERRIDE else None)}
        json.dump(out,open(f"{D}/meta.json","w"),indent=1)
        print("stored",sid)
