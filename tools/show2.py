import json,sys
for f in sys.argv[1:]:
    o=json.load(open(f))
    ob=o['observed']
    print("==",f); print(o['signature'],'|', o['what'][:400])
    print(ob.get('program'))
    for k in ('mode','schema','more','printed','returned','export','cfg'):
        if k in ob: print(k, json.dumps(ob[k])[:1200])
