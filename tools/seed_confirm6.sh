#!/bin/bash
# usage: seed_confirm5.sh <ID>...   -- for each patchN.diff of each round-6 worktree /tmp/w6-ID: apply alone, run the pinned suite, record pass count, un-apply
for id in "$@"; do
  W=/tmp/w6-$id
  for p in $W/MUTANT/patch*.diff; do
    n=$(basename $p .diff); n=${n#patch}
    git -C $W checkout -q -- . ; git -C $W clean -fdq -e MUTANT -e target packages 2>/dev/null
    if ! git -C $W apply $p; then echo "$id $n APPLY-FAILED" > $W/MUTANT/tests_$n.txt; continue; fi
    ( cd $W && CARGO_NET_OFFLINE=true cargo test --workspace --no-fail-fast --offline -j 5 2>&1 | grep -E "^test result" | awk '{p+=$4; f+=$6} END {print "passed=" p " failed=" f}' ) > $W/MUTANT/tests_$n.txt
    git -C $W checkout -q -- .
    echo "$id $n $(cat $W/MUTANT/tests_$n.txt)"
  done
done
