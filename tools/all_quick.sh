#!/bin/bash
# usage: all_quick.sh seed...   -- runs every quick check for each seed ("default" = VERIF_SEED unset), prints one line per failure, summary at the end
fail=0
for sd in "$@"; do
  for c in C01 C02 C03 C04 C05 C06 C07 C08 C09 C10 C11 C12 C13 C14 C15 C16; do
    if [ "$sd" = default ]; then out=$(env -u VERIF_SEED /verif/run_check.sh $c quick 2>&1); rc=$?
    else out=$(VERIF_SEED=$sd /verif/run_check.sh $c quick 2>&1); rc=$?; fi
    if [ $rc -ne 0 ]; then fail=1; echo "seed=$sd $c rc=$rc"; echo "$out" | grep -v "^KNOWN" | tail -4; fi
  done
done
echo "all_quick done fail=$fail"
