import json,sys
for f in sys.argv[1:]:
    o=json.load(open(f))
    print("==",f); print(o['signature'],'|', o['what'][:300]); c=o['case']
    for n,t in c['project']['files']: print('---',n); print(t)
    print('entry',c['project']['entry'], c['project']['string_formats'], c['project']['number_formats'])
    ob=o['observed']
    print(json.dumps({k:v for k,v in ob.items() if k not in ('project','code')})[:800])
