import json,sys
for f in sys.argv[1:]:
    o=json.load(open(f))
    print("==",f); print(o['signature'],'|', o['what']); c=o['case']
    if 'program' in c: print(c['program'])
    ob=o['observed']
    print(json.dumps({k:ob[k] for k in ob if k not in ('program','type')})[:1500])
