import json,sys
for f in sys.argv[1:]:
    o=json.load(open(f))
    print("==",f); print(o['signature'],'|', o['what'][:300]); c=o['case']
    ob=o['observed']
    prog = c.get('program') or (ob.get('program') if isinstance(ob,dict) else None) or (ob.get('validator',{}).get('program') if isinstance(ob,dict) and isinstance(ob.get('validator'),dict) else None)
    if prog: print(prog)
    def strip(x):
        if isinstance(x,dict): return {k:strip(v) for k,v in x.items() if k not in ('program','type','value_tagged')}
        if isinstance(x,list): return [strip(v) for v in x]
        return x
    print(json.dumps(strip(ob))[:1800])
