import json,sys
for f in sys.argv[1:]:
    o=json.load(open(f)); ob=o['observed']
    print("==",f); print(o['signature'],'|',o['what'][:300]); print(ob['program']); print('h1',ob['h1'],'h2',ob['h2'],'ov',ob['overrides'],'cfg',ob['cfg']['template'])
    print(json.dumps(ob['more'])[:1800])
