#!/usr/bin/env python3
"""Copies confirmed seeded changes from the sub-agents' scratch worktrees into /verif/seeded/<id>/."""
import json,os,shutil,sys
OVERRIDE={"C01-1":"patch3.diff","C04-1":"patch3.diff"}   # rebased onto later fix commits (same change, same effect)
SKIP={"C03-2":"superseded: fix a5c65d3 (AllOf on non-object values) removed the code path the change lived in"}
for pid in [f"C{n:02d}" for n in range(1,17)]:
    W=f"/tmp/wt-{pid}/MUTANT"
    if not os.path.isdir(W): continue
    meta=json.load(open(f"{W}/meta.json"))
    for n in (1,2):
        sid=f"{pid}-{n}"
        if sid in SKIP: continue
        patch=OVERRIDE.get(sid,f"patch{n}.diff")
        if not os.path.exists(f"{W}/{patch}"): continue
        D=f"/verif/seeded/{sid}"; os.makedirs(D,exist_ok=True)
        shutil.copy(f"{W}/{patch}",f"{D}/patch.diff")
        if os.path.exists(f"{W}/demo{n}.md"): shutil.copy(f"{W}/demo{n}.md",f"{D}/demo.md")
        m=meta["mutants"][n-1] if len(meta.get("mutants",[]))>=n else {}
        tests=open(f"{W}/tests_{n}.txt").read().strip() if os.path.exists(f"{W}/tests_{n}.txt") else "not re-run"
        out={"id":sid,"property":pid,"summary":m.get("summary"),"needs":m.get("needs"),"files":m.get("files"),
             "author":"fresh sub-agent given only the property text and a scratch worktree",
             "existing_test_suite":tests,
             "note":("patch rebased onto later fix commits in the same function (same one-line effect)" if sid in OVERRIDE else None)}
        old=json.load(open(f"{D}/meta.json")) if os.path.exists(f"{D}/meta.json") else {}
        for k in ("detected_by","first_run_result","strengthening"):
            if k in old: out[k]=old[k]
        json.dump(out,open(f"{D}/meta.json","w"),indent=1)
        print("stored",sid,tests)
