#!/bin/bash
# usage: benign_eval.sh [-j N]   -- every behaviour-preserving change of benign/B*/ against ALL 16 quick checks (seed 1) in
# scratch copies; writes benign/RESULTS-latest.md (no check may alarm; exit 2 = infrastructure, to be re-run)
J=3; if [ "$1" = "-j" ]; then J=$2; shift 2; fi
OUT=/tmp/benign-out; rm -rf $OUT; mkdir -p $OUT
ls /verif/benign/B*/patch*.diff | xargs -P $J -n 1 bash -c 'p=$0; tag=$(basename $(dirname $p))-$(basename $p .diff | sed s/patch//); /verif/tools/mutant_eval.sh $tag $p 1 C01 C02 C03 C04 C05 C06 C07 C08 C09 C10 C11 C12 C13 C14 C15 C16 > /tmp/benign-out/$tag.log 2>&1'
{
echo "# Behaviour-preserving changes against the current checks (all 16 quick checks, seed 1, scratch copies)"; echo
echo "| id | non-zero exits |"; echo "|---|---|"
for f in $(ls $OUT/*.log | sort); do tag=$(basename $f .log); bad=$(grep -E " C[0-9]+ exit=[12]" $f | awk '{print $2 ": " $3}' | tr '\n' ' '); echo "| $tag | ${bad:-none} |"; done
} > /verif/benign/RESULTS-latest.md
cat /verif/benign/RESULTS-latest.md
