#!/usr/bin/env python3
"""Round 4 of seeded changes (/tmp/w4-<prop>/MUTANT) -> /verif/seeded/<prop>-7, <prop>-8."""
import json,os,shutil
FIRST_FALSE={"C01-7","C03-8","C04-7","C07-7","C08-7","C08-8","C09-8","C10-7","C13-7","C15-7"}
NOTES={"C10-7":"a watch-session defect (bundle memo keyed by entry point only): owned by C14's histories, which vary the settings between rebuilds since this round; C10 (one process, fixed settings per run) is silent by design",
       "C10-8":"a watch-session defect (unchanged text skips the re-parse): detected by C14 at first contact; C10 is silent by design"}
for pid in [f"C{n:02d}" for n in range(1,17)]:
    W=f"/tmp/w4-{pid}/MUTANT"
    if not os.path.isdir(W): continue
    meta=json.load(open(f"{W}/meta.json"))
    for n in (1,2):
        sid=f"{pid}-{n+6}"
        patch=f"patch{n}.diff"
        if not os.path.exists(f"{W}/{patch}"): continue
        D=f"/verif/seeded/{sid}"; os.makedirs(D,exist_ok=True)
        shutil.copy(f"{W}/{patch}",f"{D}/patch.diff")
        if os.path.exists(f"{W}/demo{n}.md"): shutil.copy(f"{W}/demo{n}.md",f"{D}/demo.md")
        m=meta["mutants"][n-1] if len(meta.get("mutants",[]))>=n else {}
        out={"id":sid,"property":pid,"round":4,"summary":m.get("summary"),"needs":m.get("needs"),"files":m.get("files"),
             "author":"fresh sub-agent given only the property text, a scratch worktree and the one-line summaries of rounds 1-3 (to stay different)",
             "detected_at_first_contact":(sid not in FIRST_FALSE),"note":NOTES.get(sid)}
        json.dump(out,open(f"{D}/meta.json","w"),indent=1)
        print("stored",sid)
