#!/usr/bin/env python3
"""Merge NODE_V8_COVERAGE dumps of the Node workers and list the parts of the type-stripped client runtime that no
generated case reached.  usage: jscov.py <covdir>... [--file codegen-v2]
(run a check with NODE_V8_COVERAGE=<dir> ./run_check.sh <ID> quick; positions are those of the stripped .mjs, whose
lines coincide with packages/beff-client/src/<file>.ts except for the rewritten import header)"""
import json,sys,glob,os,re,subprocess
args=[a for a in sys.argv[1:] if not a.startswith('--')]
which='codegen-v2'
for i,a in enumerate(sys.argv):
    if a=='--file': which=sys.argv[i+1]
if which in args: args.remove(which)
counts=None; text=None
for d in args:
    for f in glob.glob(d+'/**/*.json',recursive=True):
        try: j=json.load(open(f))
        except Exception: continue
        for r in j.get('result',[]):
            if not r['url'].endswith('/rt/%s.mjs'%which): continue
            # all workers strip the same source: byte offsets agree
            n=max(rg['endOffset'] for fn in r['functions'] for rg in fn['ranges'])
            c=[None]*(n+1)
            for fn in r['functions']:
                for rg in fn['ranges']:   # outer first, inner ranges override
                    for k in range(rg['startOffset'],rg['endOffset']): c[k]=rg['count']
            if counts is None: counts=[0]*(n+1)
            if len(counts)<n+1: counts+= [0]*(n+1-len(counts))
            for k,v in enumerate(c):
                if v: counts[k]+=v
if counts is None: print("no coverage for",which); sys.exit(1)
NODE="/root/.nvm/versions/node/v22.22.2/bin/node"
src=open('/repo/packages/beff-client/src/%s.ts'%which).read()
js=subprocess.check_output([NODE,'-e',"const m=require('node:module');const fs=require('fs');process.stdout.write(m.stripTypeScriptTypes(fs.readFileSync(process.argv[1],'utf8'),{mode:'strip'}))",'/repo/packages/beff-client/src/%s.ts'%which]).decode()
# V8 offsets are UTF-16 code units of the worker's file; the header rewrite shifts them. Align on the first 'export ' / 'const ' after the imports:
# simpler: recompute the worker's exact text
def rewrite(js):
    n=[0]
    def rep(m):
        n[0]+=1
        lst=[s.strip() for s in m.group(1).split(',') if s.strip()]
        lst=[re.sub(r'^type\s+','',s) for s in lst]; lst=[re.sub(r'\s+as\s+',': ',s) for s in lst]
        return 'import * as __m%d from "%s.mjs"; const { %s } = __m%d;'%(n[0],m.group(2),', '.join(lst),n[0])
    js=re.sub(r'import\s*\{([^}]*)\}\s*from\s*"(\./[^"]+)\.js";',rep,js)
    js=re.sub(r'export\s*\{([^}]*)\}\s*from\s*"(\./[^"]+)\.js";',lambda m:'export {%s} from "%s.mjs";'%(m.group(1),m.group(2)),js)
    js=re.sub(r'import\s*\{\s*z\s*\}\s*from\s*"zod";',"const z = { custom: () => { throw new Error('zod stub'); } };",js,count=1)
    js=re.sub(r'import\s+type\s+[^;]*;','',js)
    return js
text=rewrite(js)
counts+= [0]*(len(text)+1-len(counts))
# uncovered maximal runs, reported by line with a snippet, skipping whitespace/brace-only runs
out=[]; i=0; N=len(text)
line_of=[0]*(N+1); ln=1
for k,ch in enumerate(text):
    line_of[k]=ln
    if ch=='\n': ln+=1
line_of[N]=ln
while i<N:
    if counts[i]==0 and not text[i].isspace():
        j=i
        while j<N and (counts[j]==0 or text[j].isspace()): j+=1
        seg=text[i:j].strip()
        if len(re.sub(r'[\s{}();,]','',seg))>=12: out.append((line_of[i],line_of[j-1],seg))
        i=j
    else: i+=1
tot=sum(1 for k in range(N) if not text[k].isspace()); unc=sum(1 for k in range(N) if not text[k].isspace() and counts[k]==0)
print("%s: %d of %d non-blank characters never executed (%.1f%%), %d uncovered runs"%(which,unc,tot,100.0*unc/tot,len(out)))
for a,b,seg in out:
    first=seg.split('\n')[0][:150]
    print("  L%d-%d (%d chars): %s"%(a,b,len(seg),first))
