// usage: node try.mjs <file.ts> <parserName> '<json value>' ...   (values are plain JSON; use {"$t":{...}} for tagged)
import { spawnSync, spawn } from "node:child_process";
import * as fs from "node:fs";
const [file, parser, ...vals] = process.argv.slice(2);
const c = spawnSync("/verif/harness/target/release/beffv", ["compile", file], { encoding: "utf8" });
const out = JSON.parse(c.stdout);
if (out.panic || out.diags.length) { console.log(JSON.stringify({ panic: out.panic, diags: out.diags }, null, 1)); process.exit(1); }
if (process.env.SHOW) console.log(out.code);
function tag(v) {
  if (v === null) return { t: "n" };
  if (typeof v === "boolean") return { t: "b", v };
  if (typeof v === "number") return { t: "num", s: String(v) };
  if (typeof v === "string") return { t: "s", v };
  if (Array.isArray(v)) return { t: "arr", v: v.map(tag) };
  if (v.$t) return v.$t;
  return { t: "obj", proto: "plain", v: Object.entries(v).map(([k, x]) => [k, tag(x)]) };
}
const qs = [];
for (const v of vals) {
  const tv = tag(JSON.parse(v));
  qs.push({ q: "validate", parser, value: tv }, { q: "trio", parser, value: tv }, { q: "errors", parser, value: tv });
}
qs.push({ q: "describe", parser }, { q: "hash256", parser, tokens: !!process.env.TOKENS }, { q: "schema", parser });
const w = spawn(process.execPath, ["--no-warnings", "/verif/js/worker.mjs"], { stdio: ["pipe", "pipe", "inherit"] });
let buf = "";
w.stdout.on("data", (d) => {
  buf += d;
  const lines = buf.split("\n");
  buf = lines.pop();
  for (const l of lines) {
    const o = JSON.parse(l);
    if (o.ready) { w.stdin.write(JSON.stringify({ id: 1, op: "case", code: out.code, stringFormats: ["lower","len3","aprefix"], numberFormats: ["nonneg","int"], queries: qs }) + "\n"); continue; }
    console.log(JSON.stringify(o, null, 1));
    w.stdin.end();
  }
});
