#!/bin/bash
# usage: seeds.sh <ID> <seed>...   runs the quick tier per seed, prints the summary lines
ID=$1; shift
for seed in "$@"; do VERIF_SEED=$seed timeout 900 ./harness/target/release/beffv check $ID --tier quick 2>&1 | grep -v "^proptest" | grep -v KNOWN-FINDING | tail -4; done
