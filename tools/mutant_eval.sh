#!/bin/bash
# usage: mutant_eval.sh <tag> <patch.diff> <seed> <CHECK-ID>...
# Evaluates checks against a patched scratch copy of /repo WITHOUT touching /repo (parallel-safe):
# scratch worktree + scratch copy of /verif whose harness path-deps point at the worktree.
# Prints one line per check: "<tag> <check> exit=<rc> <first VIOLATION/KNOWN line>".
TAG="$1"; PATCH="$(readlink -f "$2")"; SEED="$3"; shift 3
D=/tmp/me-$TAG
rm -rf "$D"; mkdir -p "$D"
git -C /repo worktree add -q --detach "$D/repo" HEAD || exit 2
if ! git -C "$D/repo" apply "$PATCH"; then echo "$TAG patch does not apply"; git -C /repo worktree remove --force "$D/repo"; rm -rf "$D"; exit 2; fi
rsync -a --exclude target --exclude work --exclude .git --exclude seeded --exclude benign "${VERIF_SRC:-/verif}/" "$D/verif/"
sed -i "s#/repo/packages#$D/repo/packages#" "$D/verif/harness/Cargo.toml"
cp -r "${VERIF_SRC:-/verif}/harness/target" "$D/verif/harness/target" 2>/dev/null
export VERIF_ROOT="$D/verif" BEFF_REPO="$D/repo" CARGO_NET_OFFLINE=true VERIF_SEED="$SEED"
mkdir -p "$D/verif/work"
( cd "$D/verif/harness" && cargo build --release --features wasmhook -j 8 >"$D/build.log" 2>&1 ) || {
  echo "$TAG full build failed, building without the engine hooks"
  ( cd "$D/verif/harness" && cargo build --release --no-default-features --features wasmhook -j 8 >"$D/build.log" 2>&1 ) || { echo "$TAG BUILD FAILED"; tail -5 "$D/build.log"; }
}
for C in "$@"; do
  ( cd "$D/verif" && timeout 1800 "$D/verif/harness/target/release/beffv" check "$C" --tier quick >"$D/out-$C.log" 2>&1 ); rc=$?
  echo "$TAG $C exit=$rc $(grep -m1 -A1 '^VIOLATION' "$D/out-$C.log" | tr '\n' ' ' | cut -c1-300)"
  grep "^$C quick" "$D/out-$C.log" | tail -1
done
mkdir -p /tmp/me-replays/$TAG; for C in "$@"; do cp "$D"/verif/replays/$C/new-*.json /tmp/me-replays/$TAG/ 2>/dev/null; cp "$D/out-$C.log" /tmp/me-replays/$TAG/ 2>/dev/null; done
git -C /repo worktree remove --force "$D/repo"
rm -rf "$D"
