#!/usr/bin/env python3
"""Hand-written regression witnesses for defects that were fixed before witnesses were being saved.
Each is a case in the owning check's case format; `beffv replay <ID> <file>` runs it strictly."""
import json,os
def S(x): return {"Str":x}
def N(x): return {"Num":x}
def O(kv,proto="Plain"): return {"Obj":[[[k,v] for k,v in kv],proto]}
def prog(roots, decls=""):
    body="".join(f"  P{i}: {t};\n" for i,t in enumerate(roots))
    return decls+"export const Parsers = parse.buildParsers<{\n"+body+"}>();\n"
def typed(decls, roots, values, env=None):
    return {"env":{"defs":env or []},"program":prog([r[0] for r in roots],decls),
            "roots":[[f"P{i}",r[1]] for i,r in enumerate(roots)],"used":{},
            "values":[[[v,l] for v,l in vs] for vs in values]}
def obj(props,index=None): return {"Object":{"index":index,"props":[{"key":k,"ty":t,"optional":o} for k,t,o in props]}}
def wild(text): return {"kind":"wild_single","project":{"entry":"entry.ts","files":[["entry.ts",text]],"number_formats":[],"string_formats":[]}}
W={}
# ---- C04 (totality)
W[("C04","du-same-discriminator-recursion")]=wild('type U = {k:"a";c:string} | {k:"a"|"b";c:number};\nparse.buildParsers<{ P0: U }>();\n')
W[("C04","two-default-exports")]=wild('export default 1;\nexport default 2;\ntype A = string;\nparse.buildParsers<{ P0: A }>();\n')
W[("C04","export-star-self")]=wild('export * from "./entry";\ntype A = string;\nimport { Zed } from "./entry";\nparse.buildParsers<{ P0: Zed }>();\n')
W[("C04","enum-string-literal-member")]=wild('enum E { "a-b" = "x", M = "m" }\nparse.buildParsers<{ P0: E.M }>();\n')
W[("C04","enum-template-initialiser")]=wild('enum B { M = `t` }\nparse.buildParsers<{ P0: B.M; P1: typeof B }>();\n')
W[("C04","record-alias-of-alias")]=wild('type B = "a" | "b";\ntype A = B;\nparse.buildParsers<{ P0: Record<A, number> }>();\n')
W[("C04","named-tuple-twice-in-exclude")]=wild('type A = [];\nparse.buildParsers<{ P0: Exclude<bigint | A | string | A, bigint> }>();\n')
# ---- C01 (membership)
tpl={"Tpl":["Bool","Num","Str"]}
W[("C01","template-through-exclude")]=typed("",[("Exclude<boolean | { b: `${boolean}${number}${string}` }, boolean>",obj([("b",tpl,False)]))],
   [[(O([("b",S("true1"))]),"member"),(O([("b",S("true1x"))]),"member"),(O([("b",S(""))]),"near"),(O([("b",S("x"))]),"near"),(S("a"),"arbitrary")]])
W[("C01","template-unanchored")]=typed("",[('`${boolean}${"a" | "b"}`',{"Tpl":["Bool",{"OneOf":["a","b"]}]})],
   [[(S("truea"),"member"),(S("falseb"),"member"),(S("trueax"),"near"),(S("xtruea"),"near"),(S("true"),"near")]])
# ---- C03 (validate/parse agreement)
du={"Union":[obj([("k",{"StrLit":"a"},False)]),obj([("k",{"StrLit":"b"},False)])]}
W[("C03","discriminator-prototype-member")]={"adhoc":[],"typed":typed("",[('{ k: "a" } | { k: "b" }',du)],
   [[(O([("k",S("a"))]),"member"),(O([("k",S("toString"))]),"near"),(O([("k",S("constructor"))]),"near"),(O([("k",S("__proto__"))]),"near")]])}
W[("C03","map-in-union-parse")]={"adhoc":[],"typed":typed("",[('Map<string, number> | string',{"Union":[{"Map":["Str","Num"]},"Str"]})],
   [[({"Map":[[S("a"),N("1")]]},"member"),({"Set":[S("a")]},"near"),(S("a"),"member")]])}
W[("C03","sorted-order-prototype-named-keys")]={"adhoc":[],"typed":typed("",[('{ [key: string]: {} }',obj([],index=obj([])))],
   [[(O([("toString",O([])),("a",O([]))]),"member"),(O([("constructor",O([])),("hasOwnProperty",O([]))]),"member")]])}
W[("C03","own-proto-key")]={"adhoc":[],"typed":typed("",[('{ [key: string]: {} }',obj([],index=obj([])))],
   [[(O([("__proto__",O([("z",O([]))])),("a",O([]))]),"member")]])}
# ---- C12 (error reports)
W[("C12","printerrors-bigint")]=typed("",[('string',"Str")],[[({"BigInt":"10"},"arbitrary"),(S("a"),"member")]])
W[("C12","union-dedup-bigint-cyclic")]=typed("",[('string | number[]',{"Union":["Str",{"Array":"Num"}]})],[[({"BigInt":"10"},"arbitrary"),("Cyclic","arbitrary"),("CyclicArr","arbitrary")]])
W[("C12","tuple-surplus-empty-errors")]=typed("",[('[string]',{"Tuple":[["Str"],None]})],[[({"Arr":[S("a"),S("b")]},"near"),({"Arr":[S("a")]},"member")]])
for (pid,name),case in W.items():
    d=f"/verif/replays/{pid}/fixed"; os.makedirs(d,exist_ok=True)
    json.dump({"property":pid,"signature":"handmade","what":name,"seed":0,"choices":[],"case":case,"observed":None},open(f"{d}/{name}.json","w"),indent=1)
print(len(W),"witnesses written")
