#!/bin/bash
# usage: benign_eval_some.sh [-j N] <CHECK-ID>...  -- every behaviour-preserving change of benign/B*/ that still applies to /repo's HEAD
# against the named quick checks (seed 1) in scratch copies; writes benign/RESULTS-latest.md (no check may alarm; exit 2 = infrastructure)
J=3; if [ "$1" = "-j" ]; then J=$2; shift 2; fi
CHECKS="$@"
OUT=/tmp/benign-out; rm -rf $OUT; mkdir -p $OUT
export CHECKS
ls /verif/benign/B*/patch*.diff | xargs -P $J -n 1 bash -c 'p=$0; tag=$(basename $(dirname $p))-$(basename $p .diff | sed s/patch//); /verif/tools/mutant_eval.sh $tag $p 1 $CHECKS > /tmp/benign-out/$tag.log 2>&1'
{
echo "# Behaviour-preserving changes against the current checks ($CHECKS; quick, seed 1, scratch copies)"; echo
echo "| id | result |"; echo "|---|---|"
for f in $(ls $OUT/*.log | sort); do tag=$(basename $f .log); if grep -q "patch does not apply" $f; then echo "| $tag | does not apply to the current HEAD (a later fix: rewrote the same lines) |"; continue; fi; bad=$(grep -E " C[0-9]+ exit=[12]" $f | awk '{print $2 ": " $3}' | tr '\n' ' '); echo "| $tag | ${bad:-no check alarms} |"; done
} > /verif/benign/RESULTS-latest.md
cat /verif/benign/RESULTS-latest.md
