import json,sys
for f in sys.argv[1:]:
    o=json.load(open(f))
    print("==",f); print(o['signature'],'|', o['what'][:300]); ob=o['observed']
    print('--- single'); print(ob.get('single',''))
    for n,t in ob.get('files',[]): print('---',n); print(t)
    print(json.dumps({k:v for k,v in ob.items() if k not in ('single','files','type')})[:600])
