// Persistent Node worker for the beff verification harness.
// Protocol: one JSON object per line on stdin -> one JSON object per line on stdout.
// The client runtime is type-stripped from /repo/packages/beff-client/src at start-up (so edits to the
// runtime are picked up), and every emitted module is assembled exactly like
// packages/beff-wasm/ts-node/bundle-to-disk.ts does (only the specifier "@beff/client/codegen-v2" is pointed
// at the stripped runtime).
import * as fs from "node:fs";
import * as path from "node:path";
import * as mod from "node:module";
import * as crypto from "node:crypto";
import * as readline from "node:readline";
import { pathToFileURL } from "node:url";

const REPO = process.env.BEFF_REPO || "/repo";
const WORK = process.env.VERIF_WORK || "/verif/work";
const MYDIR = path.join(WORK, `node-${process.pid}`);

if (typeof mod.stripTypeScriptTypes !== "function") {
  console.log(JSON.stringify({ fatal: "node has no module.stripTypeScriptTypes; need Node >= 22.13" }));
  process.exit(3);
}

fs.mkdirSync(MYDIR, { recursive: true });
const RT = path.join(MYDIR, "rt");
fs.mkdirSync(RT, { recursive: true });

function stripFile(name) {
  const src = fs.readFileSync(path.join(REPO, "packages/beff-client/src", name + ".ts"), "utf8");
  let js = mod.stripTypeScriptTypes(src, { mode: "strip" });
  // Node does not elide type-only named imports: import the namespace and destructure instead.
  let n = 0;
  js = js.replace(/import\s*\{([^}]*)\}\s*from\s*"(\.\/[^"]+)\.js";/g, (_m, names, spec) => {
    n++;
    const list = names
      .split(",")
      .map((s) => s.trim())
      .filter((s) => s.length > 0 && !/^\s*$/.test(s))
      .map((s) => s.replace(/^type\s+/, ""))
      .map((s) => s.replace(/\s+as\s+/, ": "));
    return `import * as __m${n} from "${spec}.mjs"; const { ${list.join(", ")} } = __m${n};`;
  });
  // value re-exports work natively; only the extension changes
  js = js.replace(/export\s*\{([^}]*)\}\s*from\s*"(\.\/[^"]+)\.js";/g, (_m, names, spec) => `export {${names}} from "${spec}.mjs";`);
  js = js.replace(/import\s*\{\s*z\s*\}\s*from\s*"zod";/, "const z = { custom: () => { throw new Error('zod stub'); } };");
  js = js.replace(/import\s+type\s+[^;]*;/g, "");
  fs.writeFileSync(path.join(RT, name + ".mjs"), js);
}
for (const f of ["hash", "err", "openapi-pp", "json-schema", "types", "codegen-v2", "b"]) {
  try {
    stripFile(f);
  } catch (e) {
    console.log(JSON.stringify({ fatal: "strip failed for " + f + ": " + String(e && e.message) }));
    process.exit(3);
  }
}
let RTMOD, BMOD, ERRMOD, HASHMOD;
try {
  RTMOD = await import(pathToFileURL(path.join(RT, "codegen-v2.mjs")).href);
  BMOD = await import(pathToFileURL(path.join(RT, "b.mjs")).href);
  ERRMOD = await import(pathToFileURL(path.join(RT, "err.mjs")).href);
  HASHMOD = await import(pathToFileURL(path.join(RT, "hash.mjs")).href);
} catch (e) {
  console.log(JSON.stringify({ fatal: "runtime import failed: " + String(e && e.stack) }));
  process.exit(3);
}
const BUNDLED = fs
  .readFileSync(path.join(REPO, "packages/beff-wasm/bundled-code/codegen-v2.js"), "utf8")
  .replace('"@beff/client/codegen-v2"', JSON.stringify(pathToFileURL(path.join(RT, "codegen-v2.mjs")).href));

// ---- fixed custom formats (the reference model in the harness knows the same predicates) ----
const STRING_FORMATS = {
  lower: (s) => s === s.toLowerCase(),
  len3: (s) => s.length >= 3,
  aprefix: (s) => s.startsWith("a"),
  code: (s) => s.length <= 4,
};
const NUMBER_FORMATS = {
  nonneg: (n) => n >= 0,
  int: (n) => Number.isInteger(n),
  code: (n) => n < 100,
};

// ---- tagged JSON <-> JS values ----
const TA = {
  Uint8Array, Uint8ClampedArray, Uint16Array, Uint32Array, Int8Array, Int16Array, Int32Array,
  Float32Array, Float64Array, BigInt64Array, BigUint64Array,
};
class SomeClass {
  constructor() {}
  method() { return 1; }
}
function revive(t) {
  switch (t.t) {
    case "u": return undefined;
    case "n": return null;
    case "b": return t.v;
    case "num":
      if (t.s != null) {
        if (t.s === "NaN") return NaN;
        if (t.s === "Infinity") return Infinity;
        if (t.s === "-Infinity") return -Infinity;
        if (t.s === "-0") return -0;
        return Number(t.s);
      }
      return t.v;
    case "s": return t.v;
    case "big": return BigInt(t.v);
    case "date": return t.v == null ? new Date(NaN) : new Date(t.v);
    case "arr": {
      // {t:"hole"} is an empty slot of a sparse array
      const a = new Array(t.v.length);
      t.v.forEach((x, i) => { if (x.t !== "hole") a[i] = revive(x); });
      return a;
    }
    case "obj": {
      let o;
      if (t.proto === "null") o = Object.create(null);
      else if (t.proto === "class") o = new SomeClass();
      else o = {};
      for (const [k, v] of t.v) {
        Object.defineProperty(o, k, { value: revive(v), enumerable: true, writable: true, configurable: true });
      }
      return o;
    }
    case "map": return new Map(t.v.map(([k, v]) => [revive(k), revive(v)]));
    case "set": return new Set(t.v.map(revive));
    case "ta": {
      const C = TA[t.k];
      if (t.k.startsWith("Big")) return new C(t.v.map((x) => BigInt(x)));
      return new C(t.v);
    }
    case "fn": return function f() {};
    case "sym": return Symbol("s");
    case "cyc": { const o = { a: 1 }; o.self = o; return o; }
    case "cycarr": { const a = [1]; a.push(a); return a; }
    default: throw new Error("bad tagged value " + JSON.stringify(t));
  }
}
function encode(v, seen = new Set(), depth = 0) {
  if (v === undefined) return { t: "u" };
  if (v === null) return { t: "n" };
  switch (typeof v) {
    case "boolean": return { t: "b", v };
    case "number":
      if (Number.isNaN(v)) return { t: "num", s: "NaN" };
      if (v === Infinity) return { t: "num", s: "Infinity" };
      if (v === -Infinity) return { t: "num", s: "-Infinity" };
      if (Object.is(v, -0)) return { t: "num", s: "-0" };
      return { t: "num", v };
    case "string": return { t: "s", v };
    case "bigint": return { t: "big", v: v.toString() };
    case "function": return { t: "fn" };
    case "symbol": return { t: "sym" };
  }
  if (seen.has(v) || depth > 40) return { t: "cyc" };
  seen.add(v);
  try {
    if (v instanceof Date) return { t: "date", v: Number.isNaN(v.getTime()) ? null : v.getTime() };
    if (Array.isArray(v)) return { t: "arr", v: Array.from(v, (x, i) => (i in v ? encode(x, seen, depth + 1) : { t: "hole" })) };
    if (v instanceof Map) return { t: "map", v: [...v].map(([k, x]) => [encode(k, seen, depth + 1), encode(x, seen, depth + 1)]) };
    if (v instanceof Set) return { t: "set", v: [...v].map((x) => encode(x, seen, depth + 1)) };
    if (ArrayBuffer.isView(v)) return { t: "ta", k: v.constructor.name, v: [...v].map((x) => (typeof x === "bigint" ? x.toString() : x)) };
    const proto = Object.getPrototypeOf(v);
    const enc = {
      t: "obj",
      proto: proto === null ? "null" : proto === Object.prototype ? "plain" : "class",
      v: Object.keys(v).map((k) => [k, encode(v[k], seen, depth + 1)]),
    };
    // own properties that Object.keys does not show (a copy made with defineProperty and no `enumerable`): part of the
    // value as far as equality of parsed data is concerned
    const hidden = Object.getOwnPropertyNames(v).filter((k) => !Object.prototype.propertyIsEnumerable.call(v, k));
    if (hidden.length > 0) enc.hidden = hidden.sort().map((k) => [k, encode(Object.getOwnPropertyDescriptor(v, k).value, seen, depth + 1)]);
    return enc;
  } finally {
    seen.delete(v);
  }
}
// structural fingerprint used for mutation detection (includes key order and prototype kind)
function fingerprint(v) {
  try {
    return JSON.stringify(encode(v));
  } catch (e) {
    return "unprintable:" + String(e);
  }
}
function thrown(e) {
  return {
    ctor: e && e.constructor ? e.constructor.name : typeof e,
    message: e && typeof e.message === "string" ? e.message : String(e),
    isError: e instanceof Error,
  };
}

// ---- module loading ----
let modCounter = 0;
const handles = new Map();
async function loadModule(req) {
  const sf = req.stringFormats || [];
  const nf = req.numberFormats || [];
  const text = [
    "//@ts-nocheck",
    "",
    BUNDLED,
    `const RequiredStringFormats = ${JSON.stringify(sf)};`,
    `const RequiredNumberFormats = ${JSON.stringify(nf)};`,
    req.code,
    "export default { buildParsers };",
  ].join("\n");
  const file = path.join(MYDIR, `m${modCounter++}.mjs`);
  fs.writeFileSync(file, text);
  let m;
  try {
    m = await import(pathToFileURL(file).href);
  } finally {
    try { fs.unlinkSync(file); } catch {}
  }
  const stringFormats = {};
  for (const k of sf) if (STRING_FORMATS[k]) stringFormats[k] = STRING_FORMATS[k];
  const numberFormats = {};
  for (const k of nf) if (NUMBER_FORMATS[k]) numberFormats[k] = NUMBER_FORMATS[k];
  const parsers = m.default.buildParsers({ stringFormats, numberFormats });
  return parsers;
}

// ---- b.* ad-hoc validators built from a spec ----
let namedCounter = 0;
function buildB(spec) {
  const b = BMOD.b;
  switch (spec.k) {
    case "string": return b.String();
    case "number": return b.Number();
    case "boolean": return b.Boolean();
    case "null": return b.Null();
    case "undefined": return b.Undefined();
    case "void": return b.Void();
    case "any": return b.Any();
    case "unknown": return b.Unknown();
    case "date": return b.Date();
    case "ta": return b[spec.name]();
    case "const": return b.Const(spec.v);
    case "array": return b.Array(buildB(spec.item));
    case "roarray": return b.ReadOnlyArray(buildB(spec.item));
    case "object": {
      const f = {};
      for (const [k, v] of spec.fields) f[k] = buildB(v);
      return b.Object(f);
    }
    case "union": return BMOD.buntyped.Union(...spec.items.map(buildB));
    case "named": {
      const name = `VerifNamed_${process.pid}_${namedCounter++}`;
      return RTMOD.createNamedType(name, buildB(spec.item));
    }
    case "named_ov": {
      // the README's pattern with a use in between: createNamedType(name, first); the parser is used; then
      // overrideNamedType(name, item).  From then on the parser is the one of `item`.
      const name = `VerifNamedOv_${process.pid}_${namedCounter++}`;
      const p = RTMOD.createNamedType(name, buildB(spec.first));
      for (const probe of [undefined, null, "a", 1, {}, [], { a: "a" }]) {
        try { p.validate(probe); p.safeParse(probe); } catch {}
      }
      try { p.hash256(); p.describe(); } catch {}
      RTMOD.overrideNamedType(name, buildB(spec.item));
      return p;
    }
    default: throw new Error("bad b spec " + JSON.stringify(spec));
  }
}

// ---- histories over the runtime type-building API (b.*, createNamedType, overrideNamedType) ----
// ops: {op:"create",name,spec} {op:"override",name,spec} {op:"build",id,spec} {op:"observe",id}
// specs: buildB's language plus {k:"ref",name} (a named parser) and {k:"use",id} (a parser built earlier).
// The history is run twice under different name prefixes: as given (with its observations), and without the
// observations; the final digests of every parser must not depend on what was observed on the way.
let historyCounter = 0;
function runBHistoryOnce(ops, values, observe) {
  const prefix = `VerifHist_${process.pid}_${historyCounter++}_`;
  const named = {};
  const built = {};
  const build = (spec) => {
    switch (spec.k) {
      case "ref": if (!(spec.name in named)) throw new Error("history uses an undefined name"); return named[spec.name];
      case "use": if (!(spec.id in built)) throw new Error("history uses an unbuilt parser"); return built[spec.id];
      case "array": return BMOD.b.Array(build(spec.item));
      case "object": { const f = {}; for (const [k, v] of spec.fields) f[k] = build(v); return BMOD.b.Object(f); }
      case "union": return BMOD.buntyped.Union(...spec.items.map(build));
      default: return buildB(spec);
    }
  };
  const look = (id) => (id in built ? built[id] : named[id]);
  const snapshot = (p) => {
    const o = {};
    try { o.hash256 = p.hash256(); } catch (e) { o.hash256Threw = thrown(e); }
    try { o.hash = p.hash(); } catch (e) { o.hashThrew = thrown(e); }
    o.validate = values.map((v) => { try { return p.validate(v) ? 1 : 0; } catch (e) { return "threw"; } });
    return o;
  };
  const observations = [];
  ops.forEach((op, step) => {
    switch (op.op) {
      case "create": named[op.name] = RTMOD.createNamedType(prefix + op.name, build(op.spec)); break;
      case "override": RTMOD.overrideNamedType(prefix + op.name, build(op.spec)); break;
      case "build": built[op.id] = build(op.spec); break;
      case "observe": if (observe) observations.push({ step, id: op.id, ...snapshot(look(op.id)) }); break;
      default: throw new Error("bad history op " + op.op);
    }
  });
  const finals = {};
  for (const id of [...Object.keys(named), ...Object.keys(built)]) finals[id] = snapshot(look(id));
  return { observations, finals };
}
function runBHistory(ops, values) {
  const observed = runBHistoryOnce(ops, values, true);
  const fresh = runBHistoryOnce(ops, values, false);
  return { observations: observed.observations, finals: observed.finals, fresh: fresh.finals };
}

// ---- independent path resolver for C12 ----
// Returns {ok, value} where ok=false when the path cannot be resolved.
function looseJson(k) {
  // what a path segment may carry for a Map key / Set item: plain JSON where possible, else a tolerant form
  const out = [];
  try { out.push(String(JSON.stringify(k))); } catch {}
  try {
    const anc = [];
    out.push(String(JSON.stringify(k, function (_k, v) {
      if (typeof v === "bigint") return `${v}n`;
      if (typeof v === "object" && v !== null) {
        while (anc.length > 0 && anc[anc.length - 1] !== this) anc.pop();
        if (anc.includes(v)) return "[Circular]";
        anc.push(v);
      }
      return v;
    })));
  } catch {}
  return out;
}
// All positions a path can address (Map keys / Set items are rendered lossily, e.g. NaN -> null, so a segment
// may match several entries): returns a list of {value, missing}.
function resolveAll(cur, segs, i, acc, why) {
  if (acc.length > 64) return;
  if (i === segs.length) {
    acc.push({ value: cur });
    return;
  }
  const seg = segs[i];
  const last = i === segs.length - 1;
  let m;
  if ((m = /^\[(\d+)\]$/.exec(seg)) && Array.isArray(cur)) {
    const idx = Number(m[1]);
    if (idx < cur.length) resolveAll(cur[idx], segs, i + 1, acc, why);
    else if (last) acc.push({ value: undefined, missing: true });
    else why.push("missing index not last: " + seg);
    return;
  }
  if (cur instanceof Map && (m = /^(key|value)\((.*)\)$/s.exec(seg))) {
    let any = false;
    for (const [k, v] of cur) {
      if (looseJson(k).includes(m[2])) {
        any = true;
        resolveAll(m[1] === "key" ? k : v, segs, i + 1, acc, why);
      }
    }
    if (!any) why.push("no map entry for " + seg);
    return;
  }
  if (cur instanceof Set && (m = /^item\((.*)\)$/s.exec(seg))) {
    let any = false;
    for (const v of cur) {
      if (looseJson(v).includes(m[1])) {
        any = true;
        resolveAll(v, segs, i + 1, acc, why);
      }
    }
    if (!any) why.push("no set item for " + seg);
    return;
  }
  if (cur !== null && (typeof cur === "object" || typeof cur === "function")) {
    if (Object.prototype.hasOwnProperty.call(cur, seg)) {
      resolveAll(cur[seg], segs, i + 1, acc, why);
    } else if (last) {
      // missing property of an existing object; the validator reads input[k], so an inherited member
      // (e.g. toString) is what is 'found there'
      acc.push({ value: cur[seg], missing: true });
    } else {
      why.push("missing property not last: " + seg);
    }
    return;
  }
  why.push(`segment ${JSON.stringify(seg)} does not address into ${cur === null ? "null" : typeof cur}`);
}
function checkErrors(errors, root, basePath, out, depth = 0) {
  if (!Array.isArray(errors)) {
    out.push("errors is not an array");
    return;
  }
  for (const e of errors) {
    if (e == null || typeof e !== "object" || !Array.isArray(e.path)) {
      out.push("malformed error entry");
      continue;
    }
    const full = [...basePath, ...e.path];
    const cands = [];
    const why = [];
    resolveAll(root, full, 0, cands, why);
    if (cands.length === 0) {
      out.push(`path ${JSON.stringify(full)} does not resolve: ${why[0]}`);
    } else if (!cands.some((c) => Object.is(c.value, e.received))) {
      out.push(`received differs at ${JSON.stringify(full)}: found ${safeShow(cands[0].value)} reported ${safeShow(e.received)}`);
    }
    if ("isUnionError" in e) {
      if (!Array.isArray(e.errors) || e.errors.length === 0) out.push("union error without inner errors");
      else if (depth < 30) checkErrors(e.errors, root, full, out, depth + 1);
    } else if (typeof e.message !== "string") {
      out.push("error without message");
    }
  }
}
function safeShow(v) {
  try {
    return JSON.stringify(encode(v));
  } catch {
    return "<?>";
  }
}

// ---- deep helpers for C03 ----
function sameLeaf(a, b) {
  if (typeof a === "number" && typeof b === "number") return a === b || (a !== a && b !== b);
  return a === b;
}
// data must be a projection of input: every key of data exists in input, leaves equal, kinds preserved
function projectionProblems(data, input, pathStr, out, seen = new Set()) {
  if (out.length > 5) return;
  if (data === null || typeof data !== "object") {
    if (!sameLeaf(data, input)) out.push(`${pathStr}: leaf ${safeShow(data)} is not the input's ${safeShow(input)}`);
    return;
  }
  if (seen.has(data)) return;
  seen.add(data);
  if (input === null || typeof input !== "object") {
    out.push(`${pathStr}: data is an object but input is ${safeShow(input)}`);
    return;
  }
  if (data instanceof Date) {
    if (!(input instanceof Date) || !sameLeaf(data.getTime(), input.getTime())) out.push(`${pathStr}: Date not preserved`);
    return;
  }
  if (ArrayBuffer.isView(data)) {
    if (!ArrayBuffer.isView(input) || data.constructor !== input.constructor || data.length !== input.length) {
      out.push(`${pathStr}: typed array not preserved`);
      return;
    }
    for (let i = 0; i < data.length; i++) if (!sameLeaf(data[i], input[i])) out.push(`${pathStr}[${i}]: typed array content changed`);
    return;
  }
  if (data instanceof Map) {
    if (!(input instanceof Map)) return void out.push(`${pathStr}: Map not preserved (input is not a Map)`);
    if (data.size !== input.size) return void out.push(`${pathStr}: Map size ${data.size} != ${input.size}`);
    const a = [...data], b = [...input];
    for (let i = 0; i < a.length; i++) {
      projectionProblems(a[i][0], b[i][0], `${pathStr}.key#${i}`, out, seen);
      projectionProblems(a[i][1], b[i][1], `${pathStr}.value#${i}`, out, seen);
    }
    return;
  }
  if (data instanceof Set) {
    if (!(input instanceof Set)) return void out.push(`${pathStr}: Set not preserved (input is not a Set)`);
    if (data.size !== input.size) return void out.push(`${pathStr}: Set size ${data.size} != ${input.size}`);
    const a = [...data], b = [...input];
    for (let i = 0; i < a.length; i++) projectionProblems(a[i], b[i], `${pathStr}.item#${i}`, out, seen);
    return;
  }
  if ((input instanceof Map || input instanceof Set || input instanceof Date || ArrayBuffer.isView(input)) && Array.isArray(data)) {
    out.push(`${pathStr}: input is a ${input.constructor.name} but data is an array`);
    return;
  }
  if (input instanceof Map || input instanceof Set || input instanceof Date || ArrayBuffer.isView(input)) {
    projectionNotes.builtinAsObject = true;
  }
  // (a builtin instance accepted by an *object type* may come back as the plain object of its declared parts;
  //  when the type declares the builtin itself, `validate(data)` above is what catches a lost kind)
  if (Array.isArray(data)) {
    if (!Array.isArray(input)) return void out.push(`${pathStr}: data is an array, input is not`);
    // a tuple shorter than its type is read with `undefined` for the missing items (unspecified zone of the
    // statement): data may be longer than the input only by trailing undefined items
    if (data.length < input.length) return void out.push(`${pathStr}: array length ${data.length} != ${input.length}`);
    for (let i = input.length; i < data.length; i++) {
      if (data[i] !== undefined) return void out.push(`${pathStr}: array length ${data.length} != ${input.length}`);
    }
    for (let i = 0; i < input.length; i++) projectionProblems(data[i], input[i], `${pathStr}[${i}]`, out, seen);
    return;
  }
  if (Array.isArray(input)) return void out.push(`${pathStr}: input is an array, data is an object`);
  for (const k of Object.keys(data)) {
    if (!Object.prototype.hasOwnProperty.call(input, k)) {
      out.push(`${pathStr}.${k}: key not present in input`);
      continue;
    }
    projectionProblems(data[k], input[k], `${pathStr}.${k}`, out, seen);
  }
}
const projectionNotes = { builtinAsObject: false };
function deepEqualOrdered(a, b) {
  return fingerprint(a) === fingerprint(b);
}
function sortKeysDeep(enc) {
  if (enc == null || typeof enc !== "object") return enc;
  if (Array.isArray(enc)) return enc.map(sortKeysDeep);
  const out = {};
  for (const k of Object.keys(enc)) out[k] = sortKeysDeep(enc[k]);
  if (out.t === "obj" && Array.isArray(out.v)) {
    out.v = [...out.v].sort((x, y) => (x[0] < y[0] ? -1 : x[0] > y[0] ? 1 : 0));
  }
  return out;
}
function fingerprintUnordered(v) {
  try {
    return JSON.stringify(sortKeysDeep(encode(v)));
  } catch (e) {
    return "unprintable";
  }
}

function optsOf(o) {
  if (o == null) return undefined;
  const r = {};
  if (o.strict != null) r.disallowExtraProperties = o.strict;
  if (o.order != null) r.objectKeyOrder = o.order;
  return r;
}

// ---- SHA-256 tap (C13 part A) ----
function applyDigestOp(w, op) {
  switch (op.o) {
    case "tag": w.updateTag(op.v); break;
    case "str": w.updateString(op.v); break;
    case "num": w.updateNumber(revive(op.v)); break;
    case "bool": w.updateBoolean(op.v); break;
    case "null": w.updateNull(); break;
    default: throw new Error("bad digest op");
  }
}
// the encoding documented in hash.ts (kind byte, big-endian length, UTF-8 payload): only a fallback explanation when the
// byte stream cannot be tapped any more (an implementation is free to change the encoding)
function modelBytes(ops) {
  const parts = [];
  const lenPrefixed = (kind, str) => {
    const b = Buffer.from(str, "utf8");
    const h = Buffer.alloc(5);
    h[0] = kind;
    h.writeUInt32BE(b.length, 1);
    parts.push(h, b);
  };
  for (const op of ops) {
    switch (op.o) {
      case "tag": lenPrefixed(1, op.v); break;
      case "str": lenPrefixed(2, op.v); break;
      case "num": {
        const n = revive(op.v);
        lenPrefixed(3, Number.isNaN(n) ? "NaN" : Object.is(n, -0) ? "-0" : String(n));
        break;
      }
      case "bool": parts.push(Buffer.from([op.v ? 4 : 5])); break;
      case "null": parts.push(Buffer.from([6])); break;
    }
  }
  return Buffer.concat(parts);
}
function runDigestSequence(ops) {
  const w = new HASHMOD.Hash256Writer();
  const chunks = [];
  const orig = w.updateBytes;
  const tappable = typeof orig === "function";
  if (tappable) {
    w.updateBytes = function (data) {
      chunks.push(Buffer.from(data));
      return orig.call(this, data);
    };
  }
  let payload = 0;
  for (const op of ops) {
    applyDigestOp(w, op);
    if (op.o === "str" || op.o === "tag") payload += Buffer.byteLength(op.v, "utf8");
  }
  const got = w.digestHex();
  const all = Buffer.concat(chunks);
  const sha = (b) => crypto.createHash("sha256").update(b).digest("hex");
  // the tap saw the stream only if it saw at least the text that was written
  // ... and, where the writer counts what it hashed, exactly that many bytes
  const counted = typeof w.bytesHashed === "number" ? w.bytesHashed : null;
  const tapComplete = tappable && counted != null && all.length === counted && all.length >= payload;
  const want = sha(all);
  const model = sha(modelBytes(ops));
  // encoding-independent: a digest must depend on every character of every string it is given
  const insensitive = [];
  ops.forEach((op, i) => {
    if ((op.o !== "str" && op.o !== "tag") || op.v.length === 0) return;
    const cps = Array.from(op.v);
    for (const pos of [cps.length - 1, Math.floor(cps.length / 2)]) {
      const alt = cps.slice();
      alt[pos] = alt[pos] === "y" ? "z" : "y";
      const w2 = new HASHMOD.Hash256Writer();
      ops.forEach((o2, j) => applyDigestOp(w2, j === i ? { ...o2, v: alt.join("") } : o2));
      if (w2.digestHex() === got) insensitive.push({ op: i, position: pos, of: cps.length });
    }
  });
  return { got, want, model, tapComplete, bytes: all.length, payload, insensitive };
}

// Unique decodability of whatever encoding the writer uses, without assuming which: the bytes the writer produces for a
// tail of writes (seen through the tap) are put, as text, behind a prefix P inside ONE string; that single write and the
// sequence [write P, then the tail] are different inputs and must have different digests.  (A length prefix that loses
// bits makes the two byte streams identical at the lengths where the lost bits matter.)
function tapStream(ops) {
  const w = new HASHMOD.Hash256Writer();
  const chunks = [];
  const orig = w.updateBytes;
  if (typeof orig !== "function") return null;
  w.updateBytes = function (data) { chunks.push(Buffer.from(data)); return orig.call(this, data); };
  for (const op of ops) applyDigestOp(w, op);
  const digest = w.digestHex();
  const all = Buffer.concat(chunks);
  if (typeof w.bytesHashed !== "number" || w.bytesHashed !== all.length) return null;
  return { bytes: all, digest };
}
function digestOf(ops) {
  const w = new HASHMOD.Hash256Writer();
  for (const op of ops) applyDigestOp(w, op);
  return w.digestHex();
}
function runConfusable(prefix, tail) {
  const t = tapStream(tail);
  if (t == null) return { skipped: "byte stream not observable" };
  let text;
  try { text = new TextDecoder("utf-8", { fatal: true }).decode(t.bytes); } catch { return { skipped: "tail bytes are not text" }; }
  if (Buffer.compare(Buffer.from(text, "utf8"), t.bytes) !== 0) return { skipped: "tail bytes do not survive a text round trip" };
  const one = [{ o: "str", v: prefix + text }];
  const many = [{ o: "str", v: prefix }, ...tail];
  const d1 = digestOf(one), d2 = digestOf(many);
  return { same: d1 === d2, digest: d1, singleLength: Buffer.byteLength(prefix + text, "utf8"), tailBytes: t.bytes.length };
}

// ---- queries ----
function getParser(env, q) {
  if (q.b != null) {
    const key = JSON.stringify(q.b);
    if (!env.bcache.has(key)) env.bcache.set(key, buildB(q.b));
    return env.bcache.get(key);
  }
  const p = env.parsers[q.parser];
  if (p == null) throw new Error("no parser named " + q.parser);
  return p;
}

function runQuery(env, q) {
  switch (q.q) {
    case "validate": {
      const p = getParser(env, q);
      const v = revive(q.value);
      try {
        return { r: p.validate(v, optsOf(q.opts)) };
      } catch (e) {
        return { threw: thrown(e) };
      }
    }
    case "validateMany": {
      // values x option sets -> matrix of results (true/false/"T" for throw)
      const p = getParser(env, q);
      const res = [];
      const identity = [];
      const entry = [];
      const sameObject = q.sameObject === true;
      for (const tv of q.values) {
        const row = [];
        for (const o of q.optsList) {
          const v = revive(tv);
          try {
            row.push(p.validate(v, optsOf(o)) === true ? 1 : 0);
          } catch (e) {
            row.push({ threw: thrown(e) });
          }
        }
        res.push(row);
        // every entry point takes the same options: what validate says under an option set is what safeParse and parse do
        if (q.entryPoints === true) {
          q.optsList.forEach((o, i) => {
            if (typeof row[i] !== "number") return;
            let sp, pr;
            try { sp = p.safeParse(revive(tv), optsOf(o)).success === true ? 1 : 0; } catch (e) { sp = "T"; }
            try { p.parse(revive(tv), optsOf(o)); pr = 1; } catch (e) { pr = 0; }
            if (sp !== row[i] || pr !== row[i]) entry.push({ value: res.length - 1, opts: i, validate: row[i], safeParse: sp, parse: pr });
          });
        }
        // the same object (identity, not a copy) validated under each option set in turn, in both orders: the answer
        // is a function of the value and the options, whatever was asked about that object before
        if (!sameObject) continue;
        for (const order of [q.optsList.map((_, i) => i), q.optsList.map((_, i) => q.optsList.length - 1 - i)]) {
          const shared = revive(tv);
          for (const i of order) {
            let r;
            try { r = p.validate(shared, optsOf(q.optsList[i])) === true ? 1 : 0; } catch (e) { r = "T"; }
            const fresh = typeof row[i] === "number" ? row[i] : "T";
            if (r !== fresh) identity.push({ value: res.length - 1, opts: i, order, fresh, sameObject: r });
          }
        }
      }
      return { m: res, identity, entry };
    }
    case "trio": {
      // C03: validate / safeParse / parse relations, evaluated here where object identity is visible
      const p = getParser(env, q);
      const problems = [];
      const obs = {};
      const opts = optsOf(q.opts);
      const input = revive(q.value);
      const before = fingerprint(input);
      let val, sp, parsed, parseThrew = null;
      try { val = p.validate(input, opts); } catch (e) { problems.push("validate threw " + JSON.stringify(thrown(e))); val = "threw"; }
      try { sp = p.safeParse(input, opts); } catch (e) { problems.push("safeParse threw " + JSON.stringify(thrown(e))); sp = "threw"; }
      try { parsed = p.parse(input, opts); } catch (e) { parseThrew = e; }
      obs.validate = val;
      obs.safeParse = sp === "threw" ? "threw" : sp && sp.success;
      obs.parse = parseThrew == null ? "returned" : "threw";
      if (val !== "threw" && sp !== "threw") {
        if (sp == null || typeof sp.success !== "boolean") problems.push("safeParse returned a malformed result");
        else if (sp.success !== val) problems.push(`safeParse.success=${sp.success} but validate=${val}`);
      }
      if (val !== "threw") {
        if (val === true && parseThrew != null) problems.push("validate is true but parse threw " + JSON.stringify(thrown(parseThrew)));
        if (val === false && parseThrew == null) problems.push("validate is false but parse returned");
      }
      if (parseThrew != null) {
        const t = thrown(parseThrew);
        obs.parseError = t;
        if (!(parseThrew instanceof Error) || parseThrew.constructor !== Error || !/^Failed to parse .* - /s.test(t.message)) {
          problems.push("parse threw something other than its documented failure error: " + JSON.stringify(t));
        }
      }
      if (sp !== "threw" && sp && sp.success === true && val === true) {
        const data = sp.data;
        obs.data = safeEncode(data);
        try {
          if (p.validate(data, opts) !== true) problems.push("parsed data is rejected by the same validator under the same options");
        } catch (e) {
          problems.push("validate(data) threw " + JSON.stringify(thrown(e)));
        }
        const pp = [];
        projectionNotes.builtinAsObject = false;
        projectionProblems(data, input, "$", pp);
        // a builtin instance that was accepted by an object type (unspecified zone) comes back as a plain object;
        // which union branches match the parsed value may then legitimately differ: idempotence is not judged
        const skipIdempotence = projectionNotes.builtinAsObject;
        for (const x of pp) problems.push("not a projection: " + x);
        if (!skipIdempotence) try {
          const again = p.parse(data, opts);
          // equality of values: key order is not part of it (a union merge may reorder keys)
          if (fingerprintUnordered(again) !== fingerprintUnordered(data)) problems.push("parse(data) differs from data: " + safeShow(again) + " vs " + safeShow(data));
        } catch (e) {
          problems.push("parse(data) threw " + JSON.stringify(thrown(e)));
        }
        if (parseThrew == null && !deepEqualOrdered(parsed, data)) problems.push("parse and safeParse returned different data");
        // objectKeyOrder changes key order only
        try {
          const other = p.safeParse(input, { ...(opts || {}), objectKeyOrder: (opts && opts.objectKeyOrder) === "sorted" ? "input" : "sorted" });
          if (!other.success) problems.push("objectKeyOrder changed the verdict");
          else if (fingerprintUnordered(other.data) !== fingerprintUnordered(data)) {
            problems.push("objectKeyOrder changed more than key order: " + safeShow(other.data) + " vs " + safeShow(data));
          }
        } catch (e) {
          problems.push("safeParse with other key order threw " + JSON.stringify(thrown(e)));
        }
      }
      const after = fingerprint(input);
      if (before !== after) problems.push("input was mutated");
      return { problems, obs };
    }
    case "errors": {
      // C12: decode-error invariants
      const p = getParser(env, q);
      const opts = optsOf(q.opts);
      const input = revive(q.value);
      const problems = [];
      const obs = {};
      let val;
      try { val = p.validate(input, opts); } catch (e) { return { problems: [], obs: { validate: "threw" }, skipped: "validate threw (C03's subject)" }; }
      obs.validate = val;
      if (val !== false) return { problems, obs, skipped: "accepted" };
      let sp;
      try { sp = p.safeParse(input, opts); } catch (e) {
        problems.push("safeParse threw on a rejected value: " + JSON.stringify(thrown(e)));
        return { problems, obs };
      }
      if (sp.success !== false) return { problems, obs, skipped: "safeParse succeeded (C03's subject)" };
      const errs = sp.errors;
      obs.count = Array.isArray(errs) ? errs.length : -1;
      obs.errors = safeEncodeErrors(errs);
      if (!Array.isArray(errs) || errs.length < 1) problems.push("rejected value but errors is empty");
      else if (errs.length > 10) problems.push("more than ten errors: " + errs.length);
      checkErrors(errs || [], input, [], problems);
      let r1, r2;
      try {
        r1 = ERRMOD.printErrors(errs, []);
        r2 = ERRMOD.printErrors(errs, []);
        if (typeof r1 !== "string") problems.push("printErrors did not return a string");
        if (r1 !== r2) problems.push("printErrors is not deterministic");
        obs.printed = r1.length > 300 ? r1.slice(0, 300) + "..." : r1;
      } catch (e) {
        problems.push("printErrors threw " + JSON.stringify(thrown(e)));
      }
      let m1 = null, m2 = null;
      try { p.parse(input, opts); problems.push("parse returned on a rejected value"); } catch (e) { m1 = e; }
      try { p.parse(input, opts); } catch (e) { m2 = e; }
      if (m1 != null) {
        if (!(m1 instanceof Error) || m1.constructor !== Error || typeof m1.message !== "string" || !m1.message.startsWith("Failed to parse ")) {
          problems.push("parse threw something other than its documented failure error: " + JSON.stringify(thrown(m1)));
        } else if (m2 == null || m1.message !== m2.message) problems.push("parse error message is not deterministic");
        else if (r1 != null && !m1.message.endsWith(" - " + r1)) problems.push("parse message is not the rendering of the errors");
      }
      return { problems, obs };
    }
    case "hash": {
      const p = getParser(env, q);
      try { return { r: p.hash() }; } catch (e) { return { threw: thrown(e) }; }
    }
    case "hash256": {
      const p = getParser(env, q);
      if (!q.tokens) {
        try { return { r: p.hash256() }; } catch (e) { return { threw: thrown(e) }; }
      }
      // also record the canonical encoding as a token sequence (what hash256 feeds its writer), so that a
      // difference between two digests can be located
      const proto = HASHMOD.Hash256Writer && HASHMOD.Hash256Writer.prototype;
      const names = ["updateTag", "updateString", "updateNumber", "updateBoolean", "updateNull"];
      const tokens = [];
      const saved = {};
      let tapped = proto != null && names.every((n) => typeof proto[n] === "function");
      if (tapped) {
        const short = { updateTag: "T", updateString: "S", updateNumber: "N", updateBoolean: "B", updateNull: "Z" };
        for (const n of names) {
          saved[n] = proto[n];
          proto[n] = function (v) {
            if (tokens.length < 40000) tokens.push(short[n] + (n === "updateNull" ? "" : ":" + String(v)));
            return saved[n].call(this, v);
          };
        }
      }
      try {
        return { r: p.hash256(), tokens: tapped ? tokens : null };
      } catch (e) {
        return { threw: thrown(e) };
      } finally {
        if (tapped) for (const n of names) proto[n] = saved[n];
      }
    }
    case "describe": {
      const p = getParser(env, q);
      try { return { r: p.describe() }; } catch (e) { return { threw: thrown(e) }; }
    }
    case "schema": {
      const p = getParser(env, q);
      try { return { r: p.schema() }; } catch (e) { return { threw: thrown(e) }; }
    }
    case "schemaCtx": {
      // sequence of schemaWithContext calls in ONE context; returns each returned schema + final export
      const ctxOpts = { refPathTemplate: q.template, definitionContainerKey: q.container ?? null };
      if (q.overrides) {
        ctxOpts.namedTypeSchemaOverrides = {};
        for (const [name, pn] of Object.entries(q.overrides)) ctxOpts.namedTypeSchemaOverrides[name] = env.parsers[pn];
      }
      const ctx = new RTMOD.SchemaPrintingContext(ctxOpts);
      const returned = [];
      for (const name of q.calls) {
        if (name === "#export") {
          // the definitions read out between two prints (and thrown away): later prints still have to show up in later exports
          try { ctx.exportDefinitions(); returned.push({ exportCall: true }); } catch (e) { returned.push({ exportCall: true, threw: thrown(e) }); }
          continue;
        }
        try {
          returned.push({ r: JSON.parse(JSON.stringify(env.parsers[name].schemaWithContext(ctx))) });
        } catch (e) {
          returned.push({ threw: thrown(e) });
        }
      }
      let exported;
      try { exported = { r: JSON.parse(JSON.stringify(ctx.exportDefinitions())) }; } catch (e) { exported = { threw: thrown(e) }; }
      return { returned, exported };
    }
    case "regexTable": {
      // for the python judge: ECMA-262 pattern semantics
      const out = {};
      for (const pat of q.patterns) {
        let re = null;
        try { re = new RegExp(pat, "u"); } catch { re = null; }
        out[pat] = re == null ? null : Object.fromEntries(q.strings.map((s) => [s, re.test(s)]));
      }
      return { table: out };
    }
    case "digest":
      try { return runDigestSequence(q.ops); } catch (e) { return { threw: thrown(e) }; }
    case "confusable":
      try { return runConfusable(q.prefix, q.tail); } catch (e) { return { threw: thrown(e) }; }
    case "bHistory":
      try { return runBHistory(q.ops, q.values.map(revive)); } catch (e) { return { threw: thrown(e) }; }
    default:
      throw new Error("unknown query " + q.q);
  }
}
function safeEncode(v) {
  try { return encode(v); } catch (e) { return { t: "unencodable", e: String(e) }; }
}
function safeEncodeErrors(errs, depth = 0) {
  if (!Array.isArray(errs) || depth > 6) return null;
  return errs.slice(0, 12).map((e) => ({
    path: e.path,
    message: e.message,
    received: safeEncode(e.received),
    ...(e && "isUnionError" in e ? { isUnionError: true, errors: safeEncodeErrors(e.errors, depth + 1) } : {}),
  }));
}

let LAST_PARSERS = {};
async function handle(req) {
  switch (req.op) {
    case "ping":
      return { pong: true, node: process.version };
    case "case": {
      // load (optional) + queries, all in one round trip
      const env = { parsers: {}, bcache: new Map() };
      if (req.code != null) {
        try {
          env.parsers = await loadModule(req);
          LAST_PARSERS = env.parsers;
        } catch (e) {
          return { loadError: thrown(e) };
        }
      } else if (req.reuse) {
        // second round trip of the same case (C02: documents derived from the printed schema)
        env.parsers = LAST_PARSERS;
      }
      const results = [];
      for (const q of req.queries || []) {
        try {
          results.push(runQuery(env, q));
        } catch (e) {
          results.push({ harnessError: String(e && e.stack) });
        }
      }
      return { parsers: Object.keys(env.parsers), results };
    }
    default:
      return { error: "unknown op" };
  }
}

let __reqs = 0;
const rl = readline.createInterface({ input: process.stdin, crlfDelay: Infinity });
console.log(JSON.stringify({ ready: true, node: process.version }));
for await (const line of rl) {
  if (line.trim() === "") continue;
  let req;
  try {
    req = JSON.parse(line);
  } catch (e) {
    console.log(JSON.stringify({ error: "bad json" }));
    continue;
  }
  let resp;
  try {
    resp = await handle(req);
  } catch (e) {
    resp = { error: String(e && e.stack) };
  }
  resp.id = req.id;
  process.stdout.write(JSON.stringify(resp) + "\n");
  // coverage runs (tools/jscov.py): the harness kills its workers, so the counters are flushed on the way
  if (process.env.NODE_V8_COVERAGE && ++__reqs % 150 === 0) {
    try { (await import("node:v8")).takeCoverage(); } catch {}
  }
}
try { fs.rmSync(MYDIR, { recursive: true, force: true }); } catch {}
