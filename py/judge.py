#!/usr/bin/env python3-vt
"""Persistent JSON Schema judge (Draft 2020-12, python-jsonschema) for the beff verification harness.
One JSON request per line on stdin -> one JSON answer per line on stdout.
`pattern` is evaluated with ECMA-262 semantics through a table computed by Node (JSON Schema patterns are
ECMAScript regular expressions; Python's `re` differs)."""
import json
import sys

try:
    import jsonschema
    from jsonschema import Draft202012Validator, validators
    from jsonschema.exceptions import SchemaError
    import referencing
except Exception as e:  # pragma: no cover
    print(json.dumps({"fatal": "cannot import jsonschema: %s" % e}), flush=True)
    sys.exit(3)

PATTERNS = {}


def pattern_kw(validator, patrn, instance, schema):
    if not isinstance(instance, str):
        return
    table = PATTERNS.get(patrn)
    if table is None:
        # a pattern Node could not compile: reported separately as "not a well-formed schema"
        yield jsonschema.ValidationError("pattern %r is not a valid ECMA-262 regular expression" % patrn)
        return
    ok = table.get(instance)
    if ok is None:
        yield jsonschema.ValidationError("pattern table has no entry for %r / %r" % (patrn, instance))
    elif not ok:
        yield jsonschema.ValidationError("%r does not match %r" % (instance, patrn))


def _is_num(x):
    return isinstance(x, (int, float)) and not isinstance(x, bool)


# the custom formats the harness registers with the generated validators (js/worker.mjs, member.rs)
STRING_FORMATS = {
    "lower": lambda s: s == s.lower(),
    "len3": lambda s: len(s.encode("utf-16-le")) // 2 >= 3,
    "aprefix": lambda s: s.startswith("a"),
    "code": lambda s: len(s.encode("utf-16-le")) // 2 <= 4,
}
NUMBER_FORMATS = {
    "nonneg": lambda n: n >= 0,
    "int": lambda n: float(n).is_integer(),
    "code": lambda n: n < 100,
}


def format_kw(validator, fmt, instance, schema):
    if not isinstance(fmt, str):
        return
    for part in fmt.split(" and "):
        if part in STRING_FORMATS and isinstance(instance, str):
            if not STRING_FORMATS[part](instance):
                yield jsonschema.ValidationError("%r is not a %r" % (instance, part))
        elif part in NUMBER_FORMATS and _is_num(instance):
            if not NUMBER_FORMATS[part](instance):
                yield jsonschema.ValidationError("%r is not a %r" % (instance, part))
        # unknown formats are annotations


Judge = validators.extend(Draft202012Validator, {"pattern": pattern_kw, "format": format_kw})


def collect(schema, key, out):
    if isinstance(schema, dict):
        for k, v in schema.items():
            if k == key and isinstance(v, str):
                out.append(v)
            collect(v, key, out)
    elif isinstance(schema, list):
        for v in schema:
            collect(v, key, out)


def resolve_pointer(doc, ref):
    if not ref.startswith("#"):
        return False
    ptr = ref[1:]
    if ptr == "":
        return True
    if not ptr.startswith("/"):
        return False
    cur = doc
    for part in ptr[1:].split("/"):
        part = part.replace("~1", "/").replace("~0", "~")
        if isinstance(cur, dict) and part in cur:
            cur = cur[part]
        elif isinstance(cur, list) and part.isdigit() and int(part) < len(cur):
            cur = cur[int(part)]
        else:
            return False
    return True


def handle(req):
    global PATTERNS
    root = req["root"]  # the returned schema merged with the exported definitions (composed by the harness)
    PATTERNS = req.get("patterns") or {}
    out = {"schema_ok": True, "schema_err": None, "unresolved_refs": [], "bad_patterns": [], "valid": []}
    try:
        Draft202012Validator.check_schema(root)
    except SchemaError as e:
        out["schema_ok"] = False
        out["schema_err"] = str(e.message)[:300]
    except Exception as e:
        out["schema_ok"] = False
        out["schema_err"] = "check_schema crashed: %s" % str(e)[:300]
    out["bad_defs"] = []
    for i, d in enumerate(req.get("defs") or []):
        try:
            Draft202012Validator.check_schema(d)
        except SchemaError as e:
            out["bad_defs"].append({"index": i, "err": str(e.message)[:200]})
        except Exception as e:
            out["bad_defs"].append({"index": i, "err": "check_schema crashed: %s" % str(e)[:200]})
    refs = []
    collect(root, "$ref", refs)
    for r in sorted(set(refs)):
        if not resolve_pointer(root, r):
            out["unresolved_refs"].append(r)
    pats = []
    collect(root, "pattern", pats)
    for p in sorted(set(pats)):
        if PATTERNS.get(p) is None:
            out["bad_patterns"].append(p)
    if out["schema_ok"] and not out["unresolved_refs"]:
        try:
            v = Judge(root)
            for doc in req.get("docs", []):
                try:
                    out["valid"].append(bool(v.is_valid(doc)))
                except Exception as e:
                    out["valid"].append({"err": str(e)[:200]})
        except Exception as e:
            out["valid"] = [{"err": str(e)[:200]} for _ in req.get("docs", [])]
    return out


def main():
    print(json.dumps({"ready": True}), flush=True)
    for line in sys.stdin:
        line = line.strip()
        if not line:
            continue
        try:
            req = json.loads(line)
        except Exception:
            print(json.dumps({"error": "bad json"}), flush=True)
            continue
        try:
            resp = handle(req)
        except Exception as e:
            resp = {"error": str(e)[:300]}
        resp["id"] = req.get("id")
        print(json.dumps(resp), flush=True)


if __name__ == "__main__":
    main()
