#!/bin/bash
# usage: run_check.sh <ID> <quick|thorough> [--replay <file>]
# exit 0 = property held on everything explored; 1 = VIOLATION line printed; 2 = infrastructure / inconclusive
ID="$1"; TIER="${2:-quick}"; shift 2 || true
ROOT="$(cd "$(dirname "$0")" && pwd)"
export VERIF_ROOT="$ROOT"
export CARGO_NET_OFFLINE=true
mkdir -p "$ROOT/work"
cd "$ROOT/harness" || exit 2
# rebuild from /repo's current working tree (path dependencies on /repo/packages/*), hooks enabled
if ! cargo build --release --features wasmhook >"$ROOT/work/build-$ID.log" 2>&1; then
  # the hooks into the semantic engine's internal API (C05-C07) may not build against a changed tree: the other
  # checks only use beff's public entry points and are built without them
  case "$ID" in
    C05|C06|C07) echo "INFRASTRUCTURE: harness build failed (see $ROOT/work/build-$ID.log)" >&2; tail -5 "$ROOT/work/build-$ID.log" >&2; exit 2 ;;
  esac
  if ! cargo build --release --no-default-features --features wasmhook >"$ROOT/work/build-$ID.log" 2>&1; then
    echo "INFRASTRUCTURE: harness build failed (see $ROOT/work/build-$ID.log)" >&2; tail -5 "$ROOT/work/build-$ID.log" >&2; exit 2
  fi
  echo "NOTE: the engine hooks do not build against this tree; $ID runs on a harness built without them" >&2
fi
# thorough tier: the coverage-guided stage needs the libFuzzer target (nightly toolchain; no sanitizer).  A failure to build
# it is not a verdict and does not stop the other stages: the stage is then reported as skipped in the evidence.
if [ "$TIER" = "thorough" ] || [ -n "$VERIF_FUZZ_RUNS" ]; then
  if ! ( cd "$ROOT/harness/fuzz" && cargo +nightly fuzz build -s none --fuzz-dir . stream >"$ROOT/work/build-fuzz-$ID.log" 2>&1 ); then
    echo "NOTE: the libFuzzer target did not build (see $ROOT/work/build-fuzz-$ID.log); the coverage-guided stage is skipped" >&2
    rm -f "$ROOT/harness/fuzz/target/x86_64-unknown-linux-gnu/release/stream"
  fi
fi
cd "$ROOT"
if [ "$1" = "--replay" ]; then
  exec "$ROOT/harness/target/release/beffv" replay "$ID" "$2"
fi
"$ROOT/harness/target/release/beffv" check "$ID" --tier "$TIER" 2> >(grep -v '^proptest: ' >&2)
rc=$?
# anything that is not a verdict (crash of the harness itself, signal) is inconclusive
if [ $rc -ne 0 ] && [ $rc -ne 1 ]; then exit 2; fi
exit $rc
